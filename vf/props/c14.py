"""C14 - resampling keeps the record.

Monitors: post-conditions on every execution of eqsig.fns.time_step.interp_array_to_approx_dt / interp_to_approx_dt /
resample_to_approx_dt (wherever the call comes from, e.g. AccSignal.gen_response_spectrum). The oracle is the list of
assertions of the statement (vf/oracles/resample.py), each evaluated on the returned (values, step); for the Fourier
variant the unique periodic band-limited signal through the samples is evaluated at the returned instants.
Workload: (dt, target) pairs whose floating quotient lands next to an integer on either side, decimal grids, float-trap
pairs, exact multiples, reciprocal steps, dt == target; lengths odd/even, divisible or not by the decimation factor;
even in {True, False}; array-, object- and consumer-level calls; Fourier matrix even x parity(npts) x parity(factor) x
divisible decimation.
"""
import numpy as np

from vf import attach, core, gen
from vf.oracles import resample as O

PROP_ID = 'C14'
TECHNIQUE = ('runtime post-condition monitors evaluating the assertion list of the statement on every returned '
             '(values, step); analytic periodic band-limited reference for the Fourier variant; directed + random '
             '(dt, target) workload around integer quotients')
RULE = ('cases = (values, dt, target_dt, even, entry point) calls of the real functions through the public names. '
        '(dt, target) from: a fixed list (dt=0.01 with targets 0.004999/0.005/0.005001/0.0033334/0.00333333..., float-trap '
        'pairs such as 0.07/0.01, decimal multiples k*u : u for k<=60, the decimal grid 0.001..0.1 x 0.001..0.3) and '
        'random families (quotient = integer*(1 +- 10^-3..10^-12) on the refinement and on the decimation side, +-1..3 '
        'ulp neighbours of exact quotients, exact multiples k<=60, reciprocal steps 1/k with targets m/k, log-uniform, '
        'dt == target). Lengths from ceil(2*max(dt,target)/dt)+1 to +200, odd and even, divisible and not divisible by '
        'the decimation factor; records from the shared classes. Fourier cases: random harmonics up to (and including) '
        'the highest index below both Nyquist frequencies. distinct = digest(values, dt, target, even, entry point); '
        'non-trivial = non-constant record.')
ASSUMPTIONS = ['finite real input, dt > 0, target_dt > 0, duration (n-1)*dt >= 2*max(dt, target_dt); other calls are '
               'counted, not judged',
               '"subsequence when decimating" = the stride-m samples x[0], x[m], ... optionally followed by the final '
               'sample x[n-1] (what clamping at the record end produces), values within 1e-9*range',
               '"band-limited below the new Nyquist frequency" is read as below BOTH Nyquist frequencies (content above '
               'the old one is not determined by the samples); inputs with content at or above it are counted, not judged',
               'step rule evaluated with 1e-12 relative slack because the quotient dt/target is itself rounded',
               'even length is asserted for the interpolation variants only (the statement does not claim it for the '
               'Fourier variant; odd Fourier results with even=True are counted as an observation)',
               'known finding K6 also absorbs the even=True case in which the FFT grid had len(y)+1 points before the '
               'parity trim (same mechanism: only the claimed step is wrong)']
MIN_EVALS = {
    'quick': {'interp.step<=target': 8500, 'interp.ratio-integer': 8500, 'interp.retained-samples': 4500,
              'interp.subsequence': 4000, 'interp.range': 8500, 'interp.duration<2steps': 8500,
              'interp.even-length': 4000, 'interp_obj.step<=target': 2000, 'interp_obj.duration<2steps': 2000,
              'interp_obj.retained-samples': 1000, 'interp_obj.subsequence': 900,
              'fourier.step<=target': 2400, 'fourier.ratio-integer': 2400, 'fourier.bandlimited-exact': 2000,
              'interp.via-gen_response_spectrum': 120},
    'thorough': {'interp.step<=target': 180000, 'interp.ratio-integer': 180000, 'interp.retained-samples': 90000,
                 'interp.subsequence': 80000, 'interp.range': 180000, 'interp.duration<2steps': 180000,
                 'interp.even-length': 80000, 'interp_obj.step<=target': 45000, 'interp_obj.duration<2steps': 45000,
                 'interp_obj.retained-samples': 20000, 'interp_obj.subsequence': 18000,
                 'fourier.step<=target': 28000, 'fourier.ratio-integer': 28000, 'fourier.bandlimited-exact': 22000,
                 'interp.via-gen_response_spectrum': 2500}}
CTX = None
K6 = 'C14/fourier-decimation-nondivisible'
K6_ACCEPT_PARITY_TRIM = True   # also accept the FFT grid of len(y)+1 points when even=True (see ASSUMPTIONS / k6_explains)
VIA = {'consumer': False}
MAX_ORACLE_N = 3000          # projection is O(N^2); longer Fourier inputs are counted, not judged


def n_shards(tier):
    return 16


# ---------------------------------------------------------------------------------------------------- monitors
def _wit(fn, values, dt, target, even, **kw):
    d = {'fn': fn, 'values': np.asarray(values), 'container': type(values).__name__, 'dt': dt, 'target_dt': target,
         'even': even}
    d.update(kw)
    return d


def _finite_real(x):
    return x.ndim == 1 and x.dtype.kind in 'fiu' and bool(np.all(np.isfinite(x)))


def _domain(ctx, prefix, x, dt, target):
    try:
        ok = _finite_real(x) and O.in_domain(len(x), float(dt), float(target))
    except Exception:
        ok = False
    if not ok:
        ctx.observe(prefix + 'out-of-domain call (not judged)')
    return ok


def check_interp(ctx, prefix, fn, values, dt, target, even, y, new_dt):
    """The assertion list of the statement for the interpolation variants."""
    try:
        x = np.asarray(values, dtype=float)
    except Exception:
        ctx.observe(prefix + 'out-of-domain call (not judged)')
        return
    if not _domain(ctx, prefix, x, dt, target):
        return
    dt = float(dt)
    target = float(target)
    n = len(x)
    ctx.ok(prefix + 'returns')
    try:
        y = np.asarray(y, dtype=float)
        new_dt = float(new_dt)
        shape_ok = y.ndim == 1
    except Exception:
        shape_ok = False
    w = lambda **kw: _wit(fn, values, dt, target, even, got_len=(len(y) if shape_ok else None),
                          got_dt=(new_dt if shape_ok else repr(new_dt)), **kw)
    if not shape_ok:
        ctx.violation(prefix + 'returns', w(), 'result is not (1-d values, step): %r' % (type(y),))
        return
    head = '%s(n=%d, dt=%r, target_dt=%r, even=%r) -> (len %d, dt %r)' % (fn, n, dt, target, even, len(y), new_dt)
    ctx.check(O.step_rule(new_dt, target), prefix + 'step<=target', w, head + ': returned step exceeds the target')
    kind, k = O.ratio_kind(dt, new_dt)
    ctx.check(kind is not None, prefix + 'ratio-integer', w,
              head + ': dt/new_dt = %r is neither an integer nor the reciprocal of one' % (k,))
    if even:
        ctx.check(len(y) % 2 == 0, prefix + 'even-length', w, head + ': odd length although even was requested')
    okr, exc = O.in_range(x, y)
    ctx.check(okr, prefix + 'range', w, head + ': values leave the input range by %.3g' % exc)
    dc = O.duration_change(n, dt, len(y), new_dt)
    ctx.check(dc < 2.0 * (1 - 1e-9), prefix + 'duration<2steps', lambda: w(duration_change_in_steps=dc),
              head + ': covered duration changes by %.4g (coarser) steps' % dc)
    if kind == 'refine':
        okk, j, cnt = O.retained_refining(x, y, k)
        ctx.check(okk, prefix + 'retained-samples', lambda: w(factor=k, first_bad_sample=j),
                  head + ': original sample %s does not reappear at index %s (factor %d)' % (j, None if j is None else j * k, k))
        if (dt / (k - 1) if k > 1 else 2.0 * dt) <= target:
            ctx.observe(prefix + 'refine: a coarser admissible step exists (float quotient; allowed by the statement)')
    elif kind == 'decimate':
        okk, i, allowed = O.subsequence_decimating(x, y, k)
        ctx.check(okk, prefix + 'subsequence', lambda: w(factor=k, first_bad_output_index=i, allowed=allowed),
                  head + ': output index %s is not input sample %s (stride %d)' % (i, None if i is None else i * k, k))
        if dt * (k + 1) <= target:
            ctx.observe(prefix + 'decimate: a coarser admissible step exists (float quotient; allowed by the statement)')
    if VIA['consumer'] and prefix == 'interp.':
        ctx.ok('interp.via-gen_response_spectrum')


def k6_explains(N, dt, new_dt, even, y, a, b, Ks, scale, skip):
    """Mechanism classifier of the open finding C14/fourier-decimation-nondivisible (DESIGN.md C14 (g)): Fourier
    variant, decimating by m, npts % m != 0, and the output equals the analytic band-limited signal sampled at spacing
    npts*dt/L, L = len(y) (or len(y)+1 when an even length was requested, the FFT grid before the parity trim) - i.e.
    the only thing wrong is the claimed step."""
    kind, m = O.ratio_kind(dt, new_dt)
    if kind != 'decimate' or N % m == 0 or len(y) == 0:
        return False
    for L in ((len(y), len(y) + 1) if (even and K6_ACCEPT_PARITY_TRIM) else (len(y),)):
        exp = O.trig_eval(a, b, Ks, np.arange(len(y)) / float(L), skip)
        if bool(np.all(np.abs(y - exp) <= O.BAND_RTOL * scale)):
            return L
    return False


def check_fourier(ctx, asig, target, even, result):
    prefix = 'fourier.'
    fn = 'resample_to_approx_dt'
    try:
        values = asig.values
        dt = asig.dt
        x = np.asarray(values, dtype=float)
    except Exception:
        ctx.observe(prefix + 'out-of-domain call (not judged)')
        return
    if not _domain(ctx, prefix, x, dt, target):
        return
    dt = float(dt)
    target = float(target)
    N = len(x)
    ctx.ok(prefix + 'returns')
    try:
        y = np.asarray(result.values, dtype=float)
        new_dt = float(result.dt)
        shape_ok = y.ndim == 1
    except Exception:
        shape_ok = False
    if not shape_ok:
        ctx.violation(prefix + 'returns', _wit(fn, values, dt, target, even), 'result has no 1-d values / step')
        return
    w = lambda **kw: _wit(fn, values, dt, target, even, got_len=len(y), got_dt=new_dt, **kw)
    head = '%s(n=%d, dt=%r, target_dt=%r, even=%r) -> (len %d, dt %r)' % (fn, N, dt, target, even, len(y), new_dt)
    ctx.check(O.step_rule(new_dt, target), prefix + 'step<=target', w, head + ': returned step exceeds the target')
    kind, k = O.ratio_kind(dt, new_dt)
    ctx.check(kind is not None, prefix + 'ratio-integer', w,
              head + ': dt/new_dt = %r is neither an integer nor the reciprocal of one' % (k,))
    if even and len(y) % 2:
        ctx.observe(prefix + 'odd length with even=True (not part of the Fourier statement)')
    if kind is None:
        return
    ctx.observe('fourier.cover even=%s npts-%s %s-by-%s%s' % (
        even, 'odd' if N % 2 else 'even', kind, 'odd' if k % 2 else 'even',
        '' if kind == 'refine' else (' divisible' if N % k == 0 else ' non-divisible')))
    # -- periodic band-limited reproduction
    if N > MAX_ORACLE_N:
        ctx.observe(prefix + 'input too long for the projection oracle (not judged)')
        return
    scale = float(np.max(np.abs(x)))
    a, b, nyq = O.harmonics(x)
    Ks = O.band_index(a, b, nyq, scale)
    below_old = 2 * Ks < N
    below_new = 2.0 * Ks * new_dt < N * dt * (1 - 1e-9)
    if not (below_old and below_new):
        ctx.observe(prefix + 'input not band-limited below the Nyquist frequencies (not judged)')
        return
    skip = 1e-15 * scale
    tau = np.arange(len(y)) * new_dt / (N * dt)
    exp = O.trig_eval(a, b, Ks, tau, skip)
    err = np.abs(y - exp)
    allowed = O.BAND_RTOL * scale
    okk = bool(np.all(err <= allowed))
    fin = None
    if not okk:
        L = k6_explains(N, dt, new_dt, even, y, a, b, Ks, scale, skip)
        if L:
            fin = K6
            ctx.observe('fourier.K6 matched with FFT grid of %s points' % ('len(y)' if L == len(y) else 'len(y)+1 (parity trim)'))
    if okk:
        ctx.ok(prefix + 'bandlimited-exact')
    else:
        i = int(np.argmax(np.where(np.isnan(err), np.inf, err)))
        ctx.violation(prefix + 'bandlimited-exact',
                      w(band_index=Ks, worst_index=i, got=float(y[i]), expected=float(exp[i]), allowed=allowed),
                      head + ': band-limited (K=%d) periodic signal not reproduced at instant %d*new_dt: got %r expected %r '
                      '(|diff| %.3g > %.3g)' % (Ks, i, float(y[i]), float(exp[i]), float(err[i]), allowed), finding=fin)


def _parse(args, kwargs, names, defaults):
    out = []
    for i, nme in enumerate(names):
        if i < len(args):
            out.append(args[i])
        elif nme in kwargs:
            out.append(kwargs[nme])
        else:
            out.append(defaults[nme])
    return out


_DEF = {'target_dt': 0.01, 'even': True}


def _post_interp_array(args, kwargs, result, pre):
    values, dt, target, even = _parse(args, kwargs, ('values', 'dt', 'target_dt', 'even'), _DEF)
    try:
        y, new_dt = result
    except Exception:
        y, new_dt = result, None
    check_interp(CTX, 'interp.', 'interp_array_to_approx_dt', values, dt, target, even, y, new_dt)


def _post_interp_obj(args, kwargs, result, pre):
    asig, target, even = _parse(args, kwargs, ('asig', 'target_dt', 'even'), _DEF)
    try:
        values, dt = asig.values, asig.dt
        y, new_dt = result.values, result.dt
    except Exception:
        CTX.observe('interp_obj.out-of-domain call (not judged)')
        return
    check_interp(CTX, 'interp_obj.', 'interp_to_approx_dt', values, dt, target, even, y, new_dt)


def _post_resample(args, kwargs, result, pre):
    asig, target, even = _parse(args, kwargs, ('asig', 'target_dt', 'even'), _DEF)
    check_fourier(CTX, asig, target, even, result)


def _exc_hook(prefix, fn, objlevel):
    def hook(args, kwargs, exc, pre):
        try:
            if objlevel:
                asig, target, even = _parse(args, kwargs, ('asig', 'target_dt', 'even'), _DEF)
                values, dt = asig.values, asig.dt
            else:
                values, dt, target, even = _parse(args, kwargs, ('values', 'dt', 'target_dt', 'even'), _DEF)
            x = np.asarray(values, dtype=float)
        except Exception:
            CTX.observe(prefix + 'out-of-domain call (not judged)')
            return
        if not _domain(CTX, prefix, x, dt, target):
            return
        import traceback
        tb = ''.join(traceback.format_exception(type(exc), exc, exc.__traceback__)[-4:])
        CTX.violation(prefix + 'returns', _wit(fn, values, dt, target, even, exception=repr(exc)),
                      '%s(n=%d, dt=%r, target_dt=%r, even=%r) raised %r on in-domain input\n%s'
                      % (fn, len(x), dt, target, even, exc, tb))
    return hook


def install(ctx):
    global CTX
    CTX = ctx
    import eqsig
    ts = eqsig.fns.time_step
    attach.wrap(ts, 'interp_array_to_approx_dt', _post_interp_array,
                on_exception=_exc_hook('interp.', 'interp_array_to_approx_dt', False))
    attach.wrap(ts, 'interp_to_approx_dt', _post_interp_obj,
                on_exception=_exc_hook('interp_obj.', 'interp_to_approx_dt', True))
    attach.wrap(ts, 'resample_to_approx_dt', _post_resample,
                on_exception=_exc_hook('fourier.', 'resample_to_approx_dt', True))


# ---------------------------------------------------------------------------------------------------- workload
EXPLICIT = [(0.01, t) for t in (0.004999, 0.005, 0.005001, 0.0033334, 0.00333333, 0.0033333333333333335, 0.0025001,
                                0.0024999, 0.01, 0.0100001, 0.0099999, 0.019999, 0.02, 0.020001, 0.0299999, 0.03,
                                0.0300001, 0.07, 0.0700001, 0.0699999)]
FLOAT_TRAPS = [(0.07, 0.01), (0.03, 0.01), (0.06, 0.02), (0.3, 0.1), (0.7, 0.1), (0.35, 0.05), (0.57, 0.01), (0.29, 0.01),
               (0.58, 0.01), (1.1, 0.1), (0.15, 0.05), (0.09, 0.03), (0.006, 0.002), (0.021, 0.007), (0.14, 0.02),
               (0.28, 0.04), (0.056, 0.008), (1.13, 0.01), (0.069, 0.023), (0.0035, 0.0005)]
UNITS = [0.1, 0.01, 0.001, 0.05, 0.02, 0.005, 0.0025]
GRID_DT = [0.001, 0.002, 0.004, 0.005, 0.01, 0.02, 0.025, 0.05, 0.1]
GRID_T = [0.001, 0.002, 0.003, 0.004, 0.005, 0.006, 0.007, 0.01, 0.015, 0.02, 0.03, 0.04, 0.05, 0.07, 0.1, 0.3]


def static_pairs():
    """Deterministic (dt, target, family) list, identical in every shard; shards take a round-robin slice."""
    P = [(a, b, 'explicit-near-integer') for a, b in EXPLICIT]
    for a, b in FLOAT_TRAPS:
        P.append((a, b, 'float-trap'))
        P.append((b, a, 'float-trap'))
    for u in UNITS:
        for k in range(1, 61):
            for big in sorted({k * u, float('%.10g' % (k * u))}):
                P.append((big, u, 'decimal-multiple'))
                P.append((u, big, 'decimal-multiple'))
    for a in GRID_DT:
        for b in GRID_T:
            P.append((a, b, 'decimal-grid'))
    seen = set()
    out = []
    for a, b, f in P:
        if (a, b) not in seen:
            seen.add((a, b))
            out.append((float(a), float(b), f))
    return out


FAMILIES = ['near-int-refine', 'near-int-decimate', 'ulp-refine', 'ulp-decimate', 'int-multiple', 'reciprocal',
            'log-uniform', 'equal']
FAM_P = [0.22, 0.22, 0.05, 0.05, 0.14, 0.14, 0.14, 0.04]


def _step_ulps(v, j):
    for _ in range(abs(j)):
        v = float(np.nextafter(v, np.inf if j > 0 else -np.inf))
    return v


def random_pair(rng, max_ratio=300.0):
    fam = FAMILIES[int(rng.choice(len(FAMILIES), p=FAM_P))]
    dt = gen.dt(rng)
    if fam in ('near-int-refine', 'near-int-decimate'):
        k = int(rng.integers(1, 61))
        delta = float(rng.uniform(1.0, 9.99)) * 10.0 ** (-int(rng.integers(4, 14))) if rng.random() < 0.5 \
            else 10.0 ** (-int(rng.integers(3, 13)))
        s = 1.0 if rng.random() < 0.5 else -1.0
        q = k * (1.0 + s * delta)                       # intended quotient next to the integer k
        target = dt / q if fam == 'near-int-refine' else dt * q
    elif fam in ('ulp-refine', 'ulp-decimate'):
        k = int(rng.integers(1, 61))
        j = int(rng.choice([-3, -2, -1, 1, 2, 3]))
        target = _step_ulps(dt / k if fam == 'ulp-refine' else dt * k, j)
    elif fam == 'int-multiple':
        k = int(rng.integers(1, 61))
        target = dt * k if rng.random() < 0.5 else dt / k
    elif fam == 'reciprocal':
        k = int(gen.RECIP_K[int(rng.integers(len(gen.RECIP_K)))]) if rng.random() < 0.4 else int(rng.integers(2, 200))
        dt = 1.0 / k
        m = int(rng.integers(1, 50))
        target = [m / k, m * dt, dt / m, 1.0 / (k * m)][int(rng.integers(4))]
    elif fam == 'log-uniform':
        while True:
            dt = float(10.0 ** rng.uniform(-3, 0))
            target = float(10.0 ** rng.uniform(-3, 0))
            if 1.0 / max_ratio <= dt / target <= max_ratio:
                break
    else:
        target = dt
    return float(dt), float(target), fam


def lengths(rng, dt, target, count, span=200):
    """Lengths inside the quantifier: from ceil(2*max(dt,target)/dt)+1 upwards; odd and even; for decimations both
    divisible and not divisible by the (anticipated) factor."""
    nmin = int(np.ceil(2.0 * max(dt, target) / dt)) + 1
    if (nmin - 1) * dt < 2.0 * max(dt, target):
        nmin += 1
    m = int(np.floor(target / dt * (1 + 1e-9)))
    out = []
    for c in range(count):
        n = nmin + int(rng.integers(0, span + 1))
        r = rng.random()
        if c == 0 and rng.random() < 0.15:
            n = nmin                                       # shortest record of the quantifier
        elif m >= 2 and r < 0.35:
            n = max(nmin + (-nmin) % m, n - n % m)         # divisible by the factor
        elif m >= 3 and r < 0.5:
            n = max(nmin + (-nmin) % (m - 1), n - n % (m - 1))   # divisible by the next smaller factor (float traps)
        out.append(int(n))
    return out


def make_record(rng, n):
    cls = ['noise', 'walk', 'quake', 'intnoise', 'sine', 'chirp', 'plateau', 'impulse', 'alt', 'zeropad', 'step', 'const',
           'ramp'][int(rng.choice(13, p=[.22, .12, .12, .1, .06, .06, .06, .05, .04, .05, .04, .02, .06]))]
    if cls == 'ramp':       # strictly increasing: every sample distinct, position errors cannot hide
        return np.arange(n, dtype=float) * (1.0 if rng.random() < 0.5 else float(rng.uniform(0.1, 3.0))), cls
    x, cls = gen.record(rng, n, cls=cls)
    return x, cls


def _swallow(f, *a, **k):
    """The monitors' exception hooks record exceptions on in-domain input; the driver only keeps going."""
    try:
        return f(*a, **k)
    except Exception:
        return None


def drive_interp(eqsig, ctx, rng, dt, target, fam, n, even, c):
    x, rcls = make_record(rng, n)
    nontriv = bool(np.ptp(x) > 0)
    mode = 'array'
    if c % 4 == 3:
        mode = 'object'
    elif c % 8 == 1 and target < dt and dt / target <= 12 and n <= 400:
        mode = 'consumer'
    ctx.case(core.digest(x, dt, target, even, mode), nontrivial=nontriv, cls='interp/%s/%s' % (mode, fam),
             sample={'fn': 'interp:' + mode, 'n': n, 'dt': dt, 'target_dt': target, 'even': even, 'record': rcls,
                     'head': x[:6]})
    if mode == 'array':
        vals = x
        if rng.random() < 0.25:
            vals, _ = gen.container(rng, x, kinds=('f32', 'i64', 'list', 'tuple'))
        r = rng.random()
        if r < 0.25:
            _swallow(eqsig.interp_array_to_approx_dt, vals, dt, target, even)           # positional
        elif r < 0.45 and even:
            _swallow(eqsig.interp_array_to_approx_dt, vals, dt, target_dt=target)       # default even=True
        else:
            _swallow(eqsig.interp_array_to_approx_dt, vals, dt, target_dt=target, even=even)
    elif mode == 'object':
        asig = eqsig.AccSignal(x, dt)
        _swallow(eqsig.interp_to_approx_dt, asig, target, even=even)
    else:
        # consumer: gen_response_spectrum refines to max(T_min/20, dt/min_dt_ratio) with even=False
        asig = eqsig.AccSignal(x, dt)
        VIA['consumer'] = True
        try:
            _swallow(asig.gen_response_spectrum, response_times=np.array([20.0 * target, 40.0 * target + 0.1]),
                     min_dt_ratio=1000.0)
        finally:
            VIA['consumer'] = False


def synth_bandlimited(rng, N, Kmax, mode):
    """x(t) = a0 + sum_k a_k cos(2 pi k t/P) + b_k sin(2 pi k t/P), harmonics <= Kmax, at most 10 non-zero ones."""
    a = np.zeros(Kmax + 1)
    b = np.zeros(Kmax + 1)
    a[0] = rng.normal() if rng.random() < 0.7 else 0.0
    if mode == 'const' or Kmax < 1:
        a[0] = float(rng.choice([-2.0, 0.5, 3.0]))
        ks = []
    elif mode == 'top-only':
        ks = [Kmax]
    elif mode == 'top':
        ks = sorted(set([Kmax] + [int(v) for v in rng.integers(1, Kmax + 1, size=int(rng.integers(1, 10)))]))
    else:
        hi = max(1, Kmax // 2)
        ks = sorted(set(int(v) for v in rng.integers(1, hi + 1, size=int(rng.integers(1, 10)))))
    for k in ks:
        a[k], b[k] = rng.normal(size=2)
        if rng.random() < 0.15:
            (a if rng.random() < 0.5 else b)[k] = 0.0
        if a[k] == 0.0 and b[k] == 0.0:
            a[k] = 1.0
    amp = 10.0 ** rng.uniform(-3, 3) if rng.random() < 0.3 else 1.0
    a *= amp
    b *= amp
    K = ks[-1] if ks else 0
    x = O.trig_eval(a, b, K, np.arange(N) / float(N))
    return x, a, b, K


def drive_fourier(eqsig, ctx, rng, dt, target, fam, N, even, kmode=None):
    # pilot call (monitors paused, zeros) only to learn the step the library will return, so that the synthesised
    # signal can reach the highest admissible harmonic; if it raises, fall back to the bound new_dt <= target
    new_dt = None
    try:
        with attach.paused():
            new_dt = float(eqsig.resample_to_approx_dt(eqsig.AccSignal(np.zeros(N), dt), target, even=even).dt)
    except Exception:
        new_dt = None
    if not (new_dt is not None and 0 < new_dt <= target * (1 + 1e-9)):
        new_dt = target
    lim = min(N / 2.0, N * dt / (2.0 * new_dt) * (1 - 1e-9))
    Kmax = int(np.ceil(lim)) - 1
    if kmode is None:
        kmode = ['top', 'low', 'top-only', 'const'][int(rng.choice(4, p=[.5, .3, .17, .03]))]
    x, a, b, K = synth_bandlimited(rng, N, max(Kmax, 0), kmode)
    # oracle self-check (a failure is a harness defect -> shard crash -> INCONCLUSIVE, never a verdict on eqsig)
    A, B, nyq = O.harmonics(x)
    sc = float(np.max(np.abs(x))) or 1.0
    if K >= 1 and not (np.max(np.abs(A[:K + 1] - a[:K + 1])) <= 1e-11 * sc and np.max(np.abs(B[:K + 1] - b[:K + 1])) <= 1e-11 * sc
                       and O.band_index(A, B, nyq, sc) == K):
        raise AssertionError('C14 oracle self-check failed: projection does not recover the synthesised harmonics '
                             '(N=%d K=%d)' % (N, K))
    nontriv = K >= 1
    ctx.case(core.digest(x, dt, target, even, 'fourier'), nontrivial=nontriv, cls='fourier/%s/%s' % (kmode, fam),
             sample={'fn': 'resample_to_approx_dt', 'n': N, 'dt': dt, 'target_dt': target, 'even': even, 'K': K,
                     'Kmax': Kmax, 'head': x[:6]})
    asig = eqsig.AccSignal(x, dt)
    _swallow(eqsig.resample_to_approx_dt, asig, target, even=even)


def fourier_matrix():
    """even x odd/even npts x odd/even refinement factors x stride-divisible (and non-divisible) decimations."""
    M = []
    for dt in (0.01, 0.005, 1.0 / 93, 0.02):
        for k in range(1, 9):                               # refinement by k: exact and non-commensurate target
            for tgt, f in ((dt / k, 'matrix-refine-exact'), (dt / (k - 0.4), 'matrix-refine-between')):
                for N in (9, 10, 24, 25, 63, 64, 100, 101):
                    M.append((dt, tgt, f, N))
        for m in range(2, 8):                               # decimation by m
            for c in (3, 4, 7, 8, 15, 16):                  # N/m odd and even -> N odd and even
                M.append((dt, dt * m, 'matrix-decimate-divisible', m * c))
                M.append((dt, dt * (m + 0.5), 'matrix-decimate-divisible', m * c))
            for N in (2 * m + 1 + (1 if (2 * m + 1) % m == 0 else 0), 5 * m + 1, 8 * m + m - 1, 13 * m + 2):
                if N % m:
                    M.append((dt, dt * m, 'matrix-decimate-nondivisible', N))
    return M


def run_shard(ctx):
    eqsig = core.import_eqsig()
    install(ctx)
    rng = ctx.rng
    quick = ctx.tier == 'quick'
    # ---------------------------------------------------------------- interpolation: static pairs
    pairs = static_pairs()
    reps = 2 if quick else 24
    c = ctx.shard
    for i in core.split_range(len(pairs), ctx.shard, ctx.nshards):
        dt, target, fam = pairs[i]
        for n in lengths(rng, dt, target, reps):
            for even in (True, False):
                c += 1
                drive_interp(eqsig, ctx, rng, dt, target, fam, n, even, c)
    # ---------------------------------------------------------------- interpolation: random families
    n_rand = (13000 if quick else 300000) // ctx.nshards + 1
    for r in range(n_rand):
        dt, target, fam = random_pair(rng)
        n = lengths(rng, dt, target, 1)[0]
        even = bool(rng.random() < 0.5)
        c += 1
        drive_interp(eqsig, ctx, rng, dt, target, fam, n, even, c)
    # long records (realistic lengths), interpolation only
    for r in range(4 if quick else 40):
        dt, target, fam = random_pair(rng, max_ratio=60.0)
        n = lengths(rng, dt, target, 1)[0] + int(rng.integers(2000, 12000))
        c += 4 - c % 4                                       # array mode
        drive_interp(eqsig, ctx, rng, dt, target, fam + '/long', n, bool(rng.random() < 0.5), c)
    # a few calls outside the quantifier (target > duration/2): counted by the monitors, never judged
    for r in range(5):
        dt, target, fam = random_pair(rng)
        nmin = lengths(rng, dt, target, 1, span=0)[0]
        if nmin - 2 >= 2:
            _swallow(eqsig.interp_array_to_approx_dt, rng.normal(size=nmin - 2), dt, target_dt=target, even=False)
    # ---------------------------------------------------------------- Fourier: matrix + random
    mat = fourier_matrix()
    for i in core.split_range(len(mat), ctx.shard, ctx.nshards):
        dt, target, fam, N = mat[i]
        if not O.in_domain(N, dt, target):
            continue
        for even in (True, False):
            for kmode in (('top', 'low') if quick else ('top', 'low', 'top-only', 'top')):
                drive_fourier(eqsig, ctx, rng, dt, target, fam, N, even, kmode)
    n_four = (1400 if quick else 50000) // ctx.nshards + 1
    done = 0
    tries = 0
    while done < n_four and tries < 20 * n_four:
        tries += 1
        if rng.random() < 0.3:
            dt, target, fam = pairs[int(rng.integers(len(pairs)))]
        else:
            dt, target, fam = random_pair(rng, max_ratio=150.0)
        if dt / target > 40:                                 # keep the output length (and the oracle cost) bounded
            continue
        N = lengths(rng, dt, target, 1, span=120)[0]
        if N > 900 or N * max(1.0, dt / target) > 40000:
            continue
        done += 1
        drive_fourier(eqsig, ctx, rng, dt, target, fam, N, bool(rng.random() < 0.5))
    ctx.note('monitored_calls', dict(attach.CALLS))


# ---------------------------------------------------------------------------------------------------- replay
def _rebuild(w):
    v = np.asarray(w['values'])
    cont = w.get('container', 'ndarray')
    if cont == 'list':
        return [float(t) for t in v.tolist()]
    if cont == 'tuple':
        return tuple(float(t) for t in v.tolist())
    return v


def replay(w):
    eqsig = core.import_eqsig()
    ctx = core.Ctx(PROP_ID, 'quick', 0, 0, 1)
    install(ctx)
    values = _rebuild(w)
    dt, target, even = w['dt'], w['target_dt'], w['even']
    fn = w.get('fn')
    if fn == 'interp_to_approx_dt':
        _swallow(eqsig.interp_to_approx_dt, eqsig.AccSignal(values, dt), target, even=even)
    elif fn == 'resample_to_approx_dt':
        _swallow(eqsig.resample_to_approx_dt, eqsig.AccSignal(values, dt), target, even=even)
    else:
        _swallow(eqsig.interp_array_to_approx_dt, values, dt, target_dt=target, even=even)
    return ['%s: %s' % (v['clause'], v['msg']) for v in ctx.violations if not v.get('finding')]
