"""C14 - resampling keeps the record.

Monitors: post-conditions on every execution of eqsig.fns.time_step.interp_array_to_approx_dt / interp_to_approx_dt /
resample_to_approx_dt (wherever the call comes from, e.g. AccSignal.gen_response_spectrum). The oracle is the list of
assertions of the statement (vf/oracles/resample.py), each evaluated on the returned (values, step); for the Fourier
variant the unique periodic band-limited signal through the samples is evaluated at the returned instants.
Workload: (dt, target) pairs whose floating quotient lands next to an integer on either side, decimal grids, float-trap
pairs, exact multiples, reciprocal steps, dt == target; lengths odd/even, divisible or not by the decimation factor;
even in {True, False}; array-, object- and consumer-level calls; Fourier matrix even x parity(npts) x parity(factor) x
divisible decimation.
Round 3 (audit checklist 22-27): scripted scenarios (plain data, replayable) on AccSignal objects copied by copy.copy /
copy.deepcopy / pickle in every cache state, with assignments through the public attribute names and operations that raise in
between - every monitored call there is also compared with the same call on a fresh object built from the object's own
values; f(A); f(B); f(A) with B of another shape, another factor but the same output length, or the same record with other
options; targets at the end of the admissible range (half the duration), 3..6-sample records, factors up to 2000; silent
(all-zero) and strictly one-signed records in every container; rejected / out-of-domain calls judged for purity only.
Round 5 (audit checklist 28-33): the two steps and the flag in every scalar form (NumPy scalars, mutable 0-d arrays, Python /
NumPy integers; the monitors snapshot them at call entry and judge against the snapshot), bool-dtype records, one-entry arrays
as unusable steps, user settings outside the band of the data on the object that is resampled, every array of an earlier result
overwritten before the call is repeated; the classifier of the known finding K6 accepts ONE grid length (nearest to npts/m).
"""
import copy

import numpy as np

from vf import attach, core, gen
from vf.oracles import resample as O

PROP_ID = 'C14'
TECHNIQUE = ('runtime post-condition monitors evaluating the assertion list of the statement on every returned '
             '(values, step); analytic periodic band-limited reference for the Fourier variant; directed + random '
             '(dt, target) workload around integer quotients')
RULE = ('cases = (values, dt, target_dt, even, entry point) calls of the real functions through the public names. '
        '(dt, target) from: a fixed list (dt=0.01 with targets 0.004999/0.005/0.005001/0.0033334/0.00333333..., float-trap '
        'pairs such as 0.07/0.01, decimal multiples k*u : u for k<=60 and for units 1e-9..1e3, the decimal grid 0.001..0.1 x '
        '0.001..0.3) and random families (quotient = integer*(1 +- 10^-2..10^-13) on the refinement and on the decimation '
        'side, +-1..3 ulp neighbours of exact quotients, exact multiples k<=60, reciprocal steps 1/k with targets m/k, '
        'log-uniform, dt == target, awkward quotients from gen.awkward_dt: d/(d/k) != k, (d/k)*k != d, in both roles), '
        '30% of them rescaled by 2^j (exact) or 10^u so that dt spans 1e-9..1e3; awkward counts npts = c*m with '
        'fl(1/m)*npts not an integer (the decimation grid then runs past the last sample). Lengths from '
        'the shortest record of the quantifier ceil(2*max(dt,target)/dt)+1 (driven on purpose) to +200, odd and even, '
        'around powers of two, divisible and not divisible by the decimation factor, a few past 2**16. Records from the '
        'shared classes (9% at extreme but valid scales: uniformly 1e+-165..1e+-300, 1e-150 next to 1e150 in one record, '
        'ripple on a baseline closer than float32 resolution, counts above 2**24; Fourier signals at 1e+-165..1e+-295 and as '
        'ripple on a baseline) plus ramps, plateau ends, extreme at the first/last sample, sign change at the end, one sample '
        '1e3..1e12 larger than the rest, one-sided, tail-heavy, single changed sample, alternating; amplitudes '
        '1e-12..1e12, large offsets on small signals. Array arguments as float64/float32/int64/int32/int16/int8/uint8/'
        'uint16 (using the whole dtype range), lists/tuples of floats, of ints, mixed, strided and reversed views, '
        'read-only arrays; even as bool, numpy bool and 0/1; positional, keyword and defaulted arguments. The same array '
        'object reused in consecutive calls; histories of calls on one AccSignal (and twins built from the same caller '
        'array) interleaved with cache reads, mutators and regenerations; two same-shape inputs back to back with the first '
        'result re-read afterwards; objects derived by the library (results of the resampling calls, deep copies, complex '
        'records from fas2signal) analysed in turn; consumer gen_response_spectrum with the step taken from T_min/20 and '
        'from dt/min_dt_ratio, period lists of 1..65 entries with and without a leading 0. Fourier cases: random '
        'harmonics up to (and including) the highest index below both Nyquist frequencies, and, when refining an '
        'even-length record, energy exactly at the old Nyquist frequency. Round 3: targets at, a few ulps below and within 1e-3 of '
        'half the duration (the end of the admissible range), records of 3..6 samples with targets at / just below dt and '
        'refined by 1..60, decimation factors 100..1500 and refinement factors 300..2000; silent (all-zero, also -0.0) and '
        'strictly one-signed records (interpolation: as arrays of every dtype, lists, tuples, integer lists; Fourier: silent and '
        'mean-dominated band-limited signals as arrays, lists and tuples); f(A); f(B); f(A) with B of the same shape, another '
        'shape, another factor with the same output length (n*k == n2*k2), or the same record with another target / even; '
        'scripted scenarios: one AccSignal in cache state {cold, Fourier spectrum, smoothed spectrum, velocity/displacement, '
        'peaks, response spectrum, Stockwell memo, already resampled, all} copied by {copy.copy, copy.deepcopy, pickle round '
        'trip (protocol 2 and highest)} and then, on the copy and on the original in both orders: reads, reset_values to a '
        'record of the same / another length, add_constant, assignment to .values (list / tuple / ndarray of the same or '
        'another length, 1, 2, 3 entries), to .dt and .npts, add_series of a wrong length, add_signal of another step / length / '
        'type, a non-finite record in between, calls with unusable targets (0, negative, None, text, nan, inf, list), a '
        'response-spectrum call that raises - each followed by interp_to_approx_dt and resample_to_approx_dt in three '
        'argument styles; after copy.copy one side is rebound first and calls are made only once the buffers are separate; '
        'array- and object-level calls outside the quantifier (non-finite samples, 0..2 samples, unusable target or step). '
        'Round 5: dt and target_dt as np.float64 / np.float32 / 0-d float64 / 0-d float32 arrays (float32 forms hold the '
        'float32-rounded step, which is then the step of the case), whole-second steps as Python int / np.int64 / np.int32 / 0-d '
        'integer arrays, mixed freely with each other and with Python floats (static and random pairs, 18 integer pairs), '
        'array-, object- (AccSignal(values, dt as given)), consumer-level (float32 period lists, min_dt_ratio as int / NumPy '
        'scalar / 0-d array) and Fourier; even as bool / np.bool_ / int / np.int64 / 0-d bool array in every driver; records '
        'of dtype bool and lists of Python bools (samples above the median, rectangular pulses, all on / all off); one-entry '
        'and two-entry arrays as target or step (rejected: purity only); AccSignal objects built with smoothing frequencies '
        'above the Nyquist frequency and response periods below two steps and then resampled by both variants; f(A); f(B); '
        'overwrite every array of both results (values, step, every array attribute of the returned object); f(A). '
        'distinct = digest(values, dt, target, even, entry point, scalar forms); non-trivial = non-constant record.')
ASSUMPTIONS = ['finite real input, dt > 0, target_dt > 0, duration (n-1)*dt >= 2*max(dt, target_dt); other calls are '
               'counted, not judged',
               'every call is judged against a copy of its array argument (the signal object\'s values and dt) taken at '
               'call entry; the oracle reads no derived cache of the object (npts, time, spectra)',
               '"subsequence when decimating" = the stride-m samples x[0], x[m], ... optionally followed by the final '
               'sample x[n-1] (what clamping at the record end produces); tolerance local to each sample: 16 eps * '
               '((index+1) * adjacent differences + adjacent magnitudes), valid for any amplitude and dynamic range',
               '"original samples reappear when refining": all of them for factors >= 2 (factor 1 with even=True may drop '
               'the last one)',
               '"band-limited below the new Nyquist frequency": content above the OLD Nyquist frequency is not determined '
               'by the samples and is out of domain; content exactly AT the old Nyquist frequency of an even-length record '
               '(alternating component) is read as a cosine and judged whenever the step is refined; inputs with content '
               'at or above the new Nyquist frequency are counted, not judged',
               'complex records (fas2signal) are in domain; their range is judged on the real and imaginary parts',
               'validity of the tolerances: all are relative (step 1e-12, ratio 1e-9, range 1e-12*max|x|, band-limited '
               '1e-10*max|x| with harmonic index <= 450, or <= 300 for records past 2**16), so they hold for dt 1e-10..1e3 '
               'and amplitudes 1e-300..1e300 (no absolute floors; no squares or products of samples are formed by the '
               'oracle); records at extreme scales are kept in float64 / Python containers',
               'step rule evaluated with 1e-12 relative slack because the quotient dt/target is itself rounded',
               'even length is asserted for the interpolation variants only (the statement does not claim it for the '
               'Fourier variant; odd Fourier results with even=True are counted as an observation)',
               'known finding K6 also absorbs the even=True case in which the FFT grid had len(y)+1 points before the '
               'parity trim (same mechanism: only the claimed step is wrong)',
               'band-limited reproduction: <= 1e-10*max|x| for float64 and integer samples; for float32 samples <= '
               '64*eps32*max|x| with harmonics below 2*eps32*max|x| counted as absent ("exactly" = to rounding of the '
               'arithmetic the samples are given in; the reference is built from the float32-rounded samples in float64)',
               '"keeps the record" includes: the array argument / the signal object is bit-for-bit unchanged by the call, '
               'a returned result is not altered by a later call, and a repeated call returns the identical result',
               'calls outside the quantifier (non-finite samples, records shorter than two target steps, unusable target or '
               'step) and calls that raise are judged for ONE thing only: the argument equals its entry snapshot afterwards '
               '(audit checklist 19 / 24); no returned value is judged there',
               '"for every record ... object-level variants": the record of an object-level call is the object\'s current '
               '(values, dt), however the object came about (constructor, copy, deepcopy, pickle, after assignments that the '
               'class ignores or refuses, after operations that raised); the result is a function of that record and the '
               'options only, so it equals (values ==, NaN == NaN, same step, same type) the result of the same call on a '
               'fresh AccSignal built from a copy of those values - judged also outside the quantifier, where both may raise',
               'the all-zero record is a record: its range is {0}, every clause applies (band-limited tolerance 1e-10*max|x| = 0: '
               'the output must be exactly zero)',
               'scalar forms: the steps of a call are float(dt), float(target_dt) of the arguments AS GIVEN (entry snapshot for '
               '0-d arrays). When NumPy forms dt/target_dt or dt/factor in float32 (a float32 record step, or np.float32 with a '
               'Python number / another float32) the quotient and the returned step are rounded to eps32: step rule and integer '
               'ratio are then judged with 4*eps32 instead of 1e-12 / 1e-9, the decimation subsequence with eps32 in the local '
               'tolerance, and the Fourier instants are taken from the certified integer ratio instead of the rounded returned '
               'step; all other forms keep the double-precision tolerances. float16 / bool steps are not driven',
               'bool-dtype records are records (0.0 / 1.0); one- and two-sample records and one-entry arrays as steps lie '
               'outside the quantifier (duration >= 2*max(dt, target) needs three samples) and are judged for purity only; a '
               'period list that is only [0] makes gen_response_spectrum raise before the resampler is reached (not driven)',
               'K6 classifier: the FFT grid length L must be the integer nearest to npts/m (|L - npts/m| <= 1/2); with that one '
               'convention per case a grid of any other length is a violation, not the known finding']
OOD_PURITY = 'purity.rejected-or-out-of-domain-call-args-unchanged'
P_SCALAR = 'purity.scalar-arguments-unchanged'
P_SETTINGS = 'settings.unchanged-by-resampling-call'
P_OWNED = 'state.repeat-call-identical-after-overwriting-earlier-results'
MIN_EVALS = {
    'quick': {'interp.step<=target': 12000, 'interp.ratio-integer': 12000, 'interp.retained-samples': 7000,
              'interp.subsequence': 5500, 'interp.range': 12000, 'interp.duration<2steps': 12000,
              'interp.even-length': 6000, 'interp.args-unchanged': 12000,
              'interp_obj.step<=target': 2500, 'interp_obj.duration<2steps': 2500, 'interp_obj.args-unchanged': 2500,
              'interp_obj.retained-samples': 1300, 'interp_obj.subsequence': 1100,
              'fourier.step<=target': 2500, 'fourier.ratio-integer': 2500, 'fourier.bandlimited-exact': 2000,
              'fourier.args-unchanged': 2500, 'interp.via-gen_response_spectrum': 200,
              'purity.reused-array-unchanged': 800, 'purity.caller-array-unchanged': 200, 'history.monitored-call': 800,
              'state.first-result-intact-after-second-call': 300, 'state.repeat-call-identical': 300,
              'interp.result-owns-data': 12000, 'interp_obj.result-owns-data': 5000, 'fourier.result-owns-data': 5000,
              'interp_obj.agrees-with-array-level': 2500, 'purity.correcting-the-result-leaves-the-argument': 100,
              # round 3 (audit checklist 22-27)
              'protocol.monitored-call': 800, 'protocol.copied-object-result==fresh-twin': 800,
              'protocol.after-assignment-result==fresh-twin': 300, 'protocol.after-raise-result==fresh-twin': 450,
              OOD_PURITY: 600, 'state.first-result-intact-after-second-call/varied-second-call': 500,
              'state.repeat-call-identical/varied-second-call': 500, 'edge.monitored-call': 1000,
              'silent-or-one-signed.monitored-call': 250,
              # round 5 (audit checklist 28-33)
              'scalar-forms.monitored-call': 1100, P_SCALAR: 2000, 'bool-record.monitored-call': 600, P_SETTINGS: 1500,
              P_OWNED: 800},
    'thorough': {'interp.step<=target': 250000, 'interp.ratio-integer': 250000, 'interp.retained-samples': 130000,
                 'interp.subsequence': 110000, 'interp.range': 250000, 'interp.duration<2steps': 250000,
                 'interp.even-length': 120000, 'interp.args-unchanged': 250000,
                 'interp_obj.step<=target': 50000, 'interp_obj.duration<2steps': 50000, 'interp_obj.args-unchanged': 50000,
                 'interp_obj.retained-samples': 25000, 'interp_obj.subsequence': 20000,
                 'fourier.step<=target': 30000, 'fourier.ratio-integer': 30000, 'fourier.bandlimited-exact': 22000,
                 'fourier.args-unchanged': 30000, 'interp.via-gen_response_spectrum': 4000,
                 'purity.reused-array-unchanged': 15000, 'purity.caller-array-unchanged': 4000,
                 'history.monitored-call': 16000, 'state.first-result-intact-after-second-call': 10000,
                 'state.repeat-call-identical': 10000,
                 'interp.result-owns-data': 250000, 'interp_obj.result-owns-data': 100000,
                 'fourier.result-owns-data': 60000, 'interp_obj.agrees-with-array-level': 50000,
                 'purity.correcting-the-result-leaves-the-argument': 2000,
                 'protocol.monitored-call': 16000, 'protocol.copied-object-result==fresh-twin': 16000,
                 'protocol.after-assignment-result==fresh-twin': 7000, 'protocol.after-raise-result==fresh-twin': 9000,
                 OOD_PURITY: 12000, 'state.first-result-intact-after-second-call/varied-second-call': 14000,
                 'state.repeat-call-identical/varied-second-call': 14000, 'edge.monitored-call': 20000,
                 'silent-or-one-signed.monitored-call': 2500,
                 'scalar-forms.monitored-call': 20000, P_SCALAR: 25000, 'bool-record.monitored-call': 12000,
                 P_SETTINGS: 30000, P_OWNED: 20000}}
CTX = None
EPS64 = float(np.finfo(float).eps)
K6 = 'C14/fourier-decimation-nondivisible'
K6_ACCEPT_PARITY_TRIM = True   # also accept the FFT grid of len(y)+1 points when even=True (see ASSUMPTIONS / k6_explains)
VIA = {'consumer': False}
SCEN = {'spec': None}
MAX_ORACLE_N = 300000        # longer Fourier inputs are counted, not judged
ORACLE_BUDGET = 4e7          # harmonics x output samples the analytic reference may cost per call


def n_shards(tier):
    return 16


# ---------------------------------------------------------------------------------------------------- monitors
def _form(v):
    f = []
    if v.ndim == 1 and v.size > 1 and v.strides[0] != v.itemsize:
        f.append('stride %d' % (v.strides[0] // v.itemsize))
    if not v.flags.writeable:
        f.append('readonly')
    return ' '.join(f)


def _snapshot(values):
    """Copy of an array argument taken at call entry: what the call is judged against, and the purity reference."""
    if isinstance(values, np.ndarray):
        return {'kind': 'ndarray', 'copy': values.copy(), 'form': _form(values)}
    if isinstance(values, (list, tuple)):
        return {'kind': type(values).__name__, 'copy': list(values), 'form': ''}     # elements are immutable numbers
    return {'kind': type(values).__name__, 'copy': values, 'form': ''}


def _unchanged(values, snap):
    """Bit-for-bit comparison of an argument with its entry snapshot."""
    c = snap['copy']
    if snap['kind'] == 'ndarray':
        return (isinstance(values, np.ndarray) and values.dtype == c.dtype and values.shape == c.shape
                and values.tobytes() == c.tobytes() and _form(values) == snap['form'])
    if snap['kind'] in ('list', 'tuple'):
        return (type(values).__name__ == snap['kind'] and len(values) == len(c)
                and all(type(a) is type(b) and (a == b or (a != a and b != b)) for a, b in zip(values, c)))
    return True


def _sform(v):
    """Name of the scalar form of a numeric / flag argument (replay rebuilds the argument from it)."""
    if isinstance(v, np.ndarray):
        return ('0d-%s' % v.dtype) if v.ndim == 0 else ('array%d-%s' % (v.size, v.dtype))
    if isinstance(v, np.generic):
        return 'np.' + str(np.dtype(type(v)))
    return type(v).__name__


def _smake(form, v):
    """The value v in the named scalar form (inverse of _sform for the forms the workload drives)."""
    if form is None or v is None or isinstance(v, (str, list)):
        return v
    try:
        if form.startswith('0d-'):
            return np.array(v, dtype=np.dtype(form[3:]))
        if form.startswith('array'):
            return np.atleast_1d(np.array(v, dtype=np.dtype(form.split('-', 1)[1])))
        if form.startswith('np.'):
            return np.dtype(form[3:]).type(v)
        return {'float': float, 'int': int, 'bool': bool}.get(form, lambda u: u)(v)
    except Exception:
        return v


def _freeze(v):
    """Entry value of a scalar argument: 0-d (and one-entry) arrays are MUTABLE - copied like any other array."""
    return v.copy() if isinstance(v, np.ndarray) else v


def _scalar_same(v, frozen):
    if isinstance(frozen, np.ndarray):
        return (isinstance(v, np.ndarray) and v.dtype == frozen.dtype and v.shape == frozen.shape
                and v.tobytes() == frozen.tobytes())
    return True        # immutable Python / NumPy scalars


def _purity_scalars(ctx, fn, pre, cur):
    """0-d arrays given as dt / target_dt / even (or held by the signal object as its dt) hold the same bits after the call
    (`dt /= factor` inside a function changes the caller's step). Evaluated only when at least one of them is an array."""
    if not pre.get('mutable'):
        return
    bad = [k for k in ('dt', 'target', 'even') if not _scalar_same(cur.get(k), pre[k])]
    ctx.check(not bad, P_SCALAR,
              lambda: _wit(fn, pre['snap'], pre['dt'], pre['target'], pre['even'], changed=bad,
                           after={k: cur.get(k) for k in bad}),
              '%s(dt=%r, target_dt=%r, even=%r) changed the caller\'s %s in place (now %r)'
              % (fn, pre['dt'], pre['target'], pre['even'], '/'.join(bad), [cur.get(k) for k in bad]))


def _wit(fn, snap, dt, target, even, **kw):
    c = snap['copy']
    d = {'fn': fn, 'values': np.asarray(c), 'container': snap['kind'], 'form': snap['form'], 'dt': dt,
         'target_dt': target, 'even': even,
         'scalar_forms': {'dt': _sform(dt), 'target_dt': _sform(target), 'even': _sform(even)}}
    if snap['kind'] == 'ndarray' and c.dtype.kind == 'b':
        d['values_dtype'] = 'bool'
    if snap['kind'] in ('list', 'tuple'):
        d['py_values'] = list(c)
    if SCEN['spec'] is not None:      # a call made inside a scripted scenario: replay re-runs the whole script
        d['scenario'] = 'protocol'
        d['spec'] = SCEN['spec']
    d.update(kw)
    return d


def _finite_real(x):
    """finite 1-d numeric record (complex records - what fas2signal produces - included)"""
    return x.ndim == 1 and x.dtype.kind in 'fiucb' and bool(np.all(np.isfinite(x)))


def _domain(ctx, prefix, x, dt, target):
    try:
        ok = _finite_real(x) and O.in_domain(len(x), float(dt), float(target))
    except Exception:
        ok = False
    if not ok:
        ctx.observe(prefix + 'out-of-domain call (not judged)')
    return ok


def _float_copy(snap):
    try:
        x = np.asarray(snap['copy'])
        if x.dtype.kind not in 'fiucb':    # e.g. object arrays from lists holding Python ints beyond int64: rejected by
            return None                    # numpy's interp itself, counted as out-of-domain
        x = np.asarray(x, dtype=complex if x.dtype.kind == 'c' else float)
    except Exception:
        return None
    return x if x.ndim == 1 else None


def _obj_state(asig):
    """Every attribute of a signal object as a comparable value (arrays by dtype/shape/bytes) - read from vars(), so
    that no property is evaluated and no cache is filled by looking."""
    st = {}
    for k, v in vars(asig).items():
        if isinstance(v, np.ndarray):
            st[k] = ('nd', str(v.dtype), v.shape, v.tobytes())
        elif isinstance(v, (int, float, complex, str, bool, type(None), np.generic)):
            st[k] = ('s', type(v).__name__, repr(v))
        else:
            try:
                st[k] = ('o', type(v).__name__, repr(copy.deepcopy(v)))
            except Exception:
                st[k] = ('o', type(v).__name__, None)
    return st


def _state_diff(s0, s1):
    return sorted(k for k in set(s0) | set(s1) if s0.get(k) != s1.get(k))


def check_interp(ctx, prefix, fn, snap, dt, target, even, y, new_dt):
    """The assertion list of the statement for the interpolation variants, judged against the entry snapshot.
    Returns True when the call was inside the quantifier."""
    x = _float_copy(snap)
    if x is None:
        ctx.observe(prefix + 'out-of-domain call (not judged)')
        return False
    if not _domain(ctx, prefix, x, dt, target):
        return False
    seps = O.step_arithmetic_eps(dt, target)      # from the two steps in the form the caller gave them
    reduced = seps > EPS64
    if reduced:
        ctx.observe(prefix + 'steps given in float32: step rule / ratio / subsequence judged with the float32 rounding unit')
    if _sform(dt) != 'float' or _sform(target) != 'float':
        ctx.observe('scalar form dt=%s target_dt=%s' % (_sform(dt), _sform(target)))
    if _sform(even) != 'bool':
        ctx.observe('scalar form even=%s' % _sform(even))
    dt = float(dt)
    target = float(target)
    even = bool(even)
    n = len(x)
    ctx.ok(prefix + 'returns')
    try:
        y = np.asarray(y)
        y = np.asarray(y, dtype=complex if (y.dtype.kind == 'c' or x.dtype.kind == 'c') else float)
        new_dt = float(new_dt)
        shape_ok = y.ndim == 1
    except Exception:
        shape_ok = False
    w = lambda **kw: _wit(fn, snap, dt, target, even, got_len=(len(y) if shape_ok else None),
                          got_dt=(new_dt if shape_ok else repr(new_dt)), **kw)
    if not shape_ok:
        ctx.violation(prefix + 'returns', w(), 'result is not (1-d values, step): %r' % (type(y),))
        return True
    head = '%s(n=%d %s%s, dt=%r, target_dt=%r, even=%r) -> (len %d, dt %r)' % (
        fn, n, snap['kind'], (' ' + snap['form']) if snap['form'] else '', dt, target, even, len(y), new_dt)
    ctx.check(O.step_rule(new_dt, target, 4 * seps if reduced else O.STEP_SLACK), prefix + 'step<=target', w,
              head + ': returned step exceeds the target')
    kind, k = O.ratio_kind(dt, new_dt, 4 * seps if reduced else O.RATIO_TOL)
    ctx.check(kind is not None, prefix + 'ratio-integer', w,
              head + ': dt/new_dt = %r is neither an integer nor the reciprocal of one' % (k,))
    if even:
        ctx.check(len(y) % 2 == 0, prefix + 'even-length', w, head + ': odd length although even was requested')
    okr, exc = O.in_range(x, y)
    ctx.check(okr, prefix + 'range', w, head + ': values leave the input range by %.3g' % exc)
    dc = O.duration_change(n, dt, len(y), new_dt)
    ctx.check(dc < 2.0 * (1 - 1e-9), prefix + 'duration<2steps', lambda: w(duration_change_in_steps=dc),
              head + ': covered duration changes by %.4g (coarser) steps' % dc)
    if kind == 'refine':
        okk, j, cnt = O.retained_refining(x, y, k)
        if okk and k >= 2 and cnt < n:
            okk, j = False, cnt          # refining: EVERY original sample reappears (only factor 1 + even may drop the last)
        ctx.check(okk, prefix + 'retained-samples', lambda: w(factor=k, first_bad_sample=j),
                  head + ': original sample %s does not reappear at index %s (factor %d)' % (j, None if j is None else j * k, k))
        if (dt / (k - 1) if k > 1 else 2.0 * dt) <= target:
            ctx.observe(prefix + 'refine: a coarser admissible step exists (float quotient; allowed by the statement)')
    elif kind == 'decimate':
        if len(y) > (n - 1) // k + 1:
            ctx.observe(prefix + 'decimation grid ran past the last sample (awkward count factor*npts)')
        okk, i, allowed = O.subsequence_decimating(x, y, k, eps=seps if reduced else None)
        ctx.check(okk, prefix + 'subsequence', lambda: w(factor=k, first_bad_output_index=i, allowed=allowed),
                  head + ': output index %s is not input sample %s (stride %d)' % (i, None if i is None else i * k, k))
        if dt * (k + 1) <= target:
            ctx.observe(prefix + 'decimate: a coarser admissible step exists (float quotient; allowed by the statement)')
    if VIA['consumer'] and prefix == 'interp.':
        ctx.ok('interp.via-gen_response_spectrum')
    return True


def k6_explains(N, dt, new_dt, even, y, a, b, Ks, scale, skip, tol=None, ratio_tol=None):
    """Mechanism classifier of the open finding C14/fourier-decimation-nondivisible (DESIGN.md C14 (g)): Fourier
    variant, decimating by m, npts % m != 0, and the output equals the analytic band-limited signal sampled at spacing
    npts*dt/L, L = len(y) (or len(y)+1 when an even length was requested, the FFT grid before the parity trim) - i.e.
    the only thing wrong is the claimed step."""
    kind, m = O.ratio_kind(dt, new_dt, O.RATIO_TOL if ratio_tol is None else ratio_tol)
    if kind != 'decimate' or N % m == 0 or len(y) == 0:
        return False
    for L in ((len(y), len(y) + 1) if (even and K6_ACCEPT_PARITY_TRIM) else (len(y),)):
        if abs(L - N / float(m)) > 0.5 * (1 + 1e-9):
            continue        # ONE convention: the FFT grid has the integer number of points nearest to npts/m, nothing else
        exp = O.trig_eval(a, b, Ks, np.arange(len(y)) / float(L), skip)
        if bool(np.all(np.abs(y - exp) <= (O.BAND_RTOL * scale if tol is None else tol))):
            return L
    return False


def check_fourier(ctx, snap, dt, target, even, result):
    """Returns True when the call was inside the quantifier."""
    prefix = 'fourier.'
    fn = 'resample_to_approx_dt'
    x = _float_copy(snap)
    if x is None:
        ctx.observe(prefix + 'out-of-domain call (not judged)')
        return False
    if not _domain(ctx, prefix, x, dt, target):
        return False
    seps = O.step_arithmetic_eps(dt, target)
    reduced = seps > EPS64
    if reduced:
        ctx.observe(prefix + 'steps given in float32: step rule / ratio judged with the float32 rounding unit, instants from the integer ratio')
    if _sform(dt) != 'float' or _sform(target) != 'float':
        ctx.observe('scalar form dt=%s target_dt=%s' % (_sform(dt), _sform(target)))
    if _sform(even) != 'bool':
        ctx.observe('scalar form even=%s' % _sform(even))
    dt = float(dt)
    target = float(target)
    even = bool(even)
    N = len(x)
    ctx.ok(prefix + 'returns')
    try:
        y = np.asarray(result.values)
        y = np.asarray(y, dtype=complex if (y.dtype.kind == 'c' or x.dtype.kind == 'c') else float)
        new_dt = float(result.dt)
        shape_ok = y.ndim == 1
    except Exception:
        shape_ok = False
    if not shape_ok:
        ctx.violation(prefix + 'returns', _wit(fn, snap, dt, target, even), 'result has no 1-d values / step')
        return True
    w = lambda **kw: _wit(fn, snap, dt, target, even, got_len=len(y), got_dt=new_dt, **kw)
    head = '%s(n=%d, dt=%r, target_dt=%r, even=%r) -> (len %d, dt %r)' % (fn, N, dt, target, even, len(y), new_dt)
    ctx.check(O.step_rule(new_dt, target, 4 * seps if reduced else O.STEP_SLACK), prefix + 'step<=target', w,
              head + ': returned step exceeds the target')
    kind, k = O.ratio_kind(dt, new_dt, 4 * seps if reduced else O.RATIO_TOL)
    ctx.check(kind is not None, prefix + 'ratio-integer', w,
              head + ': dt/new_dt = %r is neither an integer nor the reciprocal of one' % (k,))
    if even and len(y) % 2:
        ctx.observe(prefix + 'odd length with even=True (not part of the Fourier statement)')
    if kind is None:
        return True
    ctx.observe('fourier.cover even=%s npts-%s %s-by-%s%s' % (
        bool(even), 'odd' if N % 2 else 'even', kind, 'odd' if k % 2 else 'even',
        '' if kind == 'refine' else (' divisible' if N % k == 0 else ' non-divisible')))
    # -- periodic band-limited reproduction
    if N > MAX_ORACLE_N:
        ctx.observe(prefix + 'input too long for the projection oracle (not judged)')
        return True
    scale = float(np.max(np.abs(x)))
    # float32 samples are judged to the rounding of float32 arithmetic (64*eps32), float64 / integer samples to 1e-10
    f32 = snap['kind'] == 'ndarray' and snap['copy'].dtype == np.float32
    rtol = O.BAND_RTOL32 if f32 else O.BAND_RTOL
    a, b, nyq = O.harmonics(x)
    Ks = O.band_index(a, b, nyq, scale, O.BAND_ZERO32 if f32 else O.BAND_ZERO)
    # content exactly at the OLD Nyquist frequency (alternating component of an even-length record) is the sampling of a
    # cosine at that frequency; it is below the NEW Nyquist frequency whenever the step is refined, and is then judged
    at_old_nyquist = (2 * Ks == N)
    if at_old_nyquist:
        a, b = O.with_nyquist(a, b, nyq)
    below_old = 2 * Ks <= N
    below_new = 2.0 * Ks * new_dt < N * dt * (1 - 1e-9)
    if not (below_old and below_new):
        ctx.observe(prefix + 'input not band-limited below the new Nyquist frequency (not judged)')
        return True
    if at_old_nyquist:
        ctx.observe(prefix + 'judged with energy exactly at the old Nyquist frequency (cosine reading)')
    skip = 1e-15 * scale
    n_harm = int(np.count_nonzero(np.hypot(np.abs(a[:Ks + 1]), np.abs(b[:Ks + 1])) > skip))
    if n_harm * len(y) > ORACLE_BUDGET:
        ctx.observe(prefix + 'reference too expensive: harmonics x output samples > %g (not judged)' % ORACLE_BUDGET)
        return True
    if reduced:     # the claimed step carries float32 rounding (6e-8): the instants are those of the certified integer ratio
        tau = np.arange(len(y)) * ((1.0 / k) if kind == 'refine' else float(k)) / N
    else:
        tau = np.arange(len(y)) * new_dt / (N * dt)
    exp = O.trig_eval(a, b, Ks, tau, skip)
    err = np.abs(y - exp)
    allowed = rtol * scale
    okk = bool(np.all(err <= allowed))
    fin = None
    if not okk:
        L = k6_explains(N, dt, new_dt, even, y, a, b, Ks, scale, skip, tol=allowed,
                        ratio_tol=4 * seps if reduced else None)
        if L:
            fin = K6
            ctx.observe('fourier.K6 matched with FFT grid of %s points' % ('len(y)' if L == len(y) else 'len(y)+1 (parity trim)'))
    if okk:
        ctx.ok(prefix + 'bandlimited-exact')
        if Ks >= 1 and (scale < 1e-150 or scale > 1e150):
            ctx.observe(prefix + 'judged at an extreme scale (max|x| %s)' % ('< 1e-150' if scale < 1 else '> 1e150'))
        if f32:
            ctx.observe(prefix + 'float32 samples judged with 64*eps32')
    else:
        i = int(np.argmax(np.where(np.isnan(err), np.inf, err)))
        ctx.violation(prefix + 'bandlimited-exact',
                      w(band_index=Ks, worst_index=i, got=float(y[i]), expected=float(exp[i]), allowed=allowed),
                      head + ': band-limited (K=%d) periodic signal not reproduced at instant %d*new_dt: got %r expected %r '
                      '(|diff| %.3g > %.3g)' % (Ks, i, float(y[i]), float(exp[i]), float(err[i]), allowed), finding=fin)
    return True


def _parse(args, kwargs, names, defaults):
    out = []
    for i, nme in enumerate(names):
        if i < len(args):
            out.append(args[i])
        elif nme in kwargs:
            out.append(kwargs[nme])
        else:
            out.append(defaults[nme])
    return out


_DEF = {'target_dt': 0.01, 'even': True}
_ARR = ('values', 'dt', 'target_dt', 'even')
_OBJ = ('asig', 'target_dt', 'even')


def _pre_array(args, kwargs):
    try:
        values, dt, target, even = _parse(args, kwargs, _ARR, _DEF)
        return {'snap': _snapshot(values), 'dt': _freeze(dt), 'target': _freeze(target), 'even': _freeze(even),
                'mutable': any(isinstance(v, np.ndarray) for v in (dt, target, even))}
    except Exception:
        return None


def _pre_obj(args, kwargs):
    """Snapshot of the object's primary data (values, dt) at call entry - never its derived caches."""
    try:
        asig, target, even = _parse(args, kwargs, _OBJ, _DEF)
        dt = asig.dt
        return {'snap': _snapshot(asig.values), 'dt': _freeze(dt), 'target': _freeze(target), 'even': _freeze(even),
                'mutable': any(isinstance(v, np.ndarray) for v in (dt, target, even)), 'state': _obj_state(asig)}
    except Exception:
        return None


def _purity_array(ctx, prefix, fn, values, pre, dt, target, even, clause=None):
    ctx.check(_unchanged(values, pre['snap']), clause or (prefix + 'args-unchanged'),
              lambda: _wit(fn, pre['snap'], dt, target, even, values_after=np.asarray(values)),
              '%s(dt=%r, target_dt=%r, even=%r) modified its array argument (%s %s)'
              % (fn, dt, target, even, pre['snap']['kind'], pre['snap']['form']))


def _purity_obj(ctx, prefix, fn, asig, pre, target, even, clause=None):
    """The signal object keeps its values, its step and every other attribute (compared on vars(): nothing is computed)."""
    changed = None
    try:
        d0, d1 = pre['dt'], asig.dt
        if isinstance(d0, np.ndarray):
            same_dt = _scalar_same(d1, d0)
        else:
            same_dt = type(d1) is type(d0) and bool(d1 is d0 or d1 == d0 or (d1 != d1 and d0 != d0))
        same = _unchanged(asig.values, pre['snap']) and same_dt
        changed = _state_diff(pre['state'], _obj_state(asig))
        same = same and not changed
    except Exception:
        same = False
    ctx.check(same, clause or (prefix + 'args-unchanged'),
              lambda: _wit(fn, pre['snap'], pre['dt'], target, even, values_after=np.asarray(asig.values), dt_after=asig.dt,
                           changed_attributes=changed),
              '%s(target_dt=%r, even=%r) modified the signal object it was given (attributes %s)' % (fn, target, even, changed))


def _owns(ctx, prefix, fn, res_values, arg_values, snap, dt, target, even):
    """The returned record owns its data: it is not (a view of) the argument, also when nothing needed doing."""
    try:
        shared = isinstance(res_values, np.ndarray) and isinstance(arg_values, np.ndarray) \
            and bool(np.shares_memory(res_values, arg_values))
    except Exception:
        shared = False
    ctx.check(not shared, prefix + 'result-owns-data', lambda: _wit(fn, snap, dt, target, even),
              '%s(dt=%r, target_dt=%r, even=%r): the returned values share memory with the argument' % (fn, dt, target, even))


def _shared_step(ctx, prefix, fn, result, asig, pre, target, even):
    """The returned object's step is its own: not the 0-d array the argument object (or the caller) holds."""
    try:
        rd = result.dt
        if isinstance(rd, np.ndarray):
            ctx.check(not any(isinstance(v, np.ndarray) and np.shares_memory(rd, v) for v in (asig.dt, target)),
                      prefix + 'result-owns-data', lambda: _wit(fn, pre['snap'], pre['dt'], target, even),
                      '%s returned an object whose step shares memory with a 0-d array of the caller' % fn)
    except Exception:
        pass


def _post_interp_array(args, kwargs, result, pre):
    values, dt, target, even = _parse(args, kwargs, _ARR, _DEF)
    if pre is None:
        CTX.observe('interp.out-of-domain call (not judged)')
        return
    try:
        y, new_dt = result
    except Exception:
        y, new_dt = result, None
    cur = {'dt': dt, 'target': target, 'even': even}
    dt, target, even = pre['dt'], pre['target'], pre['even']      # judged against the ENTRY values of the scalar arguments
    if check_interp(CTX, 'interp.', 'interp_array_to_approx_dt', pre['snap'], dt, target, even, y, new_dt):
        _purity_array(CTX, 'interp.', 'interp_array_to_approx_dt', values, pre, dt, target, even)
        _owns(CTX, 'interp.', 'interp_array_to_approx_dt', y, values, pre['snap'], dt, target, even)
        if isinstance(new_dt, np.ndarray):
            CTX.check(not any(isinstance(v, np.ndarray) and np.shares_memory(new_dt, v) for v in cur.values()),
                      'interp.result-owns-data', lambda: _wit('interp_array_to_approx_dt', pre['snap'], dt, target, even),
                      'interp_array_to_approx_dt returned a step that shares memory with a 0-d array argument')
    else:       # outside the quantifier no value is judged, but the caller's array is still the caller's
        _purity_array(CTX, 'interp.', 'interp_array_to_approx_dt', values, pre, dt, target, even, clause=OOD_PURITY)
    _purity_scalars(CTX, 'interp_array_to_approx_dt', pre, cur)


def _post_interp_obj(args, kwargs, result, pre):
    asig, target, even = _parse(args, kwargs, _OBJ, _DEF)
    if pre is None:
        CTX.observe('interp_obj.out-of-domain call (not judged)')
        return
    try:
        y, new_dt = result.values, result.dt
    except Exception:
        y, new_dt = result, None
    cur = {'dt': getattr(asig, 'dt', None), 'target': target, 'even': even}
    target, even = pre['target'], pre['even']
    _purity_scalars(CTX, 'interp_to_approx_dt', pre, cur)
    if check_interp(CTX, 'interp_obj.', 'interp_to_approx_dt', pre['snap'], pre['dt'], target, even, y, new_dt):
        fn = 'interp_to_approx_dt'
        _shared_step(CTX, 'interp_obj.', fn, result, asig, pre, target, even)
        _purity_obj(CTX, 'interp_obj.', fn, asig, pre, target, even)
        _owns(CTX, 'interp_obj.', fn, y, getattr(asig, 'values', None), pre['snap'], pre['dt'], target, even)
        CTX.check(result is not asig, 'interp_obj.result-owns-data', lambda: _wit(fn, pre['snap'], pre['dt'], target, even),
                  '%s(target_dt=%r, even=%r) returned the argument object itself' % (fn, target, even))
        # two sites that must agree: the object-level entry point is the array-level one applied to (values, dt)
        import eqsig
        try:
            with attach.paused():
                ya, dta = eqsig.fns.time_step.interp_array_to_approx_dt(pre['snap']['copy'], _freeze(pre['dt']),
                                                                        target_dt=_freeze(target), even=_freeze(even))
            agree = (np.asarray(y).shape == np.asarray(ya).shape and np.asarray(y).tobytes() == np.asarray(ya).tobytes()
                     and float(new_dt) == float(dta))
        except Exception:
            agree = None
        if agree is not None:
            CTX.check(agree, 'interp_obj.agrees-with-array-level',
                      lambda: _wit(fn, pre['snap'], pre['dt'], target, even, got_len=len(y), got_dt=new_dt,
                                   array_level_len=len(ya), array_level_dt=dta),
                      '%s(n=%d, dt=%r, target_dt=%r, even=%r) -> (len %d, dt %r) but interp_array_to_approx_dt on the same '
                      'values gives (len %d, dt %r)' % (fn, len(pre['snap']['copy']), pre['dt'], target, even, len(y), new_dt,
                                                       len(ya), dta))
    else:
        _purity_obj(CTX, 'interp_obj.', 'interp_to_approx_dt', asig, pre, target, even, clause=OOD_PURITY)


def _post_resample(args, kwargs, result, pre):
    asig, target, even = _parse(args, kwargs, _OBJ, _DEF)
    if pre is None:
        CTX.observe('fourier.out-of-domain call (not judged)')
        return
    cur = {'dt': getattr(asig, 'dt', None), 'target': target, 'even': even}
    target, even = pre['target'], pre['even']
    _purity_scalars(CTX, 'resample_to_approx_dt', pre, cur)
    if check_fourier(CTX, pre['snap'], pre['dt'], target, even, result):
        fn = 'resample_to_approx_dt'
        _shared_step(CTX, 'fourier.', fn, result, asig, pre, target, even)
        _purity_obj(CTX, 'fourier.', fn, asig, pre, target, even)
        _owns(CTX, 'fourier.', fn, getattr(result, 'values', None), getattr(asig, 'values', None), pre['snap'], pre['dt'],
              target, even)
        CTX.check(result is not asig, 'fourier.result-owns-data', lambda: _wit(fn, pre['snap'], pre['dt'], target, even),
                  '%s(target_dt=%r, even=%r) returned the argument object itself' % (fn, target, even))
        # "follows the same step rule": how often the two variants pick a different admissible step (no verdict)
        import eqsig
        try:
            with attach.paused():
                dta = eqsig.fns.time_step.interp_array_to_approx_dt(np.zeros(len(pre['snap']['copy'])), _freeze(pre['dt']),
                                                                    target_dt=_freeze(target), even=_freeze(even))[1]
            if float(dta) != float(result.dt):
                CTX.observe('fourier.step differs from the interpolation variant (no verdict)')
        except Exception:
            pass
    else:
        _purity_obj(CTX, 'fourier.', 'resample_to_approx_dt', asig, pre, target, even, clause=OOD_PURITY)


def _exc_hook(prefix, fn, objlevel):
    def hook(args, kwargs, exc, pre):
        # a call that raises (in or out of the quantifier) leaves its argument as it found it
        if pre is not None:
            try:
                if objlevel:
                    asig, target, even = _parse(args, kwargs, _OBJ, _DEF)
                    _purity_obj(CTX, prefix, fn, asig, pre, pre['target'], pre['even'], clause=OOD_PURITY)
                    _purity_scalars(CTX, fn, pre, {'dt': getattr(asig, 'dt', None), 'target': target, 'even': even})
                else:
                    values, dt, target, even = _parse(args, kwargs, _ARR, _DEF)
                    _purity_array(CTX, prefix, fn, values, pre, pre['dt'], pre['target'], pre['even'], clause=OOD_PURITY)
                    _purity_scalars(CTX, fn, pre, {'dt': dt, 'target': target, 'even': even})
            except Exception:
                CTX.observe(prefix + 'raising call with unparsable arguments (purity not judged)')
        try:
            dt, target, even = pre['dt'], pre['target'], pre['even']
            x = _float_copy(pre['snap'])
        except Exception:
            x = None
        if x is None:
            CTX.observe(prefix + 'out-of-domain call (not judged)')
            return
        if not _domain(CTX, prefix, x, dt, target):
            return
        import traceback
        tb = ''.join(traceback.format_exception(type(exc), exc, exc.__traceback__)[-4:])
        CTX.violation(prefix + 'returns', _wit(fn, pre['snap'], dt, target, even, exception=repr(exc)),
                      '%s(n=%d %s %s, dt=%r, target_dt=%r, even=%r) raised %r on in-domain input\n%s'
                      % (fn, len(x), pre['snap']['kind'], pre['snap']['form'], dt, target, even, exc, tb))
    return hook


def install(ctx):
    global CTX
    CTX = ctx
    import eqsig
    ts = eqsig.fns.time_step
    attach.wrap(ts, 'interp_array_to_approx_dt', _post_interp_array, pre=_pre_array,
                on_exception=_exc_hook('interp.', 'interp_array_to_approx_dt', False))
    attach.wrap(ts, 'interp_to_approx_dt', _post_interp_obj, pre=_pre_obj,
                on_exception=_exc_hook('interp_obj.', 'interp_to_approx_dt', True))
    attach.wrap(ts, 'resample_to_approx_dt', _post_resample, pre=_pre_obj,
                on_exception=_exc_hook('fourier.', 'resample_to_approx_dt', True))


# ---------------------------------------------------------------------------------------------------- workload
EXPLICIT = [(0.01, t) for t in (0.004999, 0.005, 0.005001, 0.0033334, 0.00333333, 0.0033333333333333335, 0.0025001,
                                0.0024999, 0.01, 0.0100001, 0.0099999, 0.019999, 0.02, 0.020001, 0.0299999, 0.03,
                                0.0300001, 0.07, 0.0700001, 0.0699999)]
FLOAT_TRAPS = [(0.07, 0.01), (0.03, 0.01), (0.06, 0.02), (0.3, 0.1), (0.7, 0.1), (0.35, 0.05), (0.57, 0.01), (0.29, 0.01),
               (0.58, 0.01), (1.1, 0.1), (0.15, 0.05), (0.09, 0.03), (0.006, 0.002), (0.021, 0.007), (0.14, 0.02),
               (0.28, 0.04), (0.056, 0.008), (1.13, 0.01), (0.069, 0.023), (0.0035, 0.0005)]
UNITS = [0.1, 0.01, 0.001, 0.05, 0.02, 0.005, 0.0025]
UNITS_WIDE = [1e-9, 3e-9, 1e-7, 1e-5, 10.0, 100.0, 1000.0]           # time steps 1e-9 .. 1e3
K_WIDE = [1, 2, 3, 5, 6, 7, 9, 10, 12, 29, 57, 58]
GRID_DT = [0.001, 0.002, 0.004, 0.005, 0.01, 0.02, 0.025, 0.05, 0.1]
GRID_T = [0.001, 0.002, 0.003, 0.004, 0.005, 0.006, 0.007, 0.01, 0.015, 0.02, 0.03, 0.04, 0.05, 0.07, 0.1, 0.3]


def static_pairs():
    """Deterministic (dt, target, family) list, identical in every shard; shards take a round-robin slice."""
    P = [(a, b, 'explicit-near-integer') for a, b in EXPLICIT]
    for a, b in FLOAT_TRAPS:
        P.append((a, b, 'float-trap'))
        P.append((b, a, 'float-trap'))
    for u in UNITS:
        for k in range(1, 61):
            for big in sorted({k * u, float('%.10g' % (k * u))}):
                P.append((big, u, 'decimal-multiple'))
                P.append((u, big, 'decimal-multiple'))
    for u in UNITS_WIDE:
        for k in K_WIDE:
            for big in sorted({k * u, float('%.10g' % (k * u))}):
                P.append((big, u, 'decimal-multiple-wide-dt'))
                P.append((u, big, 'decimal-multiple-wide-dt'))
    for a in GRID_DT:
        for b in GRID_T:
            P.append((a, b, 'decimal-grid'))
    seen = set()
    out = []
    for a, b, f in P:
        if (a, b) not in seen:
            seen.add((a, b))
            out.append((float(a), float(b), f))
    return out


FAMILIES = ['near-int-refine', 'near-int-decimate', 'ulp-refine', 'ulp-decimate', 'int-multiple', 'reciprocal',
            'log-uniform', 'equal', 'awkward-quotient']
FAM_P = [0.19, 0.19, 0.05, 0.05, 0.12, 0.12, 0.12, 0.04, 0.12]


def _step_ulps(v, j):
    for _ in range(abs(j)):
        v = float(np.nextafter(v, np.inf if j > 0 else -np.inf))
    return v


def random_pair(rng, max_ratio=300.0, rescale=True):
    fam = FAMILIES[int(rng.choice(len(FAMILIES), p=FAM_P))]
    dt = gen.dt(rng)
    if fam in ('near-int-refine', 'near-int-decimate'):
        k = int(rng.integers(1, 61))
        delta = float(rng.uniform(1.0, 9.99)) * 10.0 ** (-int(rng.integers(4, 14))) if rng.random() < 0.5 \
            else 10.0 ** (-int(rng.integers(3, 13)))
        s = 1.0 if rng.random() < 0.5 else -1.0
        q = k * (1.0 + s * delta)                       # intended quotient next to the integer k
        target = dt / q if fam == 'near-int-refine' else dt * q
    elif fam in ('ulp-refine', 'ulp-decimate'):
        k = int(rng.integers(1, 61))
        j = int(rng.choice([-3, -2, -1, 1, 2, 3]))
        target = _step_ulps(dt / k if fam == 'ulp-refine' else dt * k, j)
    elif fam == 'int-multiple':
        k = int(rng.integers(1, 61))
        target = dt * k if rng.random() < 0.5 else dt / k
    elif fam == 'reciprocal':
        k = int(gen.RECIP_K[int(rng.integers(len(gen.RECIP_K)))]) if rng.random() < 0.4 else int(rng.integers(2, 200))
        dt = 1.0 / k
        m = int(rng.integers(1, 50))
        target = [m / k, m * dt, dt / m, 1.0 / (k * m)][int(rng.integers(4))]
    elif fam == 'log-uniform':
        while True:
            dt = float(10.0 ** rng.uniform(-3, 0))
            target = float(10.0 ** rng.uniform(-3, 0))
            if 1.0 / max_ratio <= dt / target <= max_ratio:
                break
    elif fam == 'awkward-quotient':
        # steps d for which d/(d/k) != k, ceil(d/(d/k)) != k or (d/k)*k != d: every int()/floor()/ceil()/round() of the
        # quotient dt/target, of its reciprocal and of factor*npts sits on such a value
        k = int(rng.integers(2, 61))
        d = gen.awkward_dt(rng, k)
        q = d / k
        v = int(rng.integers(5))
        if v == 0:
            dt, target = d, q                 # refine by "k": dt/target lands next to k
        elif v == 1:
            dt, target = q, d                 # decimate by "k": target/dt lands next to k
        elif v == 2:
            dt, target = q, q * k             # product instead of the original step
        elif v == 3:
            dt, target = q * k, q
        else:
            dt, target = d, d * k             # decimation by a float product
        fam = 'awkward-quotient/%s' % ('refine' if target < dt else 'decimate')
    else:
        target = dt
    if rescale:
        r = rng.random()
        if r < 0.15:                                     # exact rescaling: the quotient keeps its bits
            s = 2.0 ** int(rng.integers(-20, 11))
            dt, target, fam = dt * s, target * s, fam + '*2^j'
        elif r < 0.30:                                   # decimal rescaling: time steps 1e-9 .. 1e3
            s = 10.0 ** rng.uniform(-6.5, 3.0)
            same = target == dt
            dt, target, fam = dt * s, (dt * s if same else target * s), fam + '*10^u'
    return float(dt), float(target), fam


POW2 = [v for p in range(2, 12) for v in (2 ** p - 1, 2 ** p, 2 ** p + 1)]


def awkward_counts(max_m=400, max_c=40):
    """(m, n, side) with n = c*m a multiple of the decimation factor for which the float product fl(1/m)*n is NOT the
    integer c: 'above' (ceil gives one sample more: the grid runs past the last sample) or 'below'."""
    out = []
    for m in range(2, max_m + 1):
        f = 1.0 / m
        for c in range(3, max_c + 1):
            v = f * (c * m)
            if v != c:
                out.append((m, c * m, 'above' if v > c else 'below'))
    return out


def n_min(dt, target):
    """Shortest record of the quantifier."""
    nmin = int(np.ceil(2.0 * max(dt, target) / dt)) + 1
    if (nmin - 1) * dt < 2.0 * max(dt, target):
        nmin += 1
    return max(nmin, 3)


def lengths(rng, dt, target, count, span=200):
    """Lengths inside the quantifier: from ceil(2*max(dt,target)/dt)+1 upwards; odd and even; around powers of two; for
    decimations both divisible and not divisible by the (anticipated) factor."""
    nmin = n_min(dt, target)
    m = int(np.floor(target / dt * (1 + 1e-9)))
    out = []
    for c in range(count):
        n = nmin + int(rng.integers(0, span + 1))
        r = rng.random()
        if c == 0 and rng.random() < 0.15:
            n = nmin                                       # shortest record of the quantifier
        elif m >= 2 and r < 0.35:
            n = max(nmin + (-nmin) % m, n - n % m)         # divisible by the factor
        elif m >= 3 and r < 0.5:
            n = max(nmin + (-nmin) % (m - 1), n - n % (m - 1))   # divisible by the next smaller factor (float traps)
        elif r > 0.88:
            cand = [v for v in POW2 if nmin <= v <= nmin + 2200]
            if cand:
                n = cand[int(rng.integers(min(len(cand), 9)))]
        out.append(int(n))
    return out


REC_CLS = ['noise', 'walk', 'quake', 'intnoise', 'sine', 'chirp', 'plateau', 'impulse', 'alt', 'zeropad', 'step', 'const',
           'ramp', 'plateau-ends', 'extreme-first', 'extreme-last', 'sign-change-at-end', 'spike-dynamic-range',
           'one-sided', 'tail-heavy', 'single-changed-sample', 'silent']
REC_P = np.array([.14, .08, .08, .07, .04, .04, .05, .04, .04, .04, .03, .02, .06, .04, .04, .04, .04, .05, .05, .03, .04,
                  .025])
REC_P = REC_P / REC_P.sum()


def make_record(rng, n, scales=True, rec=None):
    cls = rec if rec is not None else REC_CLS[int(rng.choice(len(REC_CLS), p=REC_P))]
    if cls == 'silent':     # an all-zero record is a valid record (its range is the single value 0)
        return (np.zeros(n) if rng.random() < 0.85 else -np.zeros(n)), cls
    if cls == 'ramp':       # strictly increasing: every sample distinct, position errors cannot hide
        x = np.arange(n, dtype=float) * (1.0 if rng.random() < 0.5 else float(rng.uniform(0.1, 3.0)))
    elif cls == 'plateau-ends':
        x = rng.normal(size=n)
        a = int(rng.integers(1, max(2, n // 3 + 1)))
        b = int(rng.integers(1, max(2, n // 3 + 1)))
        x[:a] = x[a - 1]
        x[n - b:] = x[n - b]
    elif cls in ('extreme-first', 'extreme-last'):
        x = rng.normal(size=n)
        x[0 if cls == 'extreme-first' else n - 1] = (np.max(np.abs(x)) + 1.0) * (1.0 if rng.random() < 0.5 else -1.0)
    elif cls == 'spike-dynamic-range':     # one sample 1e3 .. 1e12 times larger than the steps between the others
        x = rng.normal(size=n)
        x[int(rng.integers(n))] = 10.0 ** rng.uniform(3, 12) * (1.0 if rng.random() < 0.5 else -1.0)
        if rng.random() < 0.3:
            x[n - 1 if rng.random() < 0.5 else 0] = 10.0 ** rng.uniform(3, 12)
    elif cls == 'one-sided':               # all the action on one side of zero, zero outside the range of the record
        x = -(np.abs(rng.normal(size=n)) + float(rng.uniform(0.05, 2.0)))
        if rng.random() < 0.3:
            x = -x
    elif cls == 'tail-heavy':              # all the action in the last 1/k of the record
        x = np.zeros(n)
        a = max(1, n // int(rng.integers(3, 12)))
        x[n - a:] = rng.normal(size=a) * np.linspace(0.2, 1.0, a)
    elif cls == 'single-changed-sample':
        x = np.full(n, float(rng.choice([0.0, 1.0, -2.5])))
        x[int(rng.choice([0, n - 1, int(rng.integers(n))]))] += float(rng.choice([1.0, -1.0, 1e-9]))
    elif cls == 'sign-change-at-end':
        x = np.abs(rng.normal(size=n)) + 0.1
        x[n - 1] = -x[n - 1]
        if rng.random() < 0.5:
            x = -x
    else:
        x, cls = gen.record(rng, n, cls=cls)
    if scales:
        r = rng.random()
        if r > 0.91 and np.ptp(x) > 0:
            # extreme but valid scales (every value a finite double, squares / products of two samples under- or overflow):
            # uniformly tiny / huge, 1e-150 next to 1e150 in one record, ripple on a baseline closer than float32
            # resolution, counts above 2**24
            if r > 0.955:
                m = float(np.max(np.abs(x)))
                e = float(rng.uniform(165, 300))
                x, cls = x / m * 10.0 ** (e if rng.random() < 0.5 else -e), cls + '/extreme-scale'
            else:
                x, sfx = gen.special_scale(rng, x)
                cls = cls + '/special' + sfx
        elif r < 0.10:
            x, cls = x * 10.0 ** rng.uniform(-12, 12), cls + '*amp(1e-12..1e12)'
        elif r < 0.15:
            m = float(np.max(np.abs(x))) or 1.0
            x, cls = x / m * 10.0 ** rng.uniform(-12, -9), cls + '*micro'
        elif r < 0.20:
            m = float(np.max(np.abs(x))) or 1.0
            x, cls = x / m * 10.0 ** rng.uniform(-4, -1) + 10.0 ** rng.uniform(3, 8) * (1.0 if rng.random() < 0.5 else -1.0), \
                cls + '+offset'
    return np.asarray(x, dtype=float), cls


INT_FORMS = {'i64': np.int64, 'i32': np.int32, 'i16': np.int16, 'i8': np.int8, 'u8': np.uint8, 'u16': np.uint16}
FORMS = ['f32', 'i64', 'i32', 'i16', 'i8', 'u8', 'u16', 'list', 'tuple', 'list-int', 'list-mixed', 'view-stride2',
         'view-reversed', 'readonly', 'readonly-view', 'bool', 'list-bool']


def make_form(rng, x, form):
    """The record in another container / dtype / memory layout. Integer dtypes use the whole range of the dtype."""
    n = len(x)
    if form == 'f32':
        return np.asarray(x, dtype=np.float32)
    if form in INT_FORMS:
        dtp = INT_FORMS[form]
        lo, hi = (-2 ** 52, 2 ** 52) if form == 'i64' else (int(np.iinfo(dtp).min), int(np.iinfo(dtp).max))
        p = float(np.ptp(x))
        if p == 0 or rng.random() < 0.4:
            v = rng.integers(lo, hi, size=n, endpoint=True)
        else:                                               # the record's shape stretched over the whole dtype range
            z = (x - np.min(x)) / p
            v = np.clip(np.rint(lo + z * (float(hi) - float(lo))), lo, hi)
        return np.asarray(v).astype(dtp)
    if form in ('bool', 'list-bool'):
        # on/off records: the samples above the median, a rectangular pulse, or all on / all off (a constant record)
        r = rng.random()
        if r < 0.5 and np.ptp(x) > 0:
            v = np.asarray(x > np.median(x))
        elif r < 0.85 or n < 4:
            a = int(rng.integers(0, n))
            v = np.zeros(n, dtype=bool)
            v[a:a + int(rng.integers(1, max(2, n // 2)))] = True
            if rng.random() < 0.3:
                v = ~v
        else:
            v = np.full(n, bool(rng.random() < 0.5))
        return v if form == 'bool' else [bool(u) for u in v]
    if form == 'list':
        return [float(v) for v in x]
    if form == 'tuple':
        return tuple(float(v) for v in x)
    if form == 'list-int':
        s = 1000.0 / (float(np.max(np.abs(x))) or 1.0)
        return [int(round(float(v) * s)) for v in x]
    if form == 'list-mixed':       # Python ints stay inside int64 (beyond it numpy builds an object array and refuses)
        return [(int(round(float(v))) if (i % 2 and abs(v) < 2.0 ** 62) else float(v)) for i, v in enumerate(x)]
    if form in ('view-stride2', 'readonly-view'):
        buf = np.empty(2 * n)
        buf[::2] = x
        buf[1::2] = rng.normal(size=n) * 1e3
        v = buf[::2]
        if form == 'readonly-view':
            v.flags.writeable = False
        return v
    if form == 'view-reversed':
        return np.ascontiguousarray(x[::-1])[::-1]
    if form == 'readonly':
        v = np.array(x, copy=True)
        v.flags.writeable = False
        return v
    raise ValueError(form)


def pick_even(rng, even):
    """even as bool (mostly), numpy bool or 0/1."""
    r = rng.random()
    if r < 0.8:
        return bool(even)
    if r < 0.87:
        return np.bool_(even)
    if r < 0.93:
        return int(bool(even))
    if r < 0.98:
        return np.array(bool(even))          # 0-d bool array (mutable; `even is True` fails for it)
    return np.int64(bool(even))


FLOAT_SFORMS = ['float', 'np.float64', 'np.float32', '0d-float64', '0d-float32']
INT_SFORMS = ['int', 'np.int64', 'np.int32', '0d-int64', '0d-int32']
INT_PAIRS = [(1, 1), (1, 2), (2, 1), (1, 3), (3, 1), (6, 2), (2, 6), (1, 7), (7, 1), (5, 2), (2, 5), (7, 3), (3, 7), (10, 1),
             (1, 10), (60, 1), (1, 60), (12, 5)]


def scalar_pair(rng, pairs):
    """(dt as given, target as given, float(dt), float(target), family): the two steps in a scalar form other than the Python
    float - NumPy scalars, 0-d arrays (mutable), Python / NumPy integers for whole-second steps; float32 forms hold the
    float32-rounded step, which is then THE step of the case."""
    if rng.random() < 0.25:
        a, b = INT_PAIRS[int(rng.integers(len(INT_PAIRS)))]
        allf = INT_SFORMS + FLOAT_SFORMS
        fd = INT_SFORMS[int(rng.integers(len(INT_SFORMS)))] if rng.random() < 0.7 else allf[int(rng.integers(len(allf)))]
        ft = INT_SFORMS[int(rng.integers(len(INT_SFORMS)))] if rng.random() < 0.7 else allf[int(rng.integers(len(allf)))]
        fam = 'whole-second-steps'
    else:
        if rng.random() < 0.5:
            a, b, fam = pairs[int(rng.integers(len(pairs)))]
        else:
            a, b, fam = random_pair(rng, max_ratio=60.0)
        fd = FLOAT_SFORMS[int(rng.integers(len(FLOAT_SFORMS)))]
        ft = FLOAT_SFORMS[int(rng.integers(len(FLOAT_SFORMS)))]
        if fd == 'float' and ft == 'float':
            fd = '0d-float64'
        if a == b and rng.random() < 0.7:
            ft = fd                              # dt == target stays an equality in the given forms
    dts, tgs = _smake(fd, a), _smake(ft, b)
    return dts, tgs, float(dts), float(tgs), 'scalar-forms/%s' % fam


def out_of_band_settings(dt):
    """User settings outside the band of the data: smoothing frequencies above the Nyquist frequency, response periods
    below two steps (where a 'robust' reader is tempted to tidy)."""
    dt = float(dt)
    return {'smooth_fa_freqs': np.array([0.05, 0.3, 0.6, 1.2, 3.0]) / dt,
            'response_times': np.array([0.5, 1.5, 3.0, 50.0]) * dt}




def _swallow(f, *a, **k):
    """The monitors' exception hooks record exceptions on in-domain input; the driver only keeps going."""
    try:
        return f(*a, **k)
    except Exception:
        return None


def call_array(eqsig, rng, vals, dt, target, even):
    r = rng.random()
    if target == 0.01 and r < 0.3:
        if even is True and r < 0.15:
            return _swallow(eqsig.interp_array_to_approx_dt, vals, dt)                       # both defaults
        return _swallow(eqsig.interp_array_to_approx_dt, vals, dt, even=even)                # default target_dt=0.01
    if r < 0.25:
        return _swallow(eqsig.interp_array_to_approx_dt, vals, dt, target, even)             # positional
    if r < 0.45 and even is True:
        return _swallow(eqsig.interp_array_to_approx_dt, vals, dt, target_dt=target)         # default even=True
    if r < 0.55:
        return _swallow(eqsig.interp_array_to_approx_dt, values=vals, dt=dt, target_dt=target, even=even)
    return _swallow(eqsig.interp_array_to_approx_dt, vals, dt, target_dt=target, even=even)


def call_obj(f, rng, asig, target, even):
    """interp_to_approx_dt / resample_to_approx_dt share the signature (asig, target_dt=0.01, even=True)."""
    r = rng.random()
    if target == 0.01 and r < 0.3:
        return _swallow(f, asig, even=even)
    if r < 0.3:
        return _swallow(f, asig, target, even)
    if r < 0.45 and even is True:
        return _swallow(f, asig, target)
    if r < 0.6:
        return _swallow(f, asig=asig, target_dt=target, even=even)
    return _swallow(f, asig, target, even=even)


def check_settings(ctx, o, given, kept, fn, vals, dt, target, even):
    """After a resampling call the object's user-given settings are what the caller gave, bit for bit, and the caller's
    own arrays are untouched."""
    try:
        ok = all(np.asarray(getattr(o, k)).dtype == kept[k].dtype and np.asarray(getattr(o, k)).shape == kept[k].shape
                 and np.asarray(getattr(o, k)).tobytes() == kept[k].tobytes()
                 and given[k].tobytes() == kept[k].tobytes() for k in kept)
    except Exception:
        ok = False
    ctx.check(ok, P_SETTINGS,
              lambda: _wit(fn, _snapshot(np.asarray(vals)), dt, target, even, settings={k: v for k, v in kept.items()},
                           settings_after={k: np.asarray(getattr(o, k, None)) for k in kept}),
              '%s(target_dt=%r, even=%r) changed the settings of the signal object (smooth_fa_freqs / response_times given '
              'outside the band of the data)' % (fn, target, even))


def make_sig(eqsig, ctx, vals, dt, **settings):
    try:
        return eqsig.AccSignal(vals, dt, **settings)
    except Exception:
        ctx.observe('driver: AccSignal construction failed (not this property)')
        return None


def drive_interp(eqsig, ctx, rng, dt, target, fam, n, even, c, form=None, rec=None, sc=None):
    """sc = (dt as given, target as given): the steps in another scalar form (dt, target are their float values)."""
    x, rcls = make_record(rng, n, rec=rec)
    mode = 'array'
    if c % 4 == 3:
        mode = 'object'
    elif c % 8 == 1 and target < dt and dt / target <= 12 and n <= 400:
        mode = 'consumer'
    vals = x
    special = ('/extreme-scale' in rcls) or ('/special' in rcls)
    if form is None and rng.random() < 0.3:
        form = FORMS[int(rng.integers(len(FORMS)))]
    if form is None and rcls.split('*')[0].split('+')[0] in ('silent', 'one-sided') and rng.random() < 0.5:
        form = ['list', 'tuple', 'list-int', 'tuple'][int(rng.integers(4))]     # Python containers of silent / one-signed records
    if rcls.startswith(('silent', 'one-sided')):
        ctx.observe('workload record %s as %s' % (rcls.split('*')[0].split('+')[0].split('/')[0],
                                                  'python container' if form in ('list', 'tuple', 'list-int', 'list-mixed')
                                                  else 'array'))
    if special and form in ('f32', 'list-int', 'list-mixed') + tuple(INT_FORMS):
        form = ['list', 'tuple', 'view-stride2', 'readonly'][int(rng.integers(4))]   # no float32 / int at these scales
    if special:
        ctx.observe('workload extreme/special scale: ' + rcls.split('/', 1)[1])
    if form is not None:
        vals = make_form(rng, x, form)
    xv = np.asarray(vals, dtype=float)
    nontriv = bool(np.ptp(xv) > 0)
    even = pick_even(rng, even)
    ctx.case(core.digest(xv, dt, target, bool(even), mode, form, None if sc is None else (_sform(sc[0]), _sform(sc[1])),
                         _sform(even)), nontrivial=nontriv,
             cls='interp/%s/%s' % (mode, fam),
             sample={'fn': 'interp:' + mode, 'n': n, 'dt': dt, 'target_dt': target, 'even': even, 'record': rcls,
                     'form': form or 'f64', 'head': xv[:6],
                     'scalar_forms': None if sc is None else [_sform(sc[0]), _sform(sc[1]), _sform(even)]})
    ctx.observe('workload form %s' % (form or 'f64'))
    if form in ('bool', 'list-bool'):
        ctx.ok('bool-record.monitored-call')
    if sc is not None:
        dt, target = sc            # from here on the steps are passed on exactly as given
    if mode == 'array':
        if rng.random() < 0.12:
            # the SAME array object in consecutive calls; every call is judged against its own entry snapshot and the
            # object is compared with its first state at the end
            snap0 = _snapshot(vals)
            call_array(eqsig, rng, vals, dt, target, even)
            call_array(eqsig, rng, vals, dt, target, not even)
            if O.in_domain(n, dt, dt):
                call_array(eqsig, rng, vals, dt, dt, even)
            call_array(eqsig, rng, vals, dt, target, even)
            ctx.check(_unchanged(vals, snap0), 'purity.reused-array-unchanged',
                      lambda: _wit('interp_array_to_approx_dt', snap0, dt, target, even, values_after=np.asarray(vals)),
                      'array argument changed over four consecutive calls (dt=%r target_dt=%r)' % (dt, target))
        else:
            call_array(eqsig, rng, vals, dt, target, even)
    elif mode == 'object':
        if rng.random() < 0.25:
            given = out_of_band_settings(dt)
            kept = {k: v.copy() for k, v in given.items()}
            asig = make_sig(eqsig, ctx, vals, dt, **given)
            if asig is not None:
                call_obj(eqsig.interp_to_approx_dt, rng, asig, target, even)
                check_settings(ctx, asig, given, kept, 'interp_to_approx_dt', vals, dt, target, even)
        else:
            asig = make_sig(eqsig, ctx, vals, dt)
            if asig is not None:
                call_obj(eqsig.interp_to_approx_dt, rng, asig, target, even)
    else:
        # consumer: gen_response_spectrum refines to max(T_min/20, dt/min_dt_ratio) with even=False
        asig = make_sig(eqsig, ctx, vals, dt)
        if asig is None:
            return
        VIA['consumer'] = True
        try:
            r = rng.random()
            if r < 0.5:
                # the step comes from the shortest period: target = T_min / 20
                rt = np.array([20.0 * target, 40.0 * target + 0.1 * dt / 0.01])
                if r < 0.2:     # period lists of 1, 2, .. 65 entries, optionally led by T = 0
                    m = int(rng.choice([1, 2, 3, 31, 32, 33, 64, 65]))
                    rt = 20.0 * target * (1.0 + np.arange(m) * 0.37)
                    if rng.random() < 0.4:
                        rt = np.concatenate([[0.0], rt])
                if rng.random() < 0.15:     # float32 periods: the consumer hands a np.float32 target to the resampler
                    rt = rt.astype(np.float32)
                _swallow(asig.gen_response_spectrum, response_times=rt,
                         min_dt_ratio=[1000.0, 1000, np.float64(1000.0), np.array(1000.0)][int(rng.integers(4))])
            else:
                # the step comes from the ratio: target = dt / min_dt_ratio (quotient dt / (dt / k) recovered by ceil)
                k = [2, 3, 5, 6, 7, 9, 10, 11, 12][int(rng.integers(9))] if r < 0.9 else float(rng.uniform(1.5, 12.0))
                if r < 0.9:                 # the ratio as Python int / float, NumPy scalars, 0-d array
                    k = [int, float, np.int64, np.float64, np.float32, np.array][int(rng.integers(6))](k)
                _swallow(asig.gen_response_spectrum, response_times=np.array([dt * 1.5, dt * 40.0]), min_dt_ratio=k)
        finally:
            VIA['consumer'] = False


def synth_bandlimited(rng, N, Kmax, mode, scales=True):
    """x(t) = a0 + sum_k a_k cos(2 pi k t/P) + b_k sin(2 pi k t/P), harmonics <= Kmax, at most 10 non-zero ones."""
    a = np.zeros(Kmax + 1)
    b = np.zeros(Kmax + 1)
    a[0] = rng.normal() if rng.random() < 0.7 else 0.0
    if mode == 'silent':
        a[0] = 0.0
        ks = []
        scales = False
    elif mode == 'const' or Kmax < 1:
        a[0] = float(rng.choice([-2.0, 0.5, 3.0]))
        ks = []
    elif mode == 'top-only':
        ks = [Kmax]
    elif mode in ('top', 'one-signed'):
        ks = sorted(set([Kmax] + [int(v) for v in rng.integers(1, Kmax + 1, size=int(rng.integers(1, 10)))]))
    else:
        hi = max(1, Kmax // 2)
        ks = sorted(set(int(v) for v in rng.integers(1, hi + 1, size=int(rng.integers(1, 10)))))
    for k in ks:
        a[k], b[k] = rng.normal(size=2)
        if rng.random() < 0.15:
            (a if rng.random() < 0.5 else b)[k] = 0.0
        if a[k] == 0.0 and b[k] == 0.0:
            a[k] = 1.0
    amp = 1.0
    if scales:
        r = rng.random()
        if r < 0.2:
            amp = 10.0 ** rng.uniform(-3, 3)
        elif r < 0.35:
            amp = 10.0 ** rng.uniform(-12, 12)
        elif r < 0.40 and ks:
            a[0] = 10.0 ** rng.uniform(1, 3) * (1.0 if rng.random() < 0.5 else -1.0)       # offset on a smaller signal
        elif r < 0.48:
            e = float(rng.uniform(165, 295))                                               # extreme but valid scales
            amp = 10.0 ** (e if rng.random() < 0.5 else -e)
        elif r < 0.52 and ks:
            a[0] = 10.0 ** rng.uniform(0, 12) * (1.0 if rng.random() < 0.5 else -1.0)      # ripple on a large baseline
            sc_ = abs(a[0]) * 10.0 ** (-rng.uniform(6, 8))
            for k in ks:
                a[k] *= sc_
                b[k] *= sc_
    if mode == 'one-signed':      # the mean dominates the sum of all harmonic amplitudes: no zero, no sign change anywhere
        a[0] = (float(np.sum(np.abs(a[1:]) + np.abs(b[1:]))) or 1.0) * float(rng.uniform(1.05, 3.0)) \
            * (1.0 if rng.random() < 0.5 else -1.0)
    a *= amp
    b *= amp
    K = ks[-1] if ks else 0
    x = O.trig_eval(a, b, K, np.arange(N) / float(N))
    return x, a, b, K


def pilot_step(eqsig, N, dt, target, even):
    """Pilot call (monitors paused, zeros) only to learn the step the library will return, so that the synthesised signal
    can reach the highest admissible harmonic; if it raises, fall back to the bound new_dt <= target."""
    new_dt = None
    try:
        with attach.paused():
            new_dt = float(eqsig.resample_to_approx_dt(eqsig.AccSignal(np.zeros(N), dt), target, even=even).dt)
    except Exception:
        new_dt = None
    if not (new_dt is not None and 0 < new_dt <= float(target) * (1 + 1e-9)):
        new_dt = float(target)
    return new_dt


def synth_for(eqsig, rng, N, dt, target, even, kmode=None, scales=True, kcap=None, pilot=None):
    new_dt = pilot_step(eqsig, N, *((dt, target) if pilot is None else (_freeze(pilot[0]), _freeze(pilot[1]))), even)
    if kmode is None and N % 2 == 0 and N >= 4 and new_dt < dt * (1 - 1e-6) and kcap is None and rng.random() < 0.25:
        kmode = 'nyquist'
    if kmode == 'nyquist':
        # even-length record, refinement: harmonics below N/2 plus c*cos(2 pi (N/2) t/P) = c*(-1)^n at the samples -
        # energy exactly at the OLD Nyquist frequency, which lies below the NEW one
        x, a, b, K = synth_bandlimited(rng, N, max(N // 2 - 1, 0), ['top', 'low', 'const'][int(rng.integers(3))], scales)
        sc0 = float(np.max(np.abs(x))) or 1.0
        c = sc0 * float(rng.choice([1.0, -0.5, 1e-3, 3.0]))
        x = x + c * (-1.0) ** np.arange(N)
        A, B, nyq = O.harmonics(x)
        sc = float(np.max(np.abs(x)))
        if not (abs(nyq - c) <= 1e-11 * sc and O.band_index(A, B, nyq, sc) == N // 2):
            raise AssertionError('C14 oracle self-check failed: alternating component not recovered (N=%d)' % N)
        return x, N // 2, N // 2, kmode
    lim = min(N / 2.0, N * dt / (2.0 * new_dt) * (1 - 1e-9))
    Kmax = int(np.ceil(lim)) - 1
    if kcap is not None:            # very long records: keep k*t/P exact to ~1e-13 in the analytic reference
        Kmax = min(Kmax, kcap)
    if kmode is None:
        kmode = ['top', 'low', 'top-only', 'const', 'silent', 'one-signed'][int(rng.choice(6, p=[.46, .27, .15, .03, .025, .065]))]
    x, a, b, K = synth_bandlimited(rng, N, max(Kmax, 0), kmode, scales)
    if kmode == 'one-signed' and not (np.all(x > 0) or np.all(x < 0)):
        raise AssertionError('C14 workload self-check failed: one-signed record changes sign (N=%d)' % N)
    # oracle self-check (a failure is a harness defect -> shard crash -> INCONCLUSIVE, never a verdict on eqsig)
    A, B, nyq = O.harmonics(x)
    sc = float(np.max(np.abs(x))) or 1.0
    if K >= 1 and not (np.max(np.abs(A[:K + 1] - a[:K + 1])) <= 1e-11 * sc and np.max(np.abs(B[:K + 1] - b[:K + 1])) <= 1e-11 * sc
                       and O.band_index(A, B, nyq, sc) == K):
        raise AssertionError('C14 oracle self-check failed: projection does not recover the synthesised harmonics '
                             '(N=%d K=%d)' % (N, K))
    return x, K, Kmax, kmode


def drive_fourier(eqsig, ctx, rng, dt, target, fam, N, even, kmode=None, kcap=None, sc=None):
    x, K, Kmax, kmode = synth_for(eqsig, rng, N, dt, target, even, kmode, kcap=kcap, pilot=sc)
    form = None
    vals = x
    r = rng.random() if kcap is None else 1.0        # very long records stay float64 (few harmonics: cheap reference)
    m_ = float(np.max(np.abs(x)))
    if not (1e-30 < m_ < 1e30) and r >= 0.06:          # extreme scales: float64 / python containers / views only
        r = 1.0
    if kmode in ('silent', 'one-signed'):
        ctx.observe('fourier.workload %s record' % kmode)
        if kcap is None and rng.random() < 0.5:        # Python list / tuple forms of silent and one-signed records
            r = 0.0
    if r == 0.0:
        form = ['list', 'tuple'][int(rng.integers(2))]
        vals = make_form(rng, x, form)
    elif r < 0.06:
        form = ['list', 'tuple', 'view-stride2', 'view-reversed', 'readonly'][int(rng.integers(5))]
        vals = make_form(rng, x, form)                   # same float64 numbers: still band-limited
    elif r < 0.12:
        form = 'f32'                                     # float32-rounded samples, judged with 64*eps32
        vals = make_form(rng, x, form)
    elif r < 0.18:
        # integer records of every width (quantised: band-limited only where every harmonic of the record is below
        # both Nyquist frequencies, i.e. odd npts without decimation; otherwise only the step rule is judged)
        form = ['i64', 'i32', 'i16', 'i8', 'u8', 'u16', 'list-int', 'bool', 'list-bool'][int(rng.integers(9))]
        vals = make_form(rng, x, form)
    even = pick_even(rng, even)
    ctx.case(core.digest(np.asarray(vals, dtype=float), dt, target, bool(even), 'fourier', form,
                         None if sc is None else (_sform(sc[0]), _sform(sc[1])), _sform(even)), nontrivial=K >= 1,
             cls='fourier/%s/%s' % (kmode, fam),
             sample={'fn': 'resample_to_approx_dt', 'n': N, 'dt': dt, 'target_dt': target, 'even': even, 'K': K,
                     'Kmax': Kmax, 'form': form or 'f64', 'head': x[:6],
                     'scalar_forms': None if sc is None else [_sform(sc[0]), _sform(sc[1]), _sform(even)]})
    if form in ('bool', 'list-bool'):
        ctx.ok('bool-record.monitored-call')
    if sc is not None:
        dt, target = sc
    if rng.random() < 0.2:
        given = out_of_band_settings(dt)
        kept = {k: v.copy() for k, v in given.items()}
        asig = make_sig(eqsig, ctx, vals, dt, **given)
        if asig is not None:
            call_obj(eqsig.resample_to_approx_dt, rng, asig, target, even)
            check_settings(ctx, asig, given, kept, 'resample_to_approx_dt', vals, dt, target, even)
        return
    asig = make_sig(eqsig, ctx, vals, dt)
    if asig is not None:
        call_obj(eqsig.resample_to_approx_dt, rng, asig, target, even)


def fourier_matrix():
    """even x odd/even npts x odd/even refinement factors x stride-divisible (and non-divisible) decimations."""
    M = []
    for dt in (0.01, 0.005, 1.0 / 93, 0.02):
        for k in range(1, 9):                               # refinement by k: exact and non-commensurate target
            for tgt, f in ((dt / k, 'matrix-refine-exact'), (dt / (k - 0.4), 'matrix-refine-between')):
                for N in (9, 10, 24, 25, 63, 64, 100, 101):
                    M.append((dt, tgt, f, N))
        for m in range(2, 8):                               # decimation by m
            for c in (3, 4, 7, 8, 15, 16):                  # N/m odd and even -> N odd and even
                M.append((dt, dt * m, 'matrix-decimate-divisible', m * c))
                M.append((dt, dt * (m + 0.5), 'matrix-decimate-divisible', m * c))
            for N in (2 * m + 1 + (1 if (2 * m + 1) % m == 0 else 0), 5 * m + 1, 8 * m + m - 1, 13 * m + 2):
                if N % m:
                    M.append((dt, dt * m, 'matrix-decimate-nondivisible', N))
    return M


# ------------------------------------------------------------------------------------------ histories and process state
def _targets_for(rng, dt, n):
    """A target inside the quantifier for a record of n samples."""
    for _ in range(20):
        r = int(rng.integers(6))
        if r == 0:
            t = dt / int(rng.integers(1, 6))
        elif r == 1:
            t = dt * int(rng.integers(1, 5))
        elif r == 2:
            t = dt / (int(rng.integers(1, 6)) * (1.0 + float(rng.choice([-1, 1])) * 10.0 ** (-int(rng.integers(3, 13)))))
        elif r == 3:
            t = dt * (int(rng.integers(1, 5)) * (1.0 + float(rng.choice([-1, 1])) * 10.0 ** (-int(rng.integers(3, 13)))))
        elif r == 4:
            t = dt * float(rng.uniform(0.2, 4.5))
        else:
            t = 0.01
        if O.in_domain(n, dt, t) and dt / t <= 12:
            return float(t)
    return float(dt)


def drive_history(eqsig, ctx, rng):
    """Several monitored calls on one AccSignal (and on twins built from the same caller array / from each other's values)
    in random order with repeats, interleaved with reads of cached quantities, public mutators and regenerations. Every
    call is judged by the monitors against the snapshot they take at call entry."""
    dt = [0.01, 0.005, 0.02, 1.0 / 93, 0.004][int(rng.integers(5))] if rng.random() < 0.7 else gen.dt(rng)
    N = int(rng.integers(48, 260))
    x, a, b, K = synth_bandlimited(rng, N, max(1, N // 12), 'top', scales=False)
    caller = x.copy()
    snap0 = _snapshot(caller)
    objs = [make_sig(eqsig, ctx, caller, dt), make_sig(eqsig, ctx, caller, dt)]
    if objs[0] is None or objs[1] is None:
        return
    objs.append(make_sig(eqsig, ctx, objs[0].values, dt))
    ctx.case(core.digest(x, dt, 'history'), nontrivial=True, cls='history',
             sample={'fn': 'history on one AccSignal + twins', 'n': N, 'dt': dt, 'head': x[:6]})
    ops = ['interp', 'resample', 'interp', 'resample', 'spectrum', 'read', 'read', 'reset-same', 'reset-shorter',
           'reset-longer', 'mutate', 'regen', 'chain-interp', 'chain-resample', 'deepcopy-mutate', 'fas2signal']
    for step in range(int(rng.integers(6, 16))):
        o = objs[0] if rng.random() < 0.45 else objs[int(rng.integers(1, len(objs)))]
        op = ops[int(rng.integers(len(ops)))]
        try:
            n_now = len(o.values)
            dt_now = float(o.dt)
        except Exception:
            break
        even = pick_even(rng, rng.random() < 0.5)
        if op == 'interp':
            call_obj(eqsig.interp_to_approx_dt, rng, o, _targets_for(rng, dt_now, n_now), even)
            ctx.ok('history.monitored-call')
        elif op == 'resample':
            call_obj(eqsig.resample_to_approx_dt, rng, o, _targets_for(rng, dt_now, n_now), even)
            ctx.ok('history.monitored-call')
        elif op in ('chain-interp', 'chain-resample'):
            # objects derived by the library itself from an analysed ("warm") object are analysed in turn; correcting the
            # derived object in place must leave the object it was derived from alone
            f = eqsig.interp_to_approx_dt if op == 'chain-interp' else eqsig.resample_to_approx_dt
            before = _snapshot(o.values)
            r = call_obj(f, rng, o, _targets_for(rng, dt_now, n_now), even)
            ctx.ok('history.monitored-call')
            try:
                ok_len = r is not None and 24 <= len(r.values) <= 1500
            except Exception:
                ok_len = False
            if ok_len:
                if rng.random() < 0.5 and isinstance(r.values, np.ndarray) and r.values.flags.writeable:
                    r.values[:] = r.values * 0.5 + 1.0              # in-place correction of the derived object
                    ctx.check(_unchanged(o.values, before), 'purity.correcting-the-result-leaves-the-argument',
                              lambda: _wit(op, before, dt_now, dt_now, even, values_after=np.asarray(o.values)),
                              'changing the values of the object returned by %s in place changed the argument object' % op)
                if len(objs) < 7:
                    objs.append(r)
        elif op == 'deepcopy-mutate':
            o2 = copy.deepcopy(o)
            _swallow(o2.add_constant, float(rng.normal()))
            if rng.random() < 0.5:
                _swallow(o2.reset_values, make_record(rng, max(24, n_now - int(rng.integers(0, 9))))[0])
            if len(objs) < 7:
                objs.append(o2)
        elif op == 'fas2signal':
            # complex-valued records as the library's own fas2signal produces them
            fas = _swallow(lambda: o.fa_spectrum)
            o2 = None if fas is None or len(fas) < 13 or len(fas) > 800 else \
                _swallow(eqsig.fas2signal, fas, dt_now, stype='acc')
            if o2 is not None and len(objs) < 7:
                objs.append(o2)
                ctx.observe('history: complex record from fas2signal added')
        elif op == 'spectrum':
            VIA['consumer'] = True
            try:
                t = dt_now / float(rng.choice([1.5, 2.0, 3.0, 2.9999999, 4.0]))
                _swallow(o.gen_response_spectrum, response_times=np.array([20.0 * t, 1.0, 2.0]),
                         min_dt_ratio=float(rng.choice([1000.0, 4.0, 2.0])))
                _swallow(lambda: o.s_a)
            finally:
                VIA['consumer'] = False
            ctx.ok('history.monitored-call')
        elif op == 'read':
            for nm in ('velocity', 'displacement', 'fa_spectrum', 'pga', 'time', 'npts', 'smooth_fa_spectrum')[:int(rng.integers(2, 8))]:
                _swallow(getattr, o, nm)
        elif op in ('reset-same', 'reset-shorter', 'reset-longer'):
            n_new = {'reset-same': n_now, 'reset-shorter': max(24, n_now // 2 + int(rng.integers(0, 5))),
                     'reset-longer': n_now + int(rng.integers(1, 90))}[op]
            if rng.random() < 0.7:
                xn = synth_bandlimited(rng, n_new, max(1, n_new // 12), 'top', scales=False)[0]
            else:
                xn = make_record(rng, n_new)[0]
            _swallow(o.reset_values, xn)                  # a fresh array each time: ownership is C05's business
        elif op == 'mutate':
            r = int(rng.integers(5))
            if r == 0:
                _swallow(o.add_constant, float(rng.normal()))
            elif r == 1:
                _swallow(o.remove_poly, int(rng.integers(0, 3)))
            elif r == 2:
                _swallow(o.remove_average)
            elif r == 3:
                _swallow(o.add_series, rng.normal(size=n_now) * 0.1)
            else:
                _swallow(o.running_average, 3)
        else:   # explicit regenerations with non-default options
            _swallow(o.gen_fa_spectrum, p2_plus=int(rng.integers(0, 3)))
            _swallow(o.generate_displacement_and_velocity_series, trap=bool(rng.random() < 0.5))
    ctx.check(_unchanged(caller, snap0), 'purity.caller-array-unchanged',
              lambda: _wit('history', snap0, dt, dt, True, values_after=caller),
              'the caller array given to AccSignal(...) changed during a history of resampling calls')


def drive_back_to_back(eqsig, ctx, rng, pairs):
    """f(A); f(B); f(A): the first result, still held, is compared with its copy AFTER the second call, and the repeat of the
    first call must return identical bits. B is another draw of the same recipe with the same shape, with another shape,
    with another factor but the SAME output length (a grid memoised on the output length alone), or the same record with
    other options (target / even)."""
    variant = ['same-shape', 'other-shape', 'same-output-length', 'other-options'][int(rng.choice(4, p=[.35, .25, .2, .2]))]
    if rng.random() < 0.4:
        dt, target, fam = pairs[int(rng.integers(len(pairs)))]
    else:
        dt, target, fam = random_pair(rng, max_ratio=40.0)
    if dt / target > 40 or target / dt > 100:
        return
    n = lengths(rng, dt, target, 1, span=150)[0]
    even = bool(rng.random() < 0.5)
    dt2, target2, n2, even2 = dt, target, n, even
    if variant == 'other-shape':
        n2 = lengths(rng, dt, target, 1, span=150)[0]
        if n2 == n:
            n2 = n + 1 + int(rng.integers(0, 40))
    elif variant == 'same-output-length':
        k, k2 = [int(v) for v in rng.choice(np.arange(1, 8), size=2, replace=False)]
        c = int(rng.integers(3, 60))
        if rng.random() < 0.5:          # refining by k and by k2: n*k == n2*k2
            target, target2, n, n2 = dt / k, dt / k2, k2 * c, k * c
        else:                           # decimating by k and by k2: n/k == n2/k2
            target, target2, n, n2 = dt * k, dt * k2, k * c, k2 * c
        if not (O.in_domain(n, dt, target) and O.in_domain(n2, dt2, target2)):
            ctx.observe('driver: same-output-length pair outside the quantifier (skipped)')
            return
    elif variant == 'other-options':
        if rng.random() < 0.4:
            even2 = not even
        else:
            target2 = _targets_for(rng, dt, n)
            even2 = bool(rng.random() < 0.5)
    kind = ['array', 'object', 'fourier'][int(rng.integers(3))]
    if kind == 'fourier':
        if n * max(1.0, dt / target) > 40000 or n2 * max(1.0, dt2 / target2) > 40000:
            return
        x1 = synth_for(eqsig, rng, n, dt, target, even)[0]
        x2 = x1.copy() if variant == 'other-options' else synth_for(eqsig, rng, n2, dt2, target2, even2)[0]
    else:
        x1 = make_record(rng, n)[0]
        x2 = x1.copy() if variant == 'other-options' else make_record(rng, n2)[0]

    def run(x, dt_, target_, even_):
        if kind == 'array':
            r = _swallow(eqsig.interp_array_to_approx_dt, x, dt_, target_dt=target_, even=even_)
            return None if r is None else (r[0], r[1], None)
        s = make_sig(eqsig, ctx, x, dt_)
        r = None if s is None else _swallow(eqsig.interp_to_approx_dt if kind == 'object' else eqsig.resample_to_approx_dt,
                                            s, target_, even=even_)
        return None if r is None else (r.values, r.dt, r)
    ctx.case(core.digest(x1, x2, dt, target, even, target2, even2, kind), nontrivial=bool(np.ptp(x1) > 0 or np.ptp(x2) > 0),
             cls='back-to-back/%s/%s/%s' % (variant, kind, fam),
             sample={'fn': 'back-to-back:' + kind, 'variant': variant, 'n': n, 'dt': dt, 'target_dt': target, 'even': even,
                     'n2': n2, 'target_dt2': target2, 'even2': even2, 'head': x1[:6]})
    r1 = run(x1, dt, target, even)
    if r1 is None:
        return
    try:
        keep = (np.array(r1[0], copy=True), r1[1])
    except Exception:
        return
    r2 = run(x2, dt2, target2, even2)
    snap1 = _snapshot(x1)
    w = lambda **kw: dict(_wit({'array': 'interp_array_to_approx_dt', 'object': 'interp_to_approx_dt',
                                'fourier': 'resample_to_approx_dt'}[kind], snap1, dt, target, even), second_values=x2,
                          second_dt=dt2, second_target_dt=target2, second_even=even2, variant=variant,
                          scenario='back-to-back', **kw)
    sfx = '' if variant == 'same-shape' else '/varied-second-call'
    desc = '%s, second call %s (n=%d dt=%r target_dt=%r even=%r; then n=%d target_dt=%r even=%r)' % (
        kind, variant, n, dt, target, even, n2, target2, even2)
    intact = isinstance(r1[0], np.ndarray) and r1[0].shape == keep[0].shape and r1[0].tobytes() == keep[0].tobytes() \
        and r1[1] == keep[1]
    if intact and r2 is not None and isinstance(r2[0], np.ndarray):
        intact = not np.shares_memory(r1[0], r2[0])
    ctx.check(intact, 'state.first-result-intact-after-second-call' + sfx, w,
              'the result of the first call changed (or shares memory with the second result) after a second call: ' + desc)
    # a result belongs to the caller: every array of the first (and second) result is overwritten before the repeat
    overwritten = 0
    for res in (r1, r2):
        if res is None:
            continue
        arrs = [res[0], res[1]] + ([] if res[2] is None else list(vars(res[2]).values()))
        for a_ in arrs:
            if isinstance(a_, np.ndarray) and a_.flags.writeable and a_.dtype.kind in 'fc' and a_.size:
                a_[...] = -7.25e3
                overwritten += 1
    r3 = run(x1, dt, target, even)
    if r3 is not None:
        same = isinstance(r3[0], np.ndarray) and r3[0].shape == keep[0].shape and r3[0].tobytes() == keep[0].tobytes() \
            and r3[1] == keep[1]
        ctx.check(same, 'state.repeat-call-identical' + sfx, w,
                  'repeating the first call after another call gave a different result: ' + desc)
        if overwritten:
            ctx.check(same, P_OWNED, lambda: w(overwrote_results_with=-7.25e3),
                      'after every array of the earlier results was overwritten by the caller, the same call returned a '
                      'different result (a table handed out by reference): ' + desc)


# ------------------------------------------------------------------ ends of the admissible range of the target step
def edge_case(rng):
    """(dt, target, n, family): the target within 1e-3 (down to a few ulps, and exactly) of the end of its admissible range
    duration/2; the shortest records of all (3..6 samples); the largest factors the record length admits."""
    dt = gen.dt(rng)
    if rng.random() < 0.2:
        dt = dt * 10.0 ** rng.uniform(-6, 3)
    r = int(rng.integers(5))
    dsel = int(rng.integers(4))
    delta = [0.0, 10.0 ** (-int(rng.integers(3, 16))), float(rng.uniform(0.0, 1e-3)), 0.0][dsel]
    if r == 0:                                          # decimation: target just below / at half the duration
        n = int(rng.integers(5, 300))
        half = (n - 1) * dt / 2.0
        target = _step_ulps(half, -int(rng.integers(1, 4))) if dsel == 3 else half * (1.0 - delta)
        fam = 'edge/target-at-half-duration'
    elif r == 1:                                        # the three-sample record: duration == 2*dt, target at / just below dt
        n = 3 if rng.random() < 0.7 else 4
        target = _step_ulps(dt, -int(rng.integers(1, 4))) if dsel == 3 else dt * (1.0 - delta)
        fam = 'edge/three-samples'
    elif r == 2:                                        # shortest records, refined by k (quotient on either side of k)
        n = int(rng.integers(3, 7))
        k = int(rng.integers(1, 61))
        sgn = 1.0 if rng.random() < 0.5 else -1.0
        target = dt / (k * (1.0 + sgn * delta))
        if target > dt:
            target = dt
        fam = 'edge/shortest-refined'
    elif r == 3:                                        # the largest decimation factor a longer record admits
        m = int(rng.integers(100, 1500))
        n = 2 * m + 1 + int(rng.integers(0, 4))
        target = dt * m if rng.random() < 0.5 else (n - 1) * dt / 2.0 * (1.0 - delta)
        fam = 'edge/largest-decimation'
    else:                                               # refinement factors 300..2000 on a short record
        n = int(rng.integers(3, 12))
        k = int(rng.integers(300, 2000))
        target = dt / k if rng.random() < 0.5 else dt / (k * (1.0 + (1.0 if rng.random() < 0.5 else -1.0) * max(delta, 1e-13)))
        fam = 'edge/largest-refinement'
    return float(dt), float(target), int(n), fam


# ------------------------------------------------------------------ calls the library rejects or that lie outside the quantifier
BAD_TARGETS = [0.0, -0.01, None, 'a', float('nan'), float('inf'), [0.01], np.array([0.01]), np.array([0.01, 0.02])]


def drive_rejected(eqsig, ctx, rng):
    """Array-level calls outside the quantifier (non-finite samples, records shorter than two target steps, unusable
    targets): no value is judged; the monitors compare the argument with its entry snapshot after the return or the raise."""
    n = int(rng.integers(8, 120))
    x = make_record(rng, n, scales=False)[0]
    dt = gen.dt(rng)
    target = _targets_for(rng, dt, n)
    r = int(rng.integers(4))
    if r == 0:        # non-finite samples (accepted silently by the library)
        for j in rng.integers(0, n, size=int(rng.integers(1, 4))):
            x[int(j)] = [np.nan, np.inf, -np.inf][int(rng.integers(3))]
        kind = 'non-finite'
    elif r == 1:      # shorter than two target steps
        x = x[:int(rng.integers(0, 3))]
        kind = 'too-short'
    elif r == 2:
        target = _freeze(BAD_TARGETS[int(rng.integers(len(BAD_TARGETS)))])
        kind = 'unusable-target'
    else:             # unusable time step
        dt = [0.0, -0.01, float('nan'), np.array([0.01]), np.array(0.0)][int(rng.integers(5))]
        kind = 'unusable-dt'
    form = [None, 'list', 'tuple', 'readonly', 'view-stride2', 'f32'][int(rng.integers(6))]
    vals = x if (form is None or len(x) == 0) else make_form(rng, x, form)
    ctx.observe('workload rejected/out-of-domain: %s' % kind)
    with np.errstate(all='ignore'):
        if rng.random() < 0.6:
            _swallow(eqsig.interp_array_to_approx_dt, vals, dt, target_dt=target, even=bool(rng.random() < 0.5))
        else:
            s = None
            try:
                with attach.paused():
                    s = eqsig.AccSignal(vals, dt)
            except Exception:
                s = None
            if s is not None:
                f = eqsig.interp_to_approx_dt if rng.random() < 0.5 else eqsig.resample_to_approx_dt
                _swallow(f, s, target, even=bool(rng.random() < 0.5))


# ------------------------------------------------------------------ object protocols, assignments, operations that raise
WARM = ['cold', 'fas', 'smooth', 'veldisp', 'peaks', 'response', 'stockwell', 'resampled', 'all']
PROTOS = ['copy', 'deepcopy', 'pickle']
ORDERS = ['copy-first', 'orig-first']
CALL_FNS = ['interp_to_approx_dt', 'resample_to_approx_dt']
P_TWIN = 'protocol.copied-object-result==fresh-twin'
P_ASSIGN = 'protocol.after-assignment-result==fresh-twin'
P_RAISE = 'protocol.after-raise-result==fresh-twin'


def _bandlimited_record(rng, n):
    return synth_bandlimited(rng, n, max(1, n // 12), 'top', scales=False)[0]


def protocol_spec(rng, warm, proto, order):
    """A scripted scenario as plain data (complete inputs: replay re-runs it): one AccSignal in a given cache state, copied
    by copy.copy / copy.deepcopy / a pickle round trip; then, on the copy and on the original in the given order, reads,
    rebinding mutators, assignments through the public attribute names, operations that raise, and the monitored calls."""
    dt = [0.01, 0.005, 0.02, 1.0 / 93, 0.004, 1.0 / 256, 1.0 / 3, 1.0 / 120][int(rng.integers(8))] if rng.random() < 0.7 \
        else gen.dt(rng)
    N = int(rng.integers(48, 200))
    steps = []
    spec = {'values': _bandlimited_record(rng, N), 'dt': float(dt), 'warm': warm, 'proto': proto, 'order': order,
            'steps': steps}
    n = {'orig': N, 'copy': N}
    seq = ['copy', 'orig'] if order == 'copy-first' else ['orig', 'copy']

    def calls(who):
        for i in rng.permutation(2):
            steps.append({'who': who, 'op': 'call', 'fn': CALL_FNS[int(i)], 'target': _targets_for(rng, dt, n[who]),
                          'even': bool(rng.random() < 0.5), 'style': int(rng.integers(3))})

    def reset(who):
        n_new = [n[who], max(24, n[who] // 2 + int(rng.integers(0, 5))), n[who] + int(rng.integers(1, 60))][int(rng.integers(3))]
        xn = _bandlimited_record(rng, n_new) if rng.random() < 0.8 else make_record(rng, n_new, scales=False)[0]
        steps.append({'who': who, 'op': 'reset', 'values': xn})
        n[who] = n_new
    ops = ['read', 'reset', 'add_constant', 'assign-values', 'assign-dt', 'assign-npts', 'raise-add_series',
           'raise-add_signal', 'nonfinite', 'bad-target', 'raise-spectrum']
    ops_p = np.array([.12, .14, .06, .2, .06, .04, .1, .08, .07, .09, .04])
    for j, who in enumerate(seq):
        for i in range(int(rng.integers(1, 4))):
            op = ops[int(rng.choice(len(ops), p=ops_p / ops_p.sum()))]
            if proto == 'copy' and j == 0 and i == 0:
                op = 'reset'                 # a shallow copy shares the buffer: rebind one side first
            if op == 'read':
                steps.append({'who': who, 'op': 'read', 'kind': WARM[1 + int(rng.integers(len(WARM) - 3))]})
            elif op == 'reset':
                reset(who)
            elif op == 'add_constant':
                steps.append({'who': who, 'op': 'add_constant', 'c': float(rng.normal())})
            elif op == 'assign-values':
                ln = [n[who], n[who] + 7, max(24, n[who] - 5), 1, 2, 3][int(rng.choice(6, p=[.3, .25, .25, .07, .07, .06]))]
                steps.append({'who': who, 'op': 'assign-values', 'container': ['list', 'tuple', 'ndarray'][int(rng.integers(3))],
                              'values': _bandlimited_record(rng, ln) if ln >= 24 else rng.normal(size=ln)})
            elif op == 'assign-dt':
                steps.append({'who': who, 'op': 'assign-dt', 'value': float([dt * 2, dt / 2, 0.01, dt][int(rng.integers(4))])})
            elif op == 'assign-npts':
                steps.append({'who': who, 'op': 'assign-npts', 'value': int(n[who] // 2)})
            elif op == 'raise-add_series':
                steps.append({'who': who, 'op': 'raise-add_series', 'len': int(n[who] + [3, -1, -n[who] + 1][int(rng.integers(3))]),
                              'container': ['list', 'ndarray'][int(rng.integers(2))]})
            elif op == 'raise-add_signal':
                steps.append({'who': who, 'op': 'raise-add_signal',
                              'mode': ['other-dt', 'not-a-signal', 'other-length'][int(rng.integers(3))]})
            elif op == 'nonfinite':
                xn = _bandlimited_record(rng, n[who])
                xn[int(rng.integers(n[who]))] = [np.nan, np.inf, -np.inf][int(rng.integers(3))]
                steps.append({'who': who, 'op': 'nonfinite', 'values': xn})
                calls(who)                   # outside the quantifier: only the purity of the call is judged
                reset(who)
            elif op == 'bad-target':
                steps.append({'who': who, 'op': 'bad-target', 'fn': CALL_FNS[int(rng.integers(2))],
                              'target': _freeze(BAD_TARGETS[int(rng.integers(len(BAD_TARGETS)))]),
                              'even': bool(rng.random() < 0.5)})
            else:
                steps.append({'who': who, 'op': 'raise-spectrum', 'mode': ['empty', 'negative-ratio', 'text'][int(rng.integers(3))]})
        calls(who)
    calls(seq[0])                            # the first object once more, after everything that happened to the second
    if rng.random() < 0.5:
        calls(seq[1])
    return spec


def _warm(eqsig, o, kind):
    if kind in ('fas', 'all'):
        _swallow(lambda: o.fa_spectrum)
    if kind in ('smooth', 'all'):
        _swallow(lambda: o.smooth_fa_spectrum)
    if kind in ('veldisp', 'all'):
        _swallow(lambda: o.velocity)
        _swallow(lambda: o.displacement)
    if kind in ('peaks', 'all'):
        for nm in ('pga', 'pgv', 'pgd'):
            _swallow(getattr, o, nm)
    if kind in ('response', 'all'):
        VIA['consumer'] = True
        try:
            _swallow(o.gen_response_spectrum, response_times=np.array([0.2, 0.5, 1.0]))
            _swallow(lambda: o.s_a)
        finally:
            VIA['consumer'] = False
    if kind in ('stockwell', 'all'):
        def _sw():
            o.swtf = eqsig.stockwell.transform(o.values)       # memoised on the object, as eqsig.stockwell.plot_stock does
        _swallow(_sw)
    if kind in ('resampled', 'all'):
        n_, dt_ = len(o.values), float(o.dt)
        if O.in_domain(n_, dt_, dt_ / 2.0):
            _swallow(eqsig.interp_to_approx_dt, o, dt_ / 2.0, even=False)
            _swallow(eqsig.resample_to_approx_dt, o, dt_ / 2.0, even=True)


def _same_result(r, rt):
    if (r is None) != (rt is None):
        return False
    if r is None:
        return True
    try:
        a, b = np.asarray(r.values), np.asarray(rt.values)
        return a.shape == b.shape and a.dtype == b.dtype and bool(np.array_equal(a, b, equal_nan=True)) \
            and (r.dt == rt.dt or (r.dt != r.dt and rt.dt != rt.dt)) and type(r) is type(rt)
    except Exception:
        return False


def exec_protocol(eqsig, ctx, spec):
    """Run one scripted scenario. Every monitored call is judged by the monitors against its entry snapshot, and its result is
    compared with the same call on a fresh AccSignal built from (a copy of) the object's own current values and step:
    the result depends on the record, not on how the object came about or on what was tried on it before."""
    import pickle
    x0 = np.array(spec['values'], dtype=float)
    dt0 = spec['dt']
    orig = make_sig(eqsig, ctx, x0.copy(), dt0)
    if orig is None:
        return
    SCEN['spec'] = spec
    try:
        with np.errstate(all='ignore'):
            _warm(eqsig, orig, spec['warm'])
            try:
                if spec['proto'] == 'copy':
                    cp = copy.copy(orig)
                elif spec['proto'] == 'deepcopy':
                    cp = copy.deepcopy(orig)
                else:
                    cp = pickle.loads(pickle.dumps(orig, protocol=pickle.HIGHEST_PROTOCOL if len(x0) % 2 else 2))
            except Exception as e:
                ctx.observe('protocol: %s of an AccSignal failed (%s; not this property)' % (spec['proto'], type(e).__name__))
                return
            objs = {'orig': orig, 'copy': cp}
            flags = {'orig': set(), 'copy': set()}
            unshared = spec['proto'] != 'copy'
            for i, st in enumerate(spec['steps']):
                o = objs[st['who']]
                op = st['op']
                if op == 'call':
                    if not unshared:
                        try:
                            unshared = not np.shares_memory(orig.values, cp.values)
                        except Exception:
                            unshared = False
                        if not unshared:
                            ctx.observe('protocol: shallow copy still shares its buffer (call skipped)')
                            continue
                    _protocol_call(eqsig, ctx, spec, i, st, o, flags[st['who']])
                elif op == 'read':
                    _warm(eqsig, o, st['kind'])
                elif op in ('reset', 'nonfinite'):
                    _swallow(o.reset_values, np.array(st['values'], dtype=float))
                    if op == 'nonfinite':
                        flags[st['who']].add('raise')
                elif op == 'add_constant':
                    _swallow(o.add_constant, st['c'])
                elif op in ('assign-values', 'assign-dt', 'assign-npts'):
                    flags[st['who']].add('assign')
                    if op == 'assign-values':
                        v = np.array(st['values'], dtype=float)
                        v = v.tolist() if st['container'] == 'list' else tuple(v.tolist()) if st['container'] == 'tuple' else v
                        name = 'values'
                    else:
                        v, name = st['value'], op.split('-')[1]
                    try:
                        setattr(o, name, v)
                        ctx.observe('protocol: assignment to .%s accepted or ignored' % name)
                    except Exception:
                        ctx.observe('protocol: assignment to .%s refused' % name)
                elif op == 'raise-add_series':
                    flags[st['who']].add('raise')
                    ser = np.full(max(0, st['len']), 0.25)
                    _swallow(o.add_series, ser.tolist() if st['container'] == 'list' else ser)
                elif op == 'raise-add_signal':
                    flags[st['who']].add('raise')
                    n_ = len(o.values)
                    other = {'other-dt': lambda: eqsig.AccSignal(np.ones(n_), float(o.dt) * 2.0),
                             'other-length': lambda: eqsig.AccSignal(np.ones(n_ + 5), o.dt),
                             'not-a-signal': lambda: np.ones(n_)}[st['mode']]
                    _swallow(lambda: o.add_signal(other()))
                elif op == 'bad-target':
                    flags[st['who']].add('raise')
                    _swallow(getattr(eqsig, st['fn']), o, _freeze(st['target']), even=st['even'])
                elif op == 'raise-spectrum':
                    flags[st['who']].add('raise')
                    kw = {'empty': dict(response_times=[]), 'negative-ratio': dict(response_times=np.array([0.05, 1.0]), min_dt_ratio=-4.0),
                          'text': dict(response_times='abc')}[st['mode']]
                    _swallow(o.gen_response_spectrum, **kw)
    finally:
        SCEN['spec'] = None


def _protocol_call(eqsig, ctx, spec, i, st, o, flags):
    f = getattr(eqsig, st['fn'])
    target, even = st['target'], st['even']
    try:
        vals0 = np.array(o.values, copy=True)
        dtv = o.dt
    except Exception:
        ctx.observe('protocol: object has no readable values / dt (call skipped)')
        return
    if st['style'] == 0:
        r = _swallow(f, o, target, even)
    elif st['style'] == 1:
        r = _swallow(f, o, target_dt=target, even=even)
    else:
        r = _swallow(f, asig=o, target_dt=target, even=even)
    ctx.ok('protocol.monitored-call')
    try:
        with attach.paused():
            twin = eqsig.AccSignal(vals0, dtv)
            rt = _swallow(f, twin, target, even=even)
    except Exception:
        ctx.observe('protocol: fresh twin could not be built (relation skipped)')
        return
    same = _same_result(r, rt)
    w = lambda: _wit(st['fn'], _snapshot(vals0), dtv, target, even, step=i, who=st['who'],
                     got_len=None if r is None else len(r.values), got_dt=None if r is None else r.dt,
                     twin_len=None if rt is None else len(rt.values), twin_dt=None if rt is None else rt.dt)
    msg = ('step %d: %s(%s of an AccSignal [%s, cache state %s, %s], target_dt=%r, even=%r) -> %s but a fresh AccSignal with the '
           'same values (n=%d) and dt=%r gives %s' % (
               i, st['fn'], st['who'], spec['proto'], spec['warm'], spec['order'], target, even,
               'raised' if r is None else '(len %d, dt %r)' % (len(r.values), r.dt), len(vals0), dtv,
               'raises' if rt is None else '(len %d, dt %r)' % (len(rt.values), rt.dt)))
    ctx.check(same, P_TWIN, w, msg)
    if 'assign' in flags:
        ctx.check(same, P_ASSIGN, w, 'after an assignment through a public attribute name: ' + msg)
    if 'raise' in flags:
        ctx.check(same, P_RAISE, w, 'after an operation that raised (or a non-finite record in between): ' + msg)


def drive_protocol(eqsig, ctx, rng, idx=None):
    combos = [(a, b, c) for a in WARM for b in PROTOS for c in ORDERS]
    warm, proto, order = combos[idx % len(combos)] if idx is not None else combos[int(rng.integers(len(combos)))]
    spec = protocol_spec(rng, warm, proto, order)
    ctx.case(core.digest(spec), nontrivial=True, cls='protocol/%s/%s/%s' % (proto, warm, order),
             sample={'fn': 'protocol scenario', 'proto': proto, 'warm': warm, 'order': order, 'n': len(spec['values']),
                     'dt': spec['dt'], 'ops': [t['op'] for t in spec['steps']], 'head': spec['values'][:6]})
    exec_protocol(eqsig, ctx, spec)


def run_shard(ctx):
    eqsig = core.import_eqsig()
    install(ctx)
    rng = ctx.rng
    quick = ctx.tier == 'quick'
    # ---------------------------------------------------------------- interpolation: static pairs
    pairs = static_pairs()
    reps = 2 if quick else 24
    c = ctx.shard
    for i in core.split_range(len(pairs), ctx.shard, ctx.nshards):
        dt, target, fam = pairs[i]
        ns = lengths(rng, dt, target, reps)
        if (i // ctx.nshards) % 2 == 0:
            ns.append(n_min(dt, target))                     # the shortest record of the quantifier, on purpose
        for n in ns:
            for even in (True, False):
                c += 1
                drive_interp(eqsig, ctx, rng, dt, target, fam, n, even, c)
    # ---------------------------------------------------------------- interpolation: random families
    n_rand = (13000 if quick else 300000) // ctx.nshards + 1
    for r in range(n_rand):
        dt, target, fam = random_pair(rng)
        n = lengths(rng, dt, target, 1)[0]
        even = bool(rng.random() < 0.5)
        c += 1
        drive_interp(eqsig, ctx, rng, dt, target, fam, n, even, c)
    # awkward counts: npts a multiple of the decimation factor m for which fl(1/m)*npts is not an integer
    awk = awkward_counts()
    sel = [awk[int(v)] for v in rng.choice(len(awk), size=(24 if quick else 400), replace=False)]
    sel += [t for t in awk if t[2] == 'above'][ctx.shard::ctx.nshards][:(12 if quick else 200)]
    for (m, n, side) in sel:
        dt = [2.0 ** -7, 0.01, 0.005, 1.0 / 93, 2.0 ** -9, 0.004][int(rng.integers(6))]
        for even in (True, False):
            c += 1
            drive_interp(eqsig, ctx, rng, dt, dt * m, 'awkward-count-' + side, n, even, c)
    # every container / dtype / layout form at least a few times per shard, array- and object-level
    for form in FORMS:
        for r in range(3 if quick else 30):
            dt, target, fam = random_pair(rng, max_ratio=30.0)
            n = lengths(rng, dt, target, 1, span=80)[0]
            c += 1
            drive_interp(eqsig, ctx, rng, dt, target, fam + '/form', n, bool(rng.random() < 0.5), c, form=form)
    # long records, interpolation only: realistic lengths and a few past 2**16
    for r in range(6 if quick else 60):
        dt, target, fam = random_pair(rng, max_ratio=(60.0 if r >= 2 else 4.0))
        extra = int(rng.integers(2000, 12000)) if r >= 2 else 2 ** 16 + int(rng.integers(-1, 3000))
        n = lengths(rng, dt, target, 1)[0] + extra
        c += 4 - c % 4                                       # array mode
        drive_interp(eqsig, ctx, rng, dt, target, fam + ('/long' if r >= 2 else '/past-2**16'), n,
                     bool(rng.random() < 0.5), c)
    # ends of the admissible range: target at / within 1e-3 of half the duration, 3..6-sample records, largest factors
    edges_fourier = []
    for r in range(40 if quick else 800):
        dt, target, n, fam = edge_case(rng)
        if not O.in_domain(n, dt, target):
            ctx.observe('driver: edge case outside the quantifier (skipped)')
            continue
        for even in (True, False):
            c += 1
            drive_interp(eqsig, ctx, rng, dt, target, fam, n, even, c)
            ctx.ok('edge.monitored-call')
        if fam in ('edge/three-samples', 'edge/shortest-refined', 'edge/target-at-half-duration') and n * max(1.0, dt / target) < 4000:
            edges_fourier.append((dt, target, fam, n))
    # silent (all-zero) and strictly one-signed records in every container form, array- and object-level
    for form in (None, 'list', 'tuple', 'list-int', 'f32', 'i16', 'readonly', 'view-stride2'):
        for r in range(2 if quick else 20):
            dt, target, fam = random_pair(rng, max_ratio=30.0)
            n = lengths(rng, dt, target, 1, span=80)[0]
            for even in (True, False):
                c += 1
                drive_interp(eqsig, ctx, rng, dt, target, fam + '/silent-or-one-signed', n, even, c, form=form,
                             rec=('silent' if r % 2 == 0 else 'one-sided'))
                ctx.ok('silent-or-one-signed.monitored-call')
    # scalar forms of the two steps and of the flag (audit checklist 28): NumPy scalars, 0-d arrays, integers; array-,
    # object-, consumer-level and Fourier
    for r in range(60 if quick else 1200):
        dts, tgs, dtf, tgf, fam = scalar_pair(rng, pairs)
        if not (dtf > 0 and tgf > 0) or dtf / tgf > 60 or tgf / dtf > 200:
            continue
        n = lengths(rng, dtf, tgf, 1, span=120)[0]
        for even in (True, False):
            c += 1
            drive_interp(eqsig, ctx, rng, dtf, tgf, fam, n, even, c, sc=(_freeze(dts), _freeze(tgs)),
                         form=(['bool', 'list-bool'][r % 2] if r % 10 == 0 else None))
            ctx.ok('scalar-forms.monitored-call')
        if r % 2 == 0 and n <= 600 and n * max(1.0, dtf / tgf) <= 20000:
            drive_fourier(eqsig, ctx, rng, dtf, tgf, fam, n, bool(rng.random() < 0.5), sc=(_freeze(dts), _freeze(tgs)))
            ctx.ok('scalar-forms.monitored-call')
    # a few calls outside the quantifier (target > duration/2): counted by the monitors, never judged (purity is)
    for r in range(5):
        dt, target, fam = random_pair(rng)
        nmin = n_min(dt, target)
        if nmin - 2 >= 2:
            _swallow(eqsig.interp_array_to_approx_dt, rng.normal(size=nmin - 2), dt, target_dt=target, even=False)
    # inputs the library rejects or that lie outside the quantifier: non-finite samples, too short, unusable target / step
    for r in range(50 if quick else 1000):
        drive_rejected(eqsig, ctx, rng)
    # ---------------------------------------------------------------- Fourier: matrix + random
    mat = fourier_matrix()
    for i in core.split_range(len(mat), ctx.shard, ctx.nshards):
        dt, target, fam, N = mat[i]
        if not O.in_domain(N, dt, target):
            continue
        extra = (('one-signed',) if i % 3 == 0 else ()) + (('silent',) if i % 7 == 0 else ())
        for even in (True, False):
            for kmode in (('top', 'low') if quick else ('top', 'low', 'top-only', 'top')) + extra:
                drive_fourier(eqsig, ctx, rng, dt, target, fam, N, even, kmode)
    for (dt, target, fam, N) in edges_fourier:
        for even in (True, False):
            drive_fourier(eqsig, ctx, rng, dt, target, fam, N, even)
            ctx.ok('edge.monitored-call')
    n_four = (1400 if quick else 50000) // ctx.nshards + 1
    done = 0
    tries = 0
    while done < n_four and tries < 20 * n_four:
        tries += 1
        if rng.random() < 0.3:
            dt, target, fam = pairs[int(rng.integers(len(pairs)))]
        else:
            dt, target, fam = random_pair(rng, max_ratio=150.0)
        if dt / target > 40:                                 # keep the output length (and the oracle cost) bounded
            continue
        N = lengths(rng, dt, target, 1, span=120)[0]
        if N > 900 or N * max(1.0, dt / target) > 40000:
            continue
        done += 1
        drive_fourier(eqsig, ctx, rng, dt, target, fam, N, bool(rng.random() < 0.5))
    # Fourier on a record past 2**16 samples (projection by FFT), refinement or divisible decimation by a small factor
    for r in range(1 if quick else 6):
        dt = gen.dt(rng)
        f = int(rng.integers(1, 4))
        if rng.random() < 0.5:
            target, N = dt / f, 2 ** 16 + int(rng.integers(1, 2000))
        else:
            target, N = dt * f, f * (2 ** 16 // f + int(rng.integers(1, 500)))
        drive_fourier(eqsig, ctx, rng, dt, target, 'past-2**16', N, bool(rng.random() < 0.5), 'top', kcap=300)
    # ---------------------------------------------------------------- same-object histories, process-wide state
    for r in range(25 if quick else 500):
        drive_history(eqsig, ctx, rng)
    for r in range(130 if quick else 3200):
        drive_back_to_back(eqsig, ctx, rng, pairs)
    # object protocols x cache states x order (enumerated round robin over the shards), assignments, operations that raise
    n_combo = len(WARM) * len(PROTOS) * len(ORDERS)
    for j in range(14 if quick else 280):
        drive_protocol(eqsig, ctx, rng, idx=(ctx.shard + j * ctx.nshards) if j < (n_combo + ctx.nshards - 1) // ctx.nshards * 2 else None)
    ctx.note('monitored_calls', dict(attach.CALLS))


# ---------------------------------------------------------------------------------------------------- replay
def _rebuild(w):
    cont = w.get('container', 'ndarray')
    if cont in ('list', 'tuple'):
        vals = w.get('py_values')
        if vals is None:
            vals = np.asarray(w['values']).tolist()
        return list(vals) if cont == 'list' else tuple(vals)
    v = np.array(w['values'], copy=True)
    form = w.get('form') or ''
    if 'stride 2' in form:
        v = np.repeat(v, 2)[::2]
    elif 'stride -1' in form:
        v = np.ascontiguousarray(v[::-1])[::-1]
    if 'readonly' in form:
        v.flags.writeable = False
    return v


def replay(w):
    eqsig = core.import_eqsig()
    ctx = core.Ctx(PROP_ID, 'quick', 0, 0, 1)
    install(ctx)
    values = _rebuild(w)
    if w.get('values_dtype') == 'bool' and isinstance(values, np.ndarray):
        values = values.astype(bool)
    sf = w.get('scalar_forms') or {}
    dt, target, even = _smake(sf.get('dt'), w['dt']), _smake(sf.get('target_dt'), w['target_dt']), _smake(sf.get('even'), w['even'])
    fn = w.get('fn')
    f = {'interp_to_approx_dt': eqsig.interp_to_approx_dt, 'resample_to_approx_dt': eqsig.resample_to_approx_dt}.get(fn)

    def run(v, dt=dt, target=target, even=even):
        if f is None:
            r = _swallow(eqsig.interp_array_to_approx_dt, v, _freeze(dt), target_dt=_freeze(target), even=_freeze(even))
            return None if r is None else (r[0], r[1])
        r = _swallow(f, eqsig.AccSignal(v, _freeze(dt)), _freeze(target), even=_freeze(even))
        return None if r is None else (r.values, r.dt)
    if w.get('settings') is not None and f is not None:
        given = {k: np.array(v, dtype=float) for k, v in w['settings'].items()}
        kept = {k: v.copy() for k, v in given.items()}
        o = eqsig.AccSignal(values, _freeze(dt), **given)
        _swallow(f, o, _freeze(target), even=_freeze(even))
        check_settings(ctx, o, given, kept, fn, values, dt, target, even)
    elif w.get('scenario') == 'protocol':
        exec_protocol(eqsig, ctx, w['spec'])
    elif w.get('scenario') == 'back-to-back':
        r1 = run(values)
        if r1 is not None:
            keep = (np.array(r1[0], copy=True), r1[1])
            r2 = run(np.asarray(w['second_values']), w.get('second_dt', dt), w.get('second_target_dt', target),
                     w.get('second_even', even))
            ok1 = r1[0].tobytes() == keep[0].tobytes() and r1[1] == keep[1] and \
                not (r2 is not None and np.shares_memory(r1[0], r2[0]))
            ctx.check(ok1, 'state.first-result-intact-after-second-call', w, 'first result changed after the second call')
            if w.get('overwrote_results_with') is not None:
                for res in (r1, r2):
                    if res is not None and isinstance(res[0], np.ndarray) and res[0].flags.writeable:
                        res[0][...] = w['overwrote_results_with']
            r3 = run(values)
            if r3 is not None:
                ctx.check(r3[0].tobytes() == keep[0].tobytes() and r3[1] == keep[1], 'state.repeat-call-identical', w,
                          'repeated call gave a different result')
    elif fn == 'history':
        pass        # the purity monitors of the individual calls carry their own witnesses
    else:
        run(values)
    return ['%s: %s' % (v['clause'], v['msg']) for v in ctx.violations if not v.get('finding')]
