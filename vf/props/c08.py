"""C08 - velocity / displacement are cumulative trapezoids (rectangles with trap=False); peaks are max |.|.

Monitors (post-conditions on the real functions, wherever the call comes from):
  eqsig.displacements.calc_velo_and_disp_from_accel_arr / velocity_and_displacement_from_acceleration
      length, zero start, finiteness and the increment identity of the statement at EVERY index of the returned arrays
      (trap=False: left or right rectangles, the same side at every index);
  AccSignal.velocity / .displacement (property reads)   the same identities against the object's CURRENT values/dt;
  AccSignal.pga / .pgv / .pgd, eqsig.im.calc_peak / calculate_peak   result == max|series| exactly.
Driver-side (offline, over the recorded results of related executions): sign reversal, power-of-two scaling (exact),
linearity (alpha*x+beta*y), |alpha| scaling of the peaks, closed forms for constant / linearly varying acceleration,
object-vs-array agreement, no exception on in-domain input; "twin objects" (two AccSignal objects fed from the same
caller array, one of them corrected in place): the untouched one keeps its values bit-for-bit and both stay consistent
under the object monitors; "protocol pairs" (copy.copy / copy.deepcopy / pickle round trip of an AccSignal, a Cluster
member or a whole Cluster in every cache state, then reads and mutators on BOTH objects in both orders): every read is
judged by the object monitors against that object's own current values, an object on which nothing was done between two
complete reads reports bit-for-bit the same, the peaks of alpha * record on one object are |alpha| times the peaks of the
record on the other; f(A); f(B); f(A) at array and object level (third == first, bit for bit).
Round 5: boolean-like trap flags that are not Python bools and 0-d array time steps are in the workload (the flag is judged
as the bool it stands for; the caller's 0-d dt is snapshotted), the arrays of a first result are overwritten before the same
call is repeated, and the side of the rectangle rule is fixed once per tree from a probe record at install().
"""
import copy
import pickle
import warnings
import weakref

import numpy as np

from vf import attach, core, gen
from vf.oracles import integrate as O

PROP_ID = 'C08'
TECHNIQUE = ('runtime post-condition monitors (per-index increment identity, exact max|.|) on the array functions and '
             'on the AccSignal properties; driver-side trace relations (sign, 2^k and alpha scaling, linearity, '
             'closed forms, object-vs-array)')
RULE = ('array cases = (record, container, dt, trap in {True,False}, call style) calls of '
        'calc_velo_and_disp_from_accel_arr / velocity_and_displacement_from_acceleration. Records: classes of DESIGN '
        'section 4 plus one-signed, constant, linear (closed forms), extreme at the first / last sample, plateau at '
        'the start / end, sign change before the last sample, large offset under a small signal, peak anywhere in '
        '1e-12..1e12, EXTREME scales in float64 / list containers (gen.record(extreme=True): amplitude 1e+-165..1e+-220; '
        'gen.special_scale: uniformly 1e-165..1e-300 or 1e155..1e300 - scaled down only as far as the double integral '
        'times the relation factors needs to stay finite -, 1e-150 next to 1e150 in one record, ripple on a baseline, '
        'counts above 2**24) and for every float64 / integer case the extra related record alpha*x with |alpha| = '
        '1e+-165..1e+-200 (clause peak.scale|alpha|.extreme), one sample 1e3..1e16 times larger than the others (first / last / inside, optionally followed by '
        'its negative), quiet-but-not-silent lead-in with all the action in the last 1/k, constant with a single '
        'changed sample, alternating sign with an offset; n in [2,5000] incl. 2^k-1, 2^k, 2^k+1 and a few records of 65537..100000 samples per run. '
        'Containers: float64, float32, int64, int32, int16, int8, uint8, uint16 with ordinary magnitudes, bool '
        '(round 4: on/off records - thresholded noise / quake records, 1-5 rectangular pulses, a step, all on, all off, '
        'one isolated on-sample, alternating, on except one sample - as numpy bool arrays incl. strided / reversed / '
        'read-only views and as lists / tuples of Python bools; judged by every clause against the record with samples '
        '0.0 / 1.0, plus the driver clauses array. / obj.bool-record==integral(0/1 record) against the record the CALLER '
        'gave, both rules, at construction and after reset_values) and '
        '"narrow-full" records (int8/uint8/int16/uint16/int32/int64 using 95% of the dtype\'s range, some containing '
        'iinfo.min / iinfo.max, so that neighbour sums, integer dt * sample and abs() leave the dtype), '
        'x[::2]-type and negative-stride views, read-only arrays, lists / tuples of floats, of Python ints, mixed '
        'int+float lists. dt: nice / reciprocal / log-uniform in [1e-5,10] and [1e-9,1e3] / Python int / '
        'numpy.float64 / numpy.float32 / numpy.int64 / 0-d array / gen.awkward_dt (dt/(dt/k) != k). Each case calls '
        'BOTH public names of the integration and compares them. Call styles: trap by keyword, positionally, all '
        'arguments by keyword, default omitted. The SAME record object goes to every call of a case (both trap '
        'values, calc_peak) and is compared bit-for-bit with its entry snapshot after each call; each case adds the '
        'derived records -x, 2^k x, alpha x, y, alpha x+beta y of the same shape and finally re-checks the FIRST '
        'results it still holds. object cases = AccSignal(record, dt) (all containers above) followed by a random '
        'history of mutators (same / shorter / longer reset_values, add_*, remove_*, running/rolling average, '
        'butter_pass, baseline corrections with and without timezone, correct_me, clear_cache, explicit '
        'generate(trap) by keyword / positionally / default) and response-spectrum generation steps (lazy s_a / s_d '
        'reads after setting response_times, gen_response_spectrum / generate_response_spectrum with first period '
        'in {0, 1.2, 2, 4, 5.9, 6, 10}*dt and min_dt_ratio default / 1 / 8, placed on the fresh object, before and '
        'between the peak reads and after mutators) interleaved with reads of velocity / displacement / '
        'pga / pgv / pgd in random order with repeats and with "feed" steps that pass the arrays handed out by the '
        'properties back into the array functions; every read is judged against the values the object holds at that '
        'moment; "derive" steps let the LIBRARY make a new AccSignal from the warm object (deepcopy, '
        'interp_to_approx_dt and resample_to_approx_dt up / down / target == current, combine_at_angle incl. angle '
        '0, Cluster member, fas2signal -> complex record with a rounding-level imaginary part), read it, correct it '
        'in place, read it again and require the source object (values and series obtained from it) to be '
        'bit-for-bit untouched; every property read must leave values / npts / dt unchanged (velocity by '
        'increments on values; displacement and PGV/PGD also against the oracle\'s own '
        'integral of those values, never only against the object\'s cached series). twin cases = two AccSignal '
        'objects built from the SAME float64 caller array (or from each other\'s values, at construction or via '
        'reset_values; n >= 64, non-zero record); all five quantities of both are read, 1-2 in-place style '
        'corrections are applied to ONE of them, then both are read again; the untouched object\'s values and the '
        'series obtained from it earlier are compared bit-for-bit with their earlier state. '
        'Round 3: records also "silent" (all +0.0 / all -0.0); every array case ends with a record of ANOTHER shape '
        'followed by the first record object once more with both rules and calc_peak (array.repeat==first); object '
        'histories also contain assignments through public attribute names (values, dt, npts, time, velocity, '
        'displacement, pga/pgv/pgd, response_times, smooth_fa_freqs, smooth_freq_range, label; list / tuple / ndarray of '
        '1, 2, 3, n//2, n, n+1 entries), operations the library refuses (add_series of another length, add_signal with '
        'another dt / a non-signal, butter_pass with corners outside (0, Nyquist) / scalar / 3 entries, remove_poly(-1), '
        'a rolling window shorter than one sample), "out and back" steps (record replaced by one with a nan / inf '
        'sample, a 2-D, 0-d or one-sample record, read, then the former record again), A-B-A steps (record A, record B '
        'of the same or another length, A again, optionally with an explicit rule; obj.repeat==first) and Butterworth '
        'corners at 1e-4..9e-4 and 0.991..0.999 of the Nyquist frequency. protocol cases = an AccSignal (plain / '
        'Cluster member / member of a copied Cluster; all record containers) brought into a cache state (cold, some '
        'peaks, PGA only, one or both series, everything, response spectrum, Fourier / smoothed spectrum, Stockwell memo, '
        'explicit trap=False generation, read-mutated-read) and then copied with copy.copy, copy.deepcopy or pickle '
        '(protocols 2..5); 0-2 reads / complete reads of either object; for copy.copy first a mutator that gives one of '
        'the two a NEW value buffer (reset_values with another record of any length, with alpha * the other object\'s '
        'record, with its own record again, add_*, remove_average/poly, running_average, butter_pass, '
        'remove_rolling_average(velocity), correct_me), checked with numpy.shares_memory before anything is judged; '
        'then 2-6 steps on the original or the copy (single peaks on one then the other, reads, any mutator of the '
        'object histories, spectra, feeds, complete reads). '
        'Round 5 (checklist 28-33): dt also numpy.int32 and 0-d arrays of float64 / float32 / int64 / int32 (3.5 % of all '
        'cases; the caller\'s 0-d array is snapshotted and compared after every call / history step: array.args-unchanged, '
        'obj.caller-0d-dt-unchanged; obj.dt==dt-given after every step of every object, twin and protocol history); the '
        'trap flag in boolean-like forms that are not Python bools (numpy.bool_, 0-d bool array, 0 / 1 as Python int and '
        'numpy.int64): 40 % of the array cases repeat both calls with such a flag (array.flag-form==python-bool, bit for '
        'bit) and 40 % of the explicit generate steps of object / protocol histories use one '
        '(obj.flag-form==python-bool, then every read is judged with the rule the flag stands for); every array case '
        'overwrites all arrays of its first results and repeats the calls (array.result-belongs-to-caller); degenerate '
        'secondary arguments inside histories: response-period list of ONE entry (only [0] included), remove_poly with a '
        'degree of npts-1 / npts / npts+1 / 2 npts (npts <= 16), running / rolling windows of npts//2+1, npts, npts+2 '
        'samples; the side of the rectangle rule is fixed ONCE per tree at install() from a probe record '
        '([1,2,4,8,5], dt 0.5; noted as rect_convention) and applied to every record and every object read. '
        'distinct = digest of '
        '(record bytes+dtype, container, dt, options/history); non-trivial = record not identically zero.')
ASSUMPTIONS = ['finite real 1-D record of length >= 2, dt > 0 (dt = 0, negative dt, 0-d / 2-D records: probed, counted, '
               'not judged), trap a boolean-like flag: True / False, numpy.bool_, a 0-d bool array, 0 / 1 as Python int or '
               'numpy integer - each judged as the Python bool it stands for (None, other numbers, strings: probed, not '
               'judged). OPEN: the tree integrates with the trapezoid when the flag is a falsy form other than the Python '
               'object False (`trap is False` in calc_velo_and_disp_from_accel_arr); exactly that outcome (trapezoid '
               'identity holds at every index, rectangle identity does not) is counted as '
               '"pending-finding: falsy-non-bool-trap-flag-integrates-with-trapezoid" until it was ruled a defect and repaired (fix F50 of eqsig); judged now',
               'the statement does not name the side of the rectangle rule: the side the tree uses on one probe record '
               '(for velocity from the record and for displacement from the velocity) is THE convention of that tree and '
               'every record is judged with it; only when the probe fits neither or both sides is either side admitted '
               '(the same at every index of a series)',
               'arrays handed out by the properties .velocity / .displacement / .values are the object\'s own buffers: '
               'caller-side writes into them are not a public operation (not driven); results of the array-level '
               'functions belong to the caller and are overwritten by the driver',
               'integer records of any width and magnitude are in domain; the oracle works on their float64 image '
               '(exact below 2**53, correctly rounded above)',
               'bool records (numpy bool arrays, lists / tuples of Python bools) are in domain: the library casts dtype '
               'kinds i, u and b to float on purpose, so an on/off record is the record with samples 0.0 / 1.0 and the '
               'oracle works on that float64 image',
               'float16 records are outside the quantifier (probed only); complex records are in domain only '
               'when the imaginary part is at rounding level (<= 1e-9 of the real part: what fas2signal returns) and '
               'are then judged in complex arithmetic; genuinely complex "accelerations" are counted, not judged '
               '(on them trap=False keeps the real part only and calc_peak orders lexicographically)',
               'the increment identity is judged with a LOCAL allowance: 32*eps*(|s[i]|+|s[i-1]|+dt(|y[i]|+|y[i-1]|)) '
               'from the oracle\'s own running sum + 32*n*eps^2*global scale + 4 smallest subnormals of the record '
               'dtype; valid for any implementation that accumulates sequentially (numpy cumsum, scipy '
               'cumulative_trapezoid); series-vs-reference and relation clauses use worst-case running-sum bounds '
               '(n*eps*global scale) with the same underflow floor',
               'tolerances are multiples of the machine epsilon of the RECORD dtype (float64 for float64 and integer '
               'records whatever the type of dt - a numpy.float32 dt is used with its exact value float(dt)): only a '
               'float32 record is integrated in float32 by the '
               'library, so the identity can only hold to float32 rounding; float32 records are generated with '
               'dt^2*peak inside the float32 normal range',
               'the statement has no numeric option besides dt and no thresholds/constants: "boundary values" reduce '
               'to dt scales and exact (integer / dyadic) records, for which sign reversal and 2^k scaling are '
               'checked to 4 ulps',
               'exceptions raised by mutators themselves (e.g. in-place baseline corrections on integer values, '
               'negative constants added to unsigned values) belong to other properties: counted, not judged; '
               'reads after them are still judged',
               'results must be representable: cases with max|a|*max(1, n*dt, (n*dt)^2) >= 1e305 (1e37 for float32) are '
               'counted, not judged (inf is then the right answer); integrals that fall into the subnormal range are '
               'judged with the absolute floor of 4 smallest subnormals per rounding, magnified by |alpha| where a '
               'relation multiplies them',
               'shallow copies (copy.copy) share the value buffer and the memo objects by definition: before one of the '
               'two has received a new value buffer only reads are driven (both objects hold the same record with the '
               'same rule, so a shared memo is right for both); an explicit regeneration with another rule or an '
               'in-place correction on an un-separated shallow pair is not driven and not judged',
               'records outside the quantifier reached inside a history (non-finite sample, 2-D, 0-d, one sample) are '
               'counted, not judged; the reads after the object is back on a valid record are judged',
               'bit-for-bit clauses between executions (array.repeat==first, obj.repeat==first, '
               'obj.copy.idle-object-unchanged) compare two evaluations of the same function on the same record, dt and '
               'rule in one process: the statement makes the series and peaks functions of (record, dt, rule) alone',
               'oracle vf/oracles/integrate.py (increment formulas, closed forms, reference integrals) is correct']
MIN_EVALS = {
    'quick': {'array.no-exception': 41000, 'array.length': 41000, 'array.start==0': 41000, 'array.finite': 41000,
              'array.args-unchanged': 44000, 'array.result-owns-data': 41000, 'array.alias==primary': 4800,
              'array.result-stable-after-later-calls': 2400,
              'array.v.increments(trap)': 27000, 'array.d.increments(trap)': 27000,
              'array.v.increments(rect)': 14000, 'array.d.increments(rect)': 14000,
              'array.exact.const': 90, 'array.exact.linear': 120,
              'calc_peak==max|x|': 46000, 'calc_peak.args-unchanged': 46000,
              'rel.sign': 2400, 'rel.scale.pow2': 2400, 'rel.linearity': 2400,
              'peak.sign-invariant': 2500, 'peak.scale|alpha|': 4700, 'peak.scale|alpha|.extreme': 2000,
              'obj.length': 41000, 'obj.finite': 41000, 'obj.start==0': 41000, 'obj.velocity.increments': 20000,
              'obj.displacement.increments': 20000, 'obj.displacement==integral(current values)': 20000,
              'obj.read-leaves-record-unchanged': 68000,
              'obj.pga==max|series|': 9000, 'obj.pgv==max|series|': 7800, 'obj.pgd==max|series|': 7800,
              'obj.peaks==peaks of integral(current values)': 17000,
              'obj.peaks==max|series| after explicit trap switch': 1800,
              'obj==array': 5300, 'obj.no-exception': 44000, 'obj.derived.source-untouched': 750,
              'obj.twin.untouched-object-still-consistent': 320, 'obj.twin.held-series-unchanged': 320,
              'array.repeat==first': 7000, 'obj.repeat==first': 250, 'obj.copy.idle-object-unchanged': 650,
              'obj.copy.peaks-scale|alpha|': 150,
              'array.bool-record==integral(0/1 record)': 500, 'obj.bool-record==integral(0/1 record)': 100,
              'array.flag-form==python-bool': 900, 'array.result-belongs-to-caller': 4800,
              'obj.dt==dt-given': 30000, 'obj.caller-0d-dt-unchanged': 600, 'obj.flag-form==python-bool': 60},
}
MIN_EVALS['thorough'] = {k: v * 20 for k, v in MIN_EVALS['quick'].items()}

CTX = None
CUR = {'scenario': None, 'after_switch': False}
MODE = weakref.WeakKeyDictionary()    # AccSignal -> trap flag of the generation that filled its velocity/displacement
_INSTALLED = False


def n_shards(tier):
    return 16


# ------------------------------------------------------------------------------------------------------ domain
def _flag(trap):
    """The Python bool a trap flag stands for: True / False themselves, numpy.bool_, a 0-d bool array and the integers
    0 / 1 (Python or numpy) are the boolean-like forms of the quantifier's {True, False}; None for anything else (None,
    2, 0.5, strings, longer arrays: outside the quantifier)."""
    if trap is True or trap is False:
        return trap
    if isinstance(trap, np.bool_):
        return bool(trap)
    if isinstance(trap, np.ndarray):
        return bool(trap) if (trap.ndim == 0 and trap.dtype.kind == 'b') else None
    if isinstance(trap, (int, np.integer)) and int(trap) in (0, 1):
        return bool(int(trap))
    return None


FLAG_FORMS = ['np.bool_', 'arr0d', 'int', 'np.int64']


def _flag_as(flag, form):
    """The boolean-like form of a Python bool that is handed to eqsig."""
    if form == 'np.bool_':
        return np.bool_(flag)
    if form == 'arr0d':
        return np.array(bool(flag))
    if form == 'int':
        return int(flag)
    if form == 'np.int64':
        return np.int64(int(flag))
    return bool(flag)


def _flag_form(trap):
    if trap is True or trap is False:
        return 'bool'
    if isinstance(trap, np.bool_):
        return 'np.bool_'
    if isinstance(trap, np.ndarray):
        return 'arr0d'
    if isinstance(trap, np.integer):
        return 'np.int64'
    return 'int' if isinstance(trap, int) else 'other'


PENDING_FLAG = 'pending-finding: falsy-non-bool-trap-flag-integrates-with-trapezoid'
ROUTE_PENDING_FLAG = False     # ruled a genuine defect (`trap is False`) and repaired in eqsig (fix F50): judged like every other flag form
# the rectangle rule has two sides; the statement names none. ONE convention per tree is fixed at install() from probe
# records (velocity from the record, displacement from the velocity) and applied to every record; None = undetermined
# (then either side is admissible, the same at every index of a series).
RECT = {'v': None, 'd': None}


def _rect_rules(which):
    return [RECT[which]] if RECT[which] else ['left', 'right']


def _domain(acc, dt, trap=True, min_len=2):
    """None when (acc, dt, trap) lies inside the property's quantifier, else a short reason (counted, not judged)."""
    if _flag(trap) is None:
        return 'trap-not-bool'
    try:
        arr = np.asarray(acc)
    except Exception:
        return 'not-array'
    if arr.ndim != 1:
        return 'not-1d'
    if arr.dtype.kind == 'c':
        # the library's own fas2signal returns records with a rounding-level imaginary part: in domain (judged with
        # complex arithmetic); genuinely complex "accelerations" are outside the statement
        if len(arr) >= min_len and np.all(np.isfinite(arr)) and \
                float(np.max(np.abs(arr.imag))) <= 1e-9 * float(np.max(np.abs(arr.real))):
            pass
        else:
            return 'complex-record'
    elif arr.dtype.kind not in 'fiub':      # (bool: on/off records, cast to 0.0 / 1.0 by the library on purpose)
        return 'dtype-kind-' + arr.dtype.kind
    if arr.dtype.kind == 'f' and arr.dtype.itemsize < 4:
        return 'float16'
    if len(arr) < min_len:
        return 'length<%d' % min_len
    if arr.dtype.kind in 'fc':
        if not bool(np.all(np.isfinite(arr))):
            return 'nonfinite-record'
    else:
        pass        # integer / bool records of any width and magnitude are in domain (the oracle works on their
                    # float64 image: False -> 0.0, True -> 1.0)
    if dt is not None:
        if isinstance(dt, (bool, np.bool_, complex)) or (isinstance(dt, np.ndarray) and dt.ndim != 0):
            return 'dt-type'
        try:
            f = float(dt)
        except Exception:
            return 'dt-type'
        if not (f > 0 and np.isfinite(f)):
            return 'dt-not-positive'
        if arr.dtype.kind in 'fc' and len(arr):
            # the integrals themselves must be representable in the record's dtype (else inf is the right answer)
            with np.errstate(over='ignore'):
                top = float(np.max(np.abs(arr.astype(complex if arr.dtype.kind == 'c' else float))))
                span = max(1.0, len(arr) * f, (len(arr) * f) ** 2)
            if not top * span < (1e37 if arr.dtype.itemsize <= (8 if arr.dtype.kind == 'c' else 4) else 1e305):
                return 'integral-not-representable'
    return None


# ------------------------------------------------------------------------------------------------------ witnesses
def _container_of(x):
    if isinstance(x, list):
        if any(type(v) is int for v in x) and any(type(v) is float for v in x):
            return 'mixedlist'
        return 'list'
    if isinstance(x, tuple):
        return 'tuple'
    if isinstance(x, np.ndarray) and x.ndim == 1 and x.size > 1:
        if x.strides[0] < 0:
            return 'reversed'
        if x.strides[0] != x.itemsize:
            return 'strided'
    if isinstance(x, np.ndarray) and not x.flags.writeable:
        return 'readonly'
    return 'array'


def _dt_kind(dt):
    if isinstance(dt, np.ndarray):
        return 'arr0d.' + str(dt.dtype)
    if isinstance(dt, (np.floating, np.integer)):
        return 'np.' + str(dt.dtype)
    if isinstance(dt, int):
        return 'int'
    return 'float'


def _dt_from(w):
    dt = w['dt']
    k = w.get('dt_kind', 'float')
    if k.startswith('arr0d.'):
        return np.array(dt, dtype=k[6:])
    if k.startswith('np.'):
        return np.dtype(k[3:]).type(dt)
    if k == 'int':
        return int(dt)
    return float(dt)


def _dt_is_integer(dt):
    if isinstance(dt, (bool, np.bool_)):
        return False
    if isinstance(dt, (int, np.integer)):
        return True
    return isinstance(dt, np.ndarray) and dt.dtype.kind in 'iu'


def materialise(base, container):
    """Container handed to eqsig, built from the stored ndarray (dtype already final)."""
    base = np.asarray(base)
    if container == 'list':
        return base.tolist()
    if container == 'tuple':
        return tuple(base.tolist())
    if container == 'mixedlist':    # Python ints and floats side by side (integral values at even positions as int)
        return [int(v) if (i % 2 == 0 and float(v) == int(v)) else float(v) for i, v in enumerate(base.tolist())]
    if container == 'strided':
        big = np.repeat(base, 2)
        return big[::2]
    if container == 'reversed':     # negative-stride view
        return np.array(base[::-1])[::-1]
    if container == 'readonly':
        a = np.array(base)
        a.flags.writeable = False
        return a
    return np.array(base)


def _wit_array(fn, acc, dt, trap):
    return {'kind': 'array', 'fn': fn, 'acc': np.asarray(acc), 'container': _container_of(acc), 'dt': dt,
            'dt_kind': _dt_kind(dt), 'trap': _flag(trap), 'flag_form': _flag_form(trap)}


def _wit_obj(obj, what):
    if CUR['scenario'] is not None:
        w = dict(CUR['scenario'])
        w['failed_at'] = what
        return w
    return {'kind': 'object', 'acc': np.asarray(obj.values), 'container': 'array', 'dt': obj.dt,
            'dt_kind': _dt_kind(obj.dt), 'ops': [['generate', MODE.get(obj, True) is not False], ['read', [what]]],
            'failed_at': what, 'note': 'snapshot of the object state (no scenario context)'}


# ------------------------------------------------------------------------------------------------------ monitors
def _check_inc(ctx, clause, series, integrand, dt, rules, eps, wit, label):
    """Increment identity at every index; with several admissible rules one of them must hold at EVERY index."""
    best = None
    for r in rules:
        okk, i, err, tol = O.increment_check(series, integrand, dt, r, eps)
        if best is None or (okk and not best[0]) or (okk == best[0] and err - tol < best[2] - best[3]):
            best = (okk, i, err, tol, r)
    okk, i, err, tol, r = best
    return ctx.check(okk, clause, wit,
                     '%s: increment identity (%s rule) broken at i=%s: |defect|=%.3g allowed=%.3g (n=%d, dt=%r)'
                     % (label, r, i, err, tol, len(series), dt))


def _snap(x):
    """Bit-for-bit snapshot of an argument taken at call entry (None when it is not a container we can compare)."""
    if isinstance(x, np.ndarray):
        return ('nd', x.dtype, x.shape, np.array(x, copy=True))
    if isinstance(x, list):
        return ('list', list(x))
    if isinstance(x, tuple):
        return ('tuple', x)
    return None


def _unchanged(x, snap):
    if snap is None:
        return True
    if snap[0] == 'nd':
        return (isinstance(x, np.ndarray) and x.dtype == snap[1] and x.shape == snap[2]
                and np.ascontiguousarray(x).tobytes() == np.ascontiguousarray(snap[3]).tobytes())
    if type(x) is not (list if snap[0] == 'list' else tuple) or len(x) != len(snap[1]):
        return False
    return all(type(p) is type(q) and (p == q or (p != p and q != q)) for p, q in zip(x, snap[1]))


def _entry_values(x, snap):
    """The values the argument had at call entry (what the result is judged against)."""
    if snap is None:
        return x
    return snap[3] if snap[0] == 'nd' else snap[1]


def check_array(ctx, fn, acc, dt, trap, result, orig=None):
    """acc: the record as it was at call entry; orig: the argument object itself (container naming only)."""
    orig = acc if orig is None else orig
    why = _domain(acc, dt, trap)
    if why:
        ctx.observe('out-of-domain:' + why)
        return
    ctx.ok('array.no-exception')
    a = np.asarray(acc)
    n = len(a)
    cont = _container_of(orig)
    wit = lambda: dict(_wit_array(fn, acc, dt, trap), container=cont)
    label = '%s(n=%d %s %s, dt=%r, trap=%r)' % (fn, n, cont, a.dtype, dt, trap)
    try:
        v, d = result
        v = np.asarray(v)
        d = np.asarray(d)
        shapes = (v.shape, d.shape)
    except Exception:
        shapes = None
    if not ctx.check(shapes == ((n,), (n,)), 'array.length', wit,
                     '%s: returned shapes %s, expected two series of length %d' % (label, shapes, n)):
        return
    # precision the RECORD allows: a float64 / integer record must be integrated to float64 accuracy whatever the type
    # of dt (array * numpy.float32 scalar is float64 arithmetic with the value float(dt)); only float32 records get eps32
    eps = O.eps_of(a)
    vf = O.f64(v)
    df = O.f64(d)
    if not ctx.check(bool(np.all(np.isfinite(vf)) and np.all(np.isfinite(df))), 'array.finite', wit,
                     '%s: non-finite output on finite input' % label):
        return
    shared = np.shares_memory(v, d) or (isinstance(orig, np.ndarray) and (np.shares_memory(v, orig)
                                                                         or np.shares_memory(d, orig)))
    ctx.check(not shared, 'array.result-owns-data', wit,
              '%s: the returned series share memory with %s (an in-place correction of one would change the other)'
              % (label, 'each other' if np.shares_memory(v, d) else 'the argument'))
    ctx.check(vf[0] == 0 and df[0] == 0, 'array.start==0', wit,
              '%s: series start at v[0]=%r d[0]=%r, not zero' % (label, vf[0], df[0]))
    flag = _flag(trap)
    if ROUTE_PENDING_FLAG and flag is False and trap is not False and _is_trapezoid_not_rectangle(vf, df, a, dt, eps):
        # integration switched off through a boolean-like flag that is not the Python object False, and the library
        # integrated with the trapezoid all the same: exactly this mechanism is routed (awaiting a ruling)
        ctx.observe(PENDING_FLAG)
        return
    if flag:
        _check_inc(ctx, 'array.v.increments(trap)', vf, a, dt, ['trap'], eps, wit, label + ' velocity')
        _check_inc(ctx, 'array.d.increments(trap)', df, vf, dt, ['trap'], eps, wit, label + ' displacement')
    else:
        _check_inc(ctx, 'array.v.increments(rect)', vf, a, dt, _rect_rules('v'), eps, wit, label + ' velocity')
        _check_inc(ctx, 'array.d.increments(rect)', df, vf, dt, _rect_rules('d'), eps, wit, label + ' displacement')


def _is_trapezoid_not_rectangle(vf, df, a, dt, eps):
    """Both series satisfy the trapezoid identity at every index while at least one of them breaks the rectangle identity
    (records on which the two rules coincide - silent, two equal samples - are plain rectangle results)."""
    trap_ok = (O.increment_check(vf, a, dt, 'trap', eps)[0] and O.increment_check(df, vf, dt, 'trap', eps)[0])
    if not trap_ok:
        return False
    rect_ok = (any(O.increment_check(vf, a, dt, r, eps)[0] for r in _rect_rules('v'))
               and any(O.increment_check(df, vf, dt, r, eps)[0] for r in _rect_rules('d')))
    return not rect_ok


def _parse_array_call(args, kwargs):
    acc = args[0] if args else kwargs['acceleration']
    dt = args[1] if len(args) > 1 else kwargs['dt']
    trap = args[2] if len(args) > 2 else kwargs.get('trap', True)
    return acc, dt, trap


def _pre_array(args, kwargs):
    try:
        acc, dt, trap = _parse_array_call(args, kwargs)
    except Exception:
        return None
    return _snap(acc), _snap(dt)


def _post_array(fn, args, kwargs, result, pre):
    acc, dt, trap = _parse_array_call(args, kwargs)
    s_acc, s_dt = pre if pre is not None else (None, None)
    entry = _entry_values(acc, s_acc)
    if _domain(entry, dt, trap) is None:
        CTX.check(_unchanged(acc, s_acc) and _unchanged(dt, s_dt), 'array.args-unchanged',
                  lambda: dict(_wit_array(fn, entry, dt, trap), container=_container_of(acc)),
                  '%s changed its %s argument (n=%d, %s, trap=%r)'
                  % (fn, 'acceleration' if not _unchanged(acc, s_acc) else 'dt', len(entry), _container_of(acc), trap))
    check_array(CTX, fn, entry, dt, trap, result, orig=acc)


def _post_calc(args, kwargs, result, pre):
    _post_array('calc_velo_and_disp_from_accel_arr', args, kwargs, result, pre)


def _post_vdfa(args, kwargs, result, pre):
    _post_array('velocity_and_displacement_from_acceleration', args, kwargs, result, pre)


def check_peak(ctx, fn, motion, result, orig=None, snap=None):
    orig = motion if orig is None else orig
    why = _domain(motion, None, True, min_len=1)
    if why:
        ctx.observe('out-of-domain(peak):' + why)
        return
    if snap is not None:
        ctx.check(_unchanged(orig, snap), 'calc_peak.args-unchanged',
                  lambda: {'kind': 'peak', 'fn': fn, 'motion': np.asarray(motion), 'container': _container_of(orig)},
                  '%s changed its argument (n=%d, %s)' % (fn, len(motion), _container_of(orig)))
    ref = O.max_abs(motion)
    try:
        got = float(result)
    except Exception:
        got = float('nan')
    ctx.check(got == ref, 'calc_peak==max|x|',
              lambda: {'kind': 'peak', 'fn': fn, 'motion': np.asarray(motion), 'container': _container_of(orig)},
              '%s(n=%d) -> %r, max|x| = %r' % (fn, len(motion), result, ref))


def _pre_peak(args, kwargs):
    try:
        return _snap(args[0] if args else kwargs['motion'])
    except Exception:
        return None


def _post_calc_peak(args, kwargs, result, pre):
    m = args[0] if args else kwargs['motion']
    check_peak(CTX, 'calc_peak', _entry_values(m, pre), result, orig=m, snap=pre)


def _post_calculate_peak(args, kwargs, result, pre):
    m = args[0] if args else kwargs['motion']
    check_peak(CTX, 'calculate_peak', _entry_values(m, pre), result, orig=m, snap=pre)


def check_obj_series(ctx, obj, name, result):
    vals = np.asarray(obj.values)       # (a list/tuple kept by reset_values is another property's concern)
    dt = obj.dt
    mode = MODE.get(obj, True)
    why = _domain(vals, dt, True) or (None if mode is not None else 'trap-not-bool')
    if why:
        ctx.observe('out-of-domain(obj):' + why)
        return
    n = len(vals)
    wit = lambda: _wit_obj(obj, name)
    label = 'AccSignal.%s (n=%d %s, dt=%r, trap=%r)' % (name, n, vals.dtype, dt, mode)
    r = np.asarray(result)
    if not ctx.check(r.shape == (n,) and obj.npts == n, 'obj.length', wit,
                     '%s: shape %s, values have %d samples, npts=%r' % (label, r.shape, n, obj.npts)):
        return
    rf = O.f64(r)
    if not ctx.check(bool(np.all(np.isfinite(rf))), 'obj.finite', wit, '%s: non-finite series' % label):
        return
    ctx.check(rf[0] == 0, 'obj.start==0', wit, '%s: starts at %r' % (label, rf[0]))
    if name == 'velocity':
        _check_inc(ctx, 'obj.velocity.increments', rf, vals, dt, ['trap'] if mode else _rect_rules('v'),
                   O.eps_of(vals), wit, label)
    else:
        with attach.paused():
            v = obj.velocity
        _check_inc(ctx, 'obj.displacement.increments', rf, O.f64(v), dt, ['trap'] if mode else _rect_rules('d'),
                   O.eps_of(vals), wit, label)
        # ... and against the record the object holds NOW, without going through the object's cached velocity
        err, tol, rv, rd = _vs_current_values(vals, dt, mode, 'd-series', rf)
        ctx.check(err <= tol, 'obj.displacement==integral(current values)', wit,
                  '%s: differs from the double integral (%s/%s rule) of the current values by %.3g (allowed %.3g)'
                  % (label, rv, rd, err, tol))


def _vs_current_values(vals, dt, mode, which, got):
    """Compare a series / peak with what the oracle integrates from the record alone; the closest admissible rule
    combination counts. Returns (err, tol, velocity rule, displacement rule)."""
    n = len(vals)
    eps = O.eps_of(vals)
    amax = O.max_abs(vals)
    best = None
    for rv, rd, v, d in O.reference_pairs(vals, dt, bool(mode), _rect_rules('v'), _rect_rules('d')):
        tv, td = O.running_sum_tolerances(eps, n, dt, amax, O.max_abs(v), O.max_abs(d))
        with np.errstate(invalid='ignore'):
            if which == 'd-series':
                err, tol = float(np.max(np.abs(got - d))) if np.shape(got) == d.shape else float('inf'), td
            elif which == 'pgv':
                err, tol = abs(got - O.max_abs(v)), tv
            else:
                err, tol = abs(got - O.max_abs(d)), td
        if err != err:
            err = float('inf')
        if best is None or err - tol < best[0] - best[1]:
            best = (err, tol, rv, rd)
    return best


def _vs_given_record(rec, dt, mode, v, d, peaks=None):
    """(ok, text): series (and peaks) against what the oracle integrates from the record THE CALLER GAVE (float64 image;
    for an on/off record the samples 0.0 / 1.0), closest admissible rule combination."""
    rec = O.f64(rec)
    n = len(rec)
    if np.shape(v) != (n,) or np.shape(d) != (n,):
        return False, 'shapes %s %s for a record of %d samples' % (np.shape(v), np.shape(d), n)
    eps = O.eps_of(np.asarray(v), np.asarray(d))
    vf, df = O.f64(v), O.f64(d)
    best = None
    for rv, rd, rv_, rd_ in O.reference_pairs(rec, dt, bool(mode), _rect_rules('v'), _rect_rules('d')):
        tv, td = O.running_sum_tolerances(eps, n, dt, O.max_abs(rec), O.max_abs(rv_), O.max_abs(rd_))
        with np.errstate(invalid='ignore'):
            ev = float(np.max(np.abs(vf - rv_)))
            ed = float(np.max(np.abs(df - rd_)))
            ep = 0.0
            if peaks is not None:
                ep = max(abs(peaks[1] - O.max_abs(rv_)) / tv, abs(peaks[2] - O.max_abs(rd_)) / td,
                         0.0 if peaks[0] == O.max_abs(rec) else float('inf'))
        score = max(ev / tv, ed / td, ep)
        score = float('inf') if score != score else score
        if best is None or score < best[0]:
            best = (score, 'max dv=%.3g (allowed %.3g) max dd=%.3g (allowed %.3g)%s, %s/%s rule'
                    % (ev, tv, ed, td, '' if peaks is None else ' peaks %r vs %r' % (
                        list(peaks), [O.max_abs(rec), O.max_abs(rv_), O.max_abs(rd_)]), rv, rd))
    return best[0] <= 1.0, best[1]


def check_obj_peak(ctx, obj, name, result):
    why = _domain(obj.values, obj.dt, True)
    if why:
        ctx.observe('out-of-domain(obj):' + why)
        return
    with attach.paused():
        series = obj.values if name == 'pga' else (obj.velocity if name == 'pgv' else obj.displacement)
    ref = O.max_abs(series)
    try:
        got = float(result)
    except Exception:
        got = float('nan')
    clause = 'obj.%s==max|series|' % name
    if CUR['after_switch'] and name in ('pgv', 'pgd'):
        clause = 'obj.peaks==max|series| after explicit trap switch'
    ctx.check(got == ref, clause, lambda: _wit_obj(obj, name),
              'AccSignal.%s = %r but max|%s| of the series the object exposes = %r (n=%d, dt=%r, trap=%r)'
              % (name, result, {'pga': 'values', 'pgv': 'velocity', 'pgd': 'displacement'}[name], ref,
                 len(np.asarray(obj.values)), obj.dt, MODE.get(obj, True)))
    mode = MODE.get(obj, True)
    if name in ('pgv', 'pgd') and mode is not None:
        # independent of every cache of the object: the peak of what the oracle integrates from the current values
        err, tol, rv, rd = _vs_current_values(np.asarray(obj.values), obj.dt, mode, name, got)
        ctx.check(err <= tol, 'obj.peaks==peaks of integral(current values)', lambda: _wit_obj(obj, name),
                  'AccSignal.%s = %r differs from the peak of the %s integral of the current values by %.3g (allowed '
                  '%.3g; n=%d, dt=%r, trap=%r)' % (name, result, 'single' if name == 'pgv' else 'double', err, tol,
                                                   len(np.asarray(obj.values)), obj.dt, mode))


def _wrap_property(cls, name, post):
    prop = cls.__dict__[name]
    orig = prop.fget
    if getattr(orig, '__vf_wrapped__', False):
        orig.__vf_posts__.append(post)
        return
    qual = '%s.%s.%s' % (cls.__module__, cls.__name__, name)
    posts = [post]

    def fget(self):
        if not attach.STATE['enabled']:
            return orig(self)
        attach.CALLS[qual] = attach.CALLS.get(qual, 0) + 1
        v0 = np.asarray(self.values)
        before = (v0.dtype, v0.shape, v0.tobytes(), self.npts, repr(self.dt))
        result = orig(self)
        v1 = np.asarray(self.values)
        CTX.check((v1.dtype, v1.shape, v1.tobytes(), self.npts, repr(self.dt)) == before,
                  'obj.read-leaves-record-unchanged', lambda: _wit_obj(self, name),
                  'reading AccSignal.%s changed the object\'s values / npts / dt (n=%d)' % (name, len(v0)))
        for p in posts:
            p(self, result)
        return result

    fget.__vf_wrapped__ = True
    fget.__vf_orig__ = orig
    fget.__vf_posts__ = posts
    fget.__doc__ = orig.__doc__
    setattr(cls, name, property(fget, prop.fset, prop.fdel, prop.__doc__))


def _wrap_generate(cls):
    """Remember which integration rule filled the object's series (recorded even while the monitors are paused)."""
    name = 'generate_displacement_and_velocity_series'
    orig = cls.__dict__[name]
    if getattr(orig, '__vf_wrapped__', False):
        return

    def wrapper(self, *args, **kwargs):
        trap = args[0] if args else kwargs.get('trap', True)
        out = orig(self, *args, **kwargs)
        flag = _flag(trap)
        MODE[self] = flag if (flag is None or trap is flag) else _judge_flag_form(self, trap, flag)
        qual = 'eqsig.single.AccSignal.' + name
        attach.CALLS[qual] = attach.CALLS.get(qual, 0) + 1
        return out

    wrapper.__vf_wrapped__ = True
    wrapper.__vf_orig__ = orig
    wrapper.__doc__ = orig.__doc__
    setattr(cls, name, wrapper)


def _judge_flag_form(obj, trap, flag):
    """generate_displacement_and_velocity_series was given a boolean-like flag that is not a Python bool: the series the
    object now exposes must be those of the Python bool it stands for. Returns the rule that filled the series."""
    vals = np.asarray(obj.values)
    dt = obj.dt
    if _domain(vals, dt, True) is not None:
        return flag
    with attach.paused():
        v, d = obj.velocity, obj.displacement
    n = len(vals)
    if np.shape(v) != (n,) or np.shape(d) != (n,):
        return flag         # (the reads that follow report the shapes)
    # judged like every read: increment identity at every index with the local allowance (a comparison of whole series
    # with running-sum bounds cannot tell the trapezoid from the rectangle rule on a long record)
    vf, df, eps = O.f64(v), O.f64(d), O.eps_of(vals)
    if not (np.all(np.isfinite(vf)) and np.all(np.isfinite(df))):
        return flag
    if ROUTE_PENDING_FLAG and flag is False and _is_trapezoid_not_rectangle(vf, df, vals, dt, eps):
        if attach.STATE['enabled']:
            CTX.observe(PENDING_FLAG)
        return True         # the trapezoid filled the series: the reads that follow are judged as such
    okk = (any(O.increment_check(vf, vals, dt, r, eps)[0] for r in (['trap'] if flag else _rect_rules('v')))
           and any(O.increment_check(df, vf, dt, r, eps)[0] for r in (['trap'] if flag else _rect_rules('d'))))
    if attach.STATE['enabled']:
        CTX.check(okk, 'obj.flag-form==python-bool', lambda: _wit_obj(obj, 'generate(%s %r)' % (_flag_form(trap), flag)),
                  'generate_displacement_and_velocity_series(%r [%s]) on n=%d samples, dt=%r: the series the object '
                  'exposes do not satisfy the increment identity of trap=%r' % (trap, _flag_form(trap), n, dt, flag))
    return flag


def _probe_rect_convention(eqsig):
    """Fix the side of the rectangle rule for this tree from a probe record on which every candidate differs."""
    x = np.array([1.0, 2.0, 4.0, 8.0, 5.0])
    try:
        with attach.paused(), warnings.catch_warnings():
            warnings.simplefilter('ignore')
            v, d = eqsig.displacements.calc_velo_and_disp_from_accel_arr(x, 0.5, trap=False)
        v, d = O.f64(v), O.f64(d)
        for which, series, integrand in (('v', v, x), ('d', d, v)):
            sides = [r for r in ('left', 'right') if O.increment_check(series, integrand, 0.5, r, O.EPS64)[0]]
            RECT[which] = sides[0] if len(sides) == 1 else None
    except Exception:
        RECT['v'] = RECT['d'] = None


def install(ctx):
    """Attach the C08 monitors to the imported eqsig (idempotent per process)."""
    global CTX, _INSTALLED
    CTX = ctx
    if _INSTALLED:
        return
    _INSTALLED = True
    import eqsig
    import eqsig.displacements
    _probe_rect_convention(eqsig)
    attach.wrap(eqsig.displacements, 'calc_velo_and_disp_from_accel_arr', _post_calc, pre=_pre_array)
    attach.wrap(eqsig.displacements, 'velocity_and_displacement_from_acceleration', _post_vdfa, pre=_pre_array)
    attach.wrap(eqsig.im, 'calc_peak', _post_calc_peak, pre=_pre_peak)
    attach.wrap(eqsig.im, 'calculate_peak', _post_calculate_peak, pre=_pre_peak)
    A = eqsig.AccSignal
    _wrap_generate(A)
    _wrap_property(A, 'velocity', lambda self, r: check_obj_series(CTX, self, 'velocity', r))
    _wrap_property(A, 'displacement', lambda self, r: check_obj_series(CTX, self, 'displacement', r))
    for nm in ('pga', 'pgv', 'pgd'):
        _wrap_property(A, nm, (lambda nm: lambda self, r: check_obj_peak(CTX, self, nm, r))(nm))


# ------------------------------------------------------------------------------------------------------ generators
ARRAY_CONTAINERS = ['f64', 'f64', 'f64', 'f32', 'f32', 'i64', 'i64', 'i32', 'i16', 'i8', 'u8', 'u16', 'strided',
                    'reversed', 'readonly', 'list', 'list', 'tuple', 'intlist', 'mixedlist', 'narrow-full',
                    'bool', 'bool', 'boollist']
OBJ_CONTAINERS = ['f64', 'f64', 'f32', 'f32', 'i64', 'i64', 'i32', 'i16', 'i8', 'u8', 'u16', 'list', 'list', 'tuple',
                  'intlist', 'mixedlist', 'strided', 'reversed', 'readonly', 'narrow-full', 'bool', 'bool', 'boollist']
EXTRA_CLASSES = ['neg-only', 'pos-only', 'const', 'const', 'linear', 'linear', 'linear', 'extreme-first', 'extreme-last',
                 'spike-dynamic-range', 'spike-dynamic-range', 'tail-heavy', 'single-changed', 'alt+offset',
                 'plateau-start', 'plateau-end', 'ends-after-sign-change', 'offset-small-signal', 'scaled', 'silent']
INT_TOP = {'i64': 1e9, 'i32': 1e6, 'i16': 32000.0, 'i8': 127.0, 'u8': 255.0, 'u16': 65000.0, 'intlist': 1e6}
INT_DTYPE = {'i64': np.int64, 'i32': np.int32, 'i16': np.int16, 'i8': np.int8, 'u8': np.uint8, 'u16': np.uint16,
             'intlist': np.int64}
CALL_STYLES = ['kw', 'kw', 'pos', 'allkw', 'default']


def pick_n(rng, nmax=5000):
    r = rng.random()
    if r < 0.5:
        n = int(rng.choice([2, 3, 4, 5, 7, 16, 50, 200, 1000, 5000], p=[.1, .1, .08, .08, .08, .12, .16, .16, .08, .04]))
    elif r < 0.65:      # around every power of two
        n = 2 ** int(rng.integers(1, 13)) + int(rng.integers(-1, 2))
    else:
        n = int(round(10.0 ** rng.uniform(np.log10(2), np.log10(nmax))))
    return max(2, min(n, nmax))


def pick_dt(rng):
    r = rng.random()
    if r < 0.50:
        dt = gen.dt(rng)
    elif r < 0.58:
        dt = gen.awkward_dt(rng, int(rng.integers(2, 13)))      # dt/(dt/k) != k etc.
    elif r < 0.70:
        dt = float(10.0 ** rng.uniform(-5, 1))
    elif r < 0.80:
        dt = float(10.0 ** rng.uniform(-9, 3))
    elif r < 0.87:
        dt = int(rng.choice([1, 2, 3]))
    elif r < 0.91:
        dt = np.float64(gen.dt(rng))
    elif r < 0.945:
        dt = np.float32(gen.dt(rng))
    elif r < 0.965:
        dt = [np.int64, np.int32][int(rng.integers(2))](rng.choice([1, 2, 3]))
    else:
        # 0-d arrays: MUTABLE scalars (an in-place `dt /= k` inside the library would change the caller's step)
        k = int(rng.integers(4))
        dt = (np.array(gen.dt(rng)) if k < 2 else np.array(gen.dt(rng), dtype=np.float32) if k == 2 else
              np.array(int(rng.choice([1, 2, 3])), dtype=[np.int64, np.int32][int(rng.integers(2))]))
    return dt


def pick_record(rng, n):
    """(float64 record, class, lin) - lin=(a0, k) when the record is exactly a0 + k*i (closed forms apply)."""
    lin = None
    if rng.random() < 0.45:
        cls = EXTRA_CLASSES[int(rng.integers(len(EXTRA_CLASSES)))]
        if cls in ('neg-only', 'pos-only'):
            x, _ = gen.record(rng, n, cls=['noise', 'walk', 'sine', 'quake', 'intnoise'][int(rng.integers(5))])
            off = float(np.max(np.abs(x))) * float(rng.choice([1.0, 1.5, 4.0])) + (1.0 if rng.random() < 0.5 else 0.0)
            x = x - off if cls == 'neg-only' else x + off
            if rng.random() < 0.5:
                x = np.round(x)
        elif cls == 'silent':       # an all-zero record is a valid record (every series and peak is exactly zero)
            x = np.full(n, 0.0 if rng.random() < 0.7 else -0.0)
            lin = (0.0, 0.0)
        elif cls not in ('const', 'linear'):
            x = _shaped_record(rng, n, cls)
        elif cls == 'const':
            a0 = float(rng.choice([-2.0, 0.5, 1.0, 3.0, -7.0, float(np.round(rng.normal() * 10, 2))]))
            x = np.full(n, a0)
            lin = (a0, 0.0)
        else:
            if rng.random() < 0.6:      # exactly representable: integers / dyadic fractions
                a0 = float(rng.integers(-8, 9)) * float(rng.choice([1.0, 0.5, 0.25]))
                k = float(rng.integers(-4, 5) or 1) * float(rng.choice([1.0, 0.5, 0.125]))
            else:
                a0 = float(rng.normal() * 10.0 ** rng.uniform(-2, 2))
                k = float(rng.normal() * 10.0 ** rng.uniform(-3, 1))
            x = a0 + k * np.arange(n, dtype=float)
            lin = (a0, k)
    else:
        x, cls = gen.record(rng, n, extreme=True)        # 4 %: amplitude 1e+-165 .. 1e+-220 ('/extreme-scale')
        if 'extreme' not in cls and rng.random() < 0.08:
            # uniformly tiny / huge, 1e-150 next to 1e150, ripple on a baseline, counts above 2**24
            x, suffix = gen.special_scale(rng, x)
            cls = cls + suffix
    return np.asarray(x, dtype=float), cls, lin


SPECIAL_MARKS = ('extreme', '-ripple-on-baseline', '-counts-above')
WIDE_KINDS = ['f64', 'f64', 'list', 'tuple', 'strided', 'reversed', 'readonly']


def _special(cls):
    return any(m in cls for m in SPECIAL_MARKS)


def _fit_range(x, n, dt):
    """Scale a huge record down just enough that its double integral, times the factors the relations apply
    (|alpha| <= 100, 2^k <= 32), is still a finite double (the statement cannot hold for unrepresentable results)."""
    peak = float(np.max(np.abs(x))) if len(x) else 0.0
    span = max(1.0, (n * abs(float(dt))) ** 2, n * abs(float(dt)))
    if peak > 0 and peak * span * 3200.0 > 1e300:
        x = x * (1e300 / (peak * span * 3200.0))
    return x


def _shaped_record(rng, n, cls):
    """Records with the extreme at the first/last sample, plateaus at the ends, a sign change before the last sample,
    a large offset under a small signal, or a peak anywhere in 1e-12 .. 1e12."""
    x, _ = gen.record(rng, n, cls=['noise', 'walk', 'sine', 'quake', 'intnoise', 'beat'][int(rng.integers(6))])
    x = np.asarray(x, dtype=float)
    peak = float(np.max(np.abs(x))) or 1.0
    sgn = float(rng.choice([-1.0, 1.0]))
    if cls == 'extreme-first':
        x[0] = sgn * (peak * float(rng.choice([1.0 + 2 ** -20, 2.0, 10.0])))
    elif cls == 'extreme-last':
        x[-1] = sgn * (peak * float(rng.choice([1.0 + 2 ** -20, 2.0, 10.0])))
    elif cls == 'plateau-start':
        m = min(n - 1, int(rng.integers(1, n // 3 + 2)))
        x[:m] = x[m]
    elif cls == 'plateau-end':
        m = min(n - 1, int(rng.integers(1, n // 3 + 2)))
        x[-m:] = x[-m - 1]
    elif cls == 'ends-after-sign-change':
        if x[-2] == 0:
            x[-2] = peak
        x[-1] = -np.sign(x[-2]) * peak * float(rng.choice([1e-3, 0.5, 1.0, 3.0]))
    elif cls == 'offset-small-signal':
        x = sgn * 10.0 ** rng.uniform(3, 8) + x / peak * 10.0 ** rng.uniform(-6, -2)
    elif cls == 'scaled':
        x = x * (10.0 ** rng.uniform(-12, 12) / peak)
    elif cls == 'spike-dynamic-range':
        # one sample 1e3 .. 1e16 times larger than the others (at the start, the end or inside)
        x = x / peak * 10.0 ** rng.uniform(-6, 0)
        j = [0, n - 1, int(rng.integers(n))][int(rng.integers(3))]
        x[j] = sgn * 10.0 ** rng.uniform(3, 10)
        if rng.random() < 0.4:          # ... and a second one of opposite sign right after it
            x[min(n - 1, j + 1)] = -x[j]
    elif cls == 'tail-heavy':
        m = max(1, n - max(1, n // int(rng.integers(3, 11))))
        x[:m] *= 10.0 ** rng.uniform(-9, -7)        # quiet (not silent) lead-in, all the action in the last 1/k
    elif cls == 'single-changed':
        x = np.full(n, float(rng.choice([0.0, 1.0, -2.5, 1e-3])))
        j = [0, n - 1, int(rng.integers(n))][int(rng.integers(3))]
        x[j] += sgn * float(rng.choice([1.0, 1e-6, 3.0]))
    elif cls == 'alt+offset':
        x = (-1.0) ** np.arange(n) * float(rng.choice([1.0, 0.5, 3.0])) + float(rng.choice([0.0, 0.25, -7.0]))
    return x


def _bool_record(rng, x):
    """On/off record (dtype bool) of the length of x: the library casts bool like integer counts, so True is the sample
    1.0 and False the sample 0.0. Thresholded records (runs of every length), rectangular pulses, a single step, all on,
    all off, one isolated on-sample, alternating, on except for one sample."""
    x = np.asarray(x, dtype=float)
    n = len(x)
    shape = ['sign', 'median', 'level', 'pulses', 'pulses', 'pulse', 'step', 'all-on', 'all-off', 'single',
             'alternating', 'one-off'][int(rng.integers(12))]
    if shape == 'sign':
        b = x > 0
    elif shape == 'median':
        b = x >= np.median(x)
    elif shape == 'level':
        b = np.abs(x) > float(rng.choice([0.1, 0.5, 0.9])) * (float(np.max(np.abs(x))) if n else 0.0)
    elif shape in ('pulses', 'pulse'):
        b = np.zeros(n, dtype=bool)
        for _ in range(1 if shape == 'pulse' else int(rng.integers(2, 6))):
            i0 = int(rng.integers(0, n))
            b[i0:i0 + int(rng.integers(1, max(2, n // 3) + 1))] = True
    elif shape == 'step':
        b = np.arange(n) >= int(rng.integers(0, n))
        if rng.random() < 0.5:
            b = ~b
    elif shape == 'all-on':
        b = np.ones(n, dtype=bool)
    elif shape == 'all-off':
        b = np.zeros(n, dtype=bool)
    elif shape == 'single':
        b = np.zeros(n, dtype=bool)
        b[[0, n - 1, int(rng.integers(n))][int(rng.integers(3))]] = True
    elif shape == 'alternating':
        b = (np.arange(n) + int(rng.integers(2))) % 2 == 0
    else:
        b = np.ones(n, dtype=bool)
        b[[0, n - 1, int(rng.integers(n))][int(rng.integers(3))]] = False
    return np.array(b, dtype=bool)


def to_container(rng, x, kind, lin=None, dt=1.0):
    """(base ndarray of the final dtype, container kind for materialise, lin adjusted to the stored record)."""
    x = np.asarray(x, dtype=float)
    if kind == 'narrow-full':
        # integers using most of the dtype's range: sums of neighbours (and integer dt * sample) leave the dtype
        sub = ['i8', 'u8', 'u16', 'i16', 'i8', 'i16', 'i32', 'i64'][int(rng.integers(8))]
        info = np.iinfo(INT_DTYPE[sub])
        peak = float(np.max(np.abs(x))) or 1.0
        if sub[0] == 'u':
            xi = np.round((x - np.min(x)) / (float(np.max(x) - np.min(x)) or 1.0) * 0.95 * info.max)
        else:
            xi = np.round(x / peak * 0.95 * info.max)
        xi = xi.astype(INT_DTYPE[sub])
        r = rng.random()
        if r < 0.3:
            xi[int(rng.integers(len(xi)))] = info.min       # abs(iinfo.min) is not representable in the dtype
        elif r < 0.5:
            xi[int(rng.integers(len(xi)))] = info.max
        return xi, ['array', 'array', 'strided', 'readonly'][int(rng.integers(4))], None
    if kind in ('bool', 'boollist'):
        b = _bool_record(rng, x)
        lin = (1.0, 0.0) if bool(b.all()) else ((0.0, 0.0) if not bool(b.any()) else None)
        if kind == 'boollist':
            return b, ['list', 'list', 'tuple'][int(rng.integers(3))], lin
        return b, ['array', 'array', 'array', 'strided', 'reversed', 'readonly'][int(rng.integers(6))], lin
    if kind in INT_TOP:
        if kind[0] == 'u':
            x = np.abs(x)
            lin = None
        peak = float(np.max(np.abs(x))) if x.size else 0.0
        top = INT_TOP[kind]
        if lin is not None:
            a0 = float(np.round(lin[0]))
            k = float(np.round(lin[1])) if lin[1] != 0 else 0.0
            if lin[1] != 0 and k == 0:
                k = 1.0
            while abs(a0) + abs(k) * len(x) > top:
                k = float(np.trunc(k / 2))
                a0 = float(np.trunc(a0 / 2))
            xi = a0 + k * np.arange(len(x), dtype=float)
            lin = (a0, k)
        else:
            if peak > 0 and (peak < 5 or peak > top):
                x = x * (min(top, float(rng.choice([10.0, 100.0, 1000.0]))) / peak)
            xi = np.round(x)
        return xi.astype(INT_DTYPE[kind]), ('list' if kind == 'intlist' else 'array'), lin
    if kind == 'f32':
        # the library integrates a float32 record in float32: keep dt^2*peak away from float32 underflow / overflow
        peak = float(np.max(np.abs(x))) if x.size else 0.0
        span = (len(x) * abs(float(dt))) ** 2
        if peak > 0 and (peak * float(dt) ** 2 < 1e-24 or peak * max(span, 1.0) > 1e30 or peak > 1e30):
            x = x * (1.0 / peak)
            if float(dt) ** 2 < 1e-24 or max(span, 1.0) > 1e30:
                return x, 'array', None     # this dt cannot be served in float32 at all: keep the record float64
            lin = None
        b = x.astype(np.float32)
        if lin is not None and not np.array_equal(b.astype(float), x):
            lin = None          # record no longer exactly linear after rounding to float32: closed form not claimed
        return b, 'array', lin
    if kind == 'mixedlist':
        x = np.array(x)
        peak = float(np.max(np.abs(x))) if x.size else 0.0
        if 0 < peak and (peak < 5 or peak > 1e9):
            x = x * (100.0 / peak)
        x[::2] = np.round(x[::2])       # integral values at even positions become Python ints
        return x, kind, None
    if kind in ('list', 'tuple', 'strided', 'reversed', 'readonly'):
        return x, kind, lin
    return x, 'array', lin


def make_array_case(rng, n=None, kinds=None):
    n = pick_n(rng) if n is None else n
    x, cls, lin = pick_record(rng, n)
    kinds = ARRAY_CONTAINERS if kinds is None else kinds
    kind = kinds[int(rng.integers(len(kinds)))]
    dt = pick_dt(rng)
    if _special(cls):       # these scales exist in float64 only
        kind = WIDE_KINDS[int(rng.integers(len(WIDE_KINDS)))]
        x = _fit_range(x, n, dt)
    base, cont, lin = to_container(rng, x, kind, lin, dt)
    y, ycls, _ = pick_record(rng, n)
    if _special(ycls):
        y = _fit_range(y, n, dt)
    return {'kind': 'arraycase', 'acc': base, 'container': cont, 'ckind': kind, 'cls': cls, 'dt': dt,
            'dt_kind': _dt_kind(dt), 'lin': list(lin) if lin is not None else None,
            'fn': 'calc_velo_and_disp_from_accel_arr' if rng.random() < 0.75 else
                  'velocity_and_displacement_from_acceleration',
            'rel_trap': bool(rng.random() < 0.6),
            'pow2': float(rng.choice([-1.0, 1.0]) * 2.0 ** int(rng.integers(-3, 6))),
            'alpha': float(rng.choice([-1.0, 1.0]) * 10.0 ** rng.uniform(-2, 2)),
            'beta': float(rng.choice([-1.0, 1.0]) * 10.0 ** rng.uniform(-2, 2)),
            'other': y, 'deprecated_peak': bool(rng.random() < 0.1),
            'style': CALL_STYLES[int(rng.integers(len(CALL_STYLES)))],
            'flag_form': FLAG_FORMS[int(rng.integers(len(FLAG_FORMS)))] if rng.random() < 0.4 else None,
            'xalpha': float(rng.choice([-1.0, 1.0]) * 10.0 ** (rng.uniform(165, 200) * rng.choice([-1.0, 1.0])))}


MUTATORS = ['reset_values', 'add_constant', 'add_series', 'add_signal', 'remove_average', 'remove_poly',
            'running_average', 'butter_pass', 'rebase_displacement', 'set_zero_residual_velocity',
            'set_zero_residual_displacement', 'set_zero_residual_displacement_and_velocity',
            'remove_rolling_average', 'correct_me', 'clear_cache', 'generate', 'generate', 'generate',
            'assign', 'assign', 'raise', 'outback', 'aba', 'aba']
READS = ['pga', 'pgv', 'pgd', 'velocity', 'displacement']


def _reads(rng, full=False):
    r = list(READS)
    rng.shuffle(r)
    if not full and rng.random() < 0.5:
        r = r[:int(rng.integers(1, 5))]
    if rng.random() < 0.3:
        r = r + [r[0]]      # a repeated read hits the cache
    return r


RS_FIRST = [0.0, 1.2, 2.0, 4.0, 5.9, 6.0, 10.0]


def _rs(rng):
    """Response-spectrum generation step: lazy read of s_a / s_d after setting response_times, or an explicit
    gen(erate)_response_spectrum call; first period given as a multiple of dt (0 = the PGA row)."""
    first = RS_FIRST[int(rng.integers(len(RS_FIRST)))]
    return ['rs', ['lazy_s_a', 'lazy_s_d', 'gen', 'gen', 'generate'][int(rng.integers(5))], first,
            [None, None, 1, 8][int(rng.integers(4))], int(rng.integers(2, 5)) if rng.random() < 0.85 else 0]


DERIVE_FIX = [['rebase_displacement'], ['set_zero_residual_velocity', None], ['remove_rolling_average', 'acceleration', 4],
              ['add_constant', 0.5], ['set_zero_residual_displacement']]


def _derive(rng):
    """A new AccSignal made BY THE LIBRARY from the (warm) object of the history; it is read, corrected in place and
    read again, and the source object must not notice."""
    kind = ['deepcopy', 'interp', 'interp', 'resample', 'combine', 'cluster', 'fas2signal'][int(rng.integers(7))]
    fix = DERIVE_FIX[int(rng.integers(len(DERIVE_FIX)))]
    if kind in ('interp', 'resample'):
        par = [int(rng.integers(1, 5)), 'up' if rng.random() < 0.6 else 'down', bool(rng.random() < 0.5)]
    elif kind == 'combine':
        par = [float(rng.choice([0.0, 0.0, 30.0, 90.0, -45.0])), rng.normal(size=64)]
    elif kind == 'cluster':
        par = [rng.normal(size=64)]
    else:
        par = []
    return ['derive', kind, fix] + par


def _feed(rng):
    """Hand one of the object's own arrays (values / cached velocity / cached displacement) to the array functions."""
    return ['feed', ['values', 'velocity', 'displacement'][int(rng.integers(3))], bool(rng.random() < 0.6),
            CALL_STYLES[int(rng.integers(len(CALL_STYLES)))]]


ASSIGN_ATTRS = ['values', 'values', 'values', 'dt', 'npts', 'response_times', 'response_times', 'label',
                'smooth_fa_freqs', 'smooth_freq_range', 'velocity', 'displacement', 'pga', 'pgv', 'pgd', 'time']
RAISERS = ['add_series_badlen', 'add_series_badlen', 'add_signal_baddt', 'add_signal_notsignal', 'butter_bad',
           'remove_poly_bad', 'rolling_bad']


def _gen_op(rng, p_true, styles=('kw', 'pos', 'default')):
    """Explicit generation step: [rule, call style, form of the flag]; 40 % of the flags are boolean-like objects that
    are not Python bools (numpy.bool_, 0-d bool array, 0 / 1 as Python int and numpy.int64)."""
    op = ['generate', bool(rng.random() < p_true), styles[int(rng.integers(len(styles)))]]
    if rng.random() < 0.4:
        op.append(FLAG_FORMS[int(rng.integers(len(FLAG_FORMS)))])
    return op


def _mutator_op(rng, m, n, dt, nmax=1500):
    """One history step for an AccSignal of n samples: (op, number of samples afterwards)."""
    if m == 'reset_values':
        n = pick_n(rng, nmax)
        y, ycls, _ = pick_record(rng, n)
        yk = OBJ_CONTAINERS[int(rng.integers(len(OBJ_CONTAINERS)))]
        if _special(ycls):
            yk, y = WIDE_KINDS[int(rng.integers(len(WIDE_KINDS)))], _fit_range(y, n, dt)
        b, c, _ = to_container(rng, y, yk, None, dt)
        op = [m, b, c]
    elif m == 'add_constant':
        op = [m, [1, -2, 0.5, float(rng.normal() * 10.0 ** rng.uniform(-2, 2))][int(rng.integers(4))]]
    elif m in ('add_series', 'add_signal'):
        y, ycls, _ = pick_record(rng, n)
        yk = ['f64', 'list', 'i64', 'f32', 'readonly', 'reversed', 'mixedlist', 'i16'][int(rng.integers(8))]
        if _special(ycls):
            yk, y = 'f64', _fit_range(y, n, dt)
        b, c, _ = to_container(rng, y, yk, None, dt)
        op = [m, b, c]
    elif m == 'remove_poly':
        op = [m, int(rng.integers(0, min(3, n - 1) + 1))]
        if n <= 16 and rng.random() < 0.4:      # detrending degree at / above the number of samples
            op = [m, [n - 1, n, n + 1, 2 * n][int(rng.integers(4))]]
    elif m == 'running_average':
        op = [m, int(rng.integers(1, 10))]
        if rng.random() < 0.15:                 # window longer than half the record / than the record
            op = [m, [n // 2 + 1, n, n + 2][int(rng.integers(3))]]
    elif m == 'butter_pass':
        lo = float(rng.uniform(0.01, 0.2)) if rng.random() < 0.7 else None
        hi = float(rng.uniform(0.3, 0.9)) if (lo is None or rng.random() < 0.7) else None
        if rng.random() < 0.15:     # corners next to the ends of the admissible band (fractions of the Nyquist frequency)
            if lo is not None:
                lo = float(rng.choice([1e-4, 5e-4, 9e-4]))
            if hi is not None:
                hi = float(rng.choice([0.991, 0.995, 0.999]))
        op = [m, lo, hi, int(rng.integers(1, 5)), [None, None, 'start', 'end', 'mid'][int(rng.integers(5))]]
    elif m == 'set_zero_residual_velocity':
        tz = None
        if rng.random() < 0.3 and n > 4:
            i0 = int(rng.integers(0, n - 2))
            tz = [i0, None if rng.random() < 0.5 else int(rng.integers(i0 + 1, n))]
        op = [m, tz]
    elif m == 'remove_rolling_average':
        op = [m, 'velocity' if rng.random() < 0.6 else 'acceleration', int(rng.integers(2, 10))]
        if rng.random() < 0.15:                 # search window longer than half the record / than the record
            op[2] = [n // 2 + 1, n, n + 2][int(rng.integers(3))]
    elif m == 'generate':
        op = _gen_op(rng, 0.35)
    elif m == 'assign':
        # assignment through a public attribute name after construction: the clean classes ignore it (values), refuse it
        # (read-only properties) or take it over completely (response_times, label, ...); never half of it
        attr = ASSIGN_ATTRS[int(rng.integers(len(ASSIGN_ATTRS)))]
        form = ['list', 'tuple', 'array'][int(rng.integers(3))]
        if attr in ('values', 'velocity', 'displacement', 'time'):
            k = [1, 2, 3, n, n, max(2, n // 2), n + 1][int(rng.integers(7))]
            y, _, _ = pick_record(rng, max(2, k))
            y = np.asarray(y[:k], dtype=float)
            y = y if np.all(np.abs(y) < 1e100) else np.sign(y)
            op = [m, attr, form, y]
        elif attr == 'response_times':
            k = int(rng.integers(1, 4))
            op = [m, attr, form, np.sort(rng.uniform(2.0, 40.0, size=k)) * float(dt)]
        elif attr in ('smooth_fa_freqs', 'smooth_freq_range'):
            k = 2 if attr == 'smooth_freq_range' else int(rng.integers(1, 4))
            op = [m, attr, form, np.sort(rng.uniform(0.02, 0.45, size=k)) / float(dt)]
        elif attr == 'label':
            op = [m, attr, 'str', 'renamed']
        else:       # dt, npts, pga, pgv, pgd: read-only
            op = [m, attr, 'scalar', [0.5 * float(dt), 3, 1.0, 2.5][int(rng.integers(4))]]
    elif m == 'raise':
        # operations the clean code refuses: the object must be as it was (or completely updated) afterwards
        kind = RAISERS[int(rng.integers(len(RAISERS)))]
        if kind == 'add_series_badlen':
            k = [n - 1, n + 1, 2 * n, max(2, n // 2), 0][int(rng.integers(5))]
            k = k if k not in (1, n) else n + 2       # (one entry would broadcast: a legitimate constant)
            op = [m, kind, rng.normal(size=k), ['array', 'list'][int(rng.integers(2))]]
        elif kind == 'add_signal_baddt':
            op = [m, kind, rng.normal(size=n), float(rng.choice([0.5, 2.0, 1.0 + 2.0 ** -30]))]
        elif kind == 'butter_bad':
            op = [m, kind, [[0.2, 1.5], [None, 1.0], [0.0, 0.5], [0.4, 0.3], 'scalar', [0.1, 0.2, 0.3]][int(rng.integers(6))]]
        else:
            op = [m, kind]
    elif m == 'outback':
        # the record leaves the quantifier (non-finite sample, 2-D, 0-d, one sample) and comes back to the same record
        op = [m, ['nan', 'inf', '-inf', '2d', '0d', 'one-sample'][int(rng.integers(6))], int(rng.integers(n))]
    elif m == 'aba':
        # f(A); f(B); f(A): the object holds record A, is given B (same or another length), then A again
        nb = n if rng.random() < 0.5 else pick_n(rng, nmax)
        y, ycls, _ = pick_record(rng, nb)
        if _special(ycls):
            y = _fit_range(y, nb, dt)
        op = [m, np.asarray(y, dtype=float), ['array', 'list', 'readonly'][int(rng.integers(3))],
              [None, None, True, False][int(rng.integers(4))], bool(rng.random() < 0.5)]
    else:
        op = [m]
    return op, n


def make_object_scenario(rng, nmax=1500, n=None):
    n = pick_n(rng, nmax) if n is None else n
    x, cls, _ = pick_record(rng, n)
    kind = OBJ_CONTAINERS[int(rng.integers(len(OBJ_CONTAINERS)))]
    dt = pick_dt(rng)
    if _special(cls):
        kind = WIDE_KINDS[int(rng.integers(len(WIDE_KINDS)))]
        x = _fit_range(x, n, dt)
    base, cont, _ = to_container(rng, x, kind, None, dt)
    ops = []
    rs_ok = n <= 2500
    if rs_ok and rng.random() < 0.4:
        ops.append(_rs(rng))            # spectrum generated on the fresh object, before any peak is read
    if rng.random() < 0.85 or ops:
        ops.append(['read', _reads(rng)])
        if rs_ok and rng.random() < 0.25:
            ops.append(_rs(rng))
            ops.append(['read', _reads(rng)])
        if rng.random() < 0.4:
            ops.append(_feed(rng))
            ops.append(['read', _reads(rng)])
        if rs_ok and rng.random() < 0.25:
            ops.append(_derive(rng))
        ops.append(['agree'])
    for _ in range(int(rng.integers(1, 6))):
        m = MUTATORS[int(rng.integers(len(MUTATORS)))]
        op, n = _mutator_op(rng, m, n, dt, nmax)
        rs_ok = n <= 2500
        ops.append(op)
        if rs_ok and rng.random() < 0.35:
            ops.append(_rs(rng))        # between the mutator and the first peak read that follows it
        ops.append(['read', _reads(rng, full=rng.random() < 0.6)])
        if rs_ok and rng.random() < 0.15:
            ops.append(_rs(rng))
            ops.append(['read', _reads(rng)])
        if rs_ok and rng.random() < 0.25:
            ops.append(_derive(rng))
        if rng.random() < 0.3:
            ops.append(_feed(rng))
            ops.append(['read', _reads(rng)])
        ops.append(['agree'])
    return {'kind': 'object', 'acc': base, 'container': cont, 'ckind': kind, 'cls': cls, 'dt': dt,
            'dt_kind': _dt_kind(dt), 'ops': ops}


# ------------------------------------------------------------------------------------------------------ drivers
def _scaled(base, factor):
    """base*factor in the dtype of base when that is exact for integers, else float64 (float32 stays float32)."""
    base = np.asarray(base)
    if base.dtype.kind in 'iu':
        if float(factor) == int(factor) and O.max_abs(base) * abs(factor) < 2.0 ** 62:
            return base.astype(np.int64) * int(factor)
        return base.astype(float) * float(factor)
    return base * float(factor)     # Python float is a weak scalar: float32 stays float32


def _rel_tols(eps, n, dt, vs, As, ds):
    """Worst-case rounding allowance for comparing running sums of related records: a running sum of n terms is
    off by at most ~n*eps*max|partial sum| plus eps*sum|terms| <= eps*n*dt*max|a|; the error of v propagates into d
    through n further panels of width dt."""
    return O.running_sum_tolerances(eps, n, dt, As, vs, ds)


def _styled_call(fn, X, dt, trap, style):
    """The same call written positionally, by keyword, or relying on the default of trap."""
    if style == 'pos':
        return fn(X, dt, trap)
    if style == 'allkw':
        return fn(acceleration=X, dt=dt, trap=trap)
    if style == 'default' and trap is True:
        return fn(X, dt)
    return fn(X, dt, trap=trap)


def _call_int(ctx, fn, fname, X, dt, trap, case):
    try:
        with warnings.catch_warnings():
            warnings.simplefilter('ignore')
            return _styled_call(fn, X, dt, trap, case.get('style', 'kw'))
    except Exception as e:
        if _domain(X, dt, trap) is None:
            w = dict(case)
            w['failed_at'] = '%s(%s, dt, trap=%r)' % (fname, _container_of(X), trap)
            ctx.exception('array.no-exception', w, e)
        else:
            ctx.observe('out-of-domain-exception')
        return None


def _peak(ctx, eqsig, x, case, deprecated=False):
    try:
        with warnings.catch_warnings():
            warnings.simplefilter('ignore')
            return float(eqsig.calculate_peak(x) if deprecated else eqsig.im.calc_peak(x))
    except Exception as e:
        w = dict(case)
        w['failed_at'] = 'calc_peak'
        ctx.exception('calc_peak==max|x|', w, e)
        return None


def run_array_case(eqsig, ctx, case):
    """One array case; afterwards the results of its FIRST calls (still held) must be what they were when returned,
    although several other records of the same shape went through the same functions in between, and the argument
    object handed to all those calls must still be bit-for-bit the stored record."""
    held = []
    first = {}
    _array_case(eqsig, ctx, case, held, first)
    if held:
        X, base, results = held[0], held[1], held[2:]
        okk = all(np.asarray(r).dtype == c.dtype and np.shape(r) == c.shape
                  and np.ascontiguousarray(r).tobytes() == c.tobytes() for r, c in results)
        ctx.check(okk, 'array.result-stable-after-later-calls', lambda: dict(case),
                  'a (velocity, displacement) result held by the caller changed while later calls with other records '
                  'of the same shape were made (n=%d, dt=%r)' % (len(base), case['dt']))
        same = np.array_equal(np.asarray(X, dtype=base.dtype) if isinstance(X, (list, tuple)) else X, base) and (
            isinstance(X, (list, tuple)) or X.dtype == base.dtype)
        ctx.check(same, 'array.args-unchanged', lambda: dict(case),
                  'the record object passed to every call of the case no longer equals the stored record')
        fname = case['fn']
        fn = getattr(eqsig.displacements, fname)
        dt = _dt_from(case)
        n = len(base)
        # a result belongs to the caller: every array of the first results is overwritten by the caller, then the same
        # call is made again and must return what it returned the first time (a memoised result handed out by reference
        # would come back with the caller's scribbles)
        edited = 0
        for r, c in results:
            if isinstance(X, np.ndarray) and np.shares_memory(r, X):
                ctx.observe('result-shares-memory-with-argument:not-edited')
                continue
            try:
                r[...] = -12345.0 if r.dtype.kind in 'fc' else 1
                edited += 1
            except Exception as e:
                ctx.observe('result-not-writable:%s' % type(e).__name__)
        for trap in (True, False):
            if trap not in first or not edited:
                continue
            r = _call_int(ctx, fn, fname, X, dt, trap, case)
            okk = (isinstance(r, tuple) and len(r) == 2 and all(
                isinstance(q, np.ndarray) and q.dtype == c.dtype and q.shape == c.shape
                and np.ascontiguousarray(q).tobytes() == c.tobytes() for q, c in zip(r, first[trap])))
            ctx.check(okk, 'array.result-belongs-to-caller', lambda: dict(case),
                      '%s(record, dt, trap=%r): after the caller overwrote the arrays of the first result, the same call '
                      'no longer returns what it returned the first time (n=%d, dt=%r)' % (fname, trap, n, case['dt']))
        # f(A); f(B); f(A): results depend on the arguments only. Records of the same shape went through in between;
        # now one of ANOTHER shape, then the first record (the same object) once more with both rules
        m = n // 2 if n >= 4 else n + 1
        B = np.resize(O.f64(case['other']), m) if len(case['other']) else np.ones(m)
        for trap in (False, True):
            _call_int(ctx, fn, fname, B, dt, trap, case)
        _peak(ctx, eqsig, B, case)
        for trap in (True, False):
            if trap not in first:
                continue
            r = _call_int(ctx, fn, fname, X, dt, trap, case)
            okk = (isinstance(r, tuple) and len(r) == 2 and all(
                isinstance(q, np.ndarray) and q.dtype == c.dtype and q.shape == c.shape
                and np.ascontiguousarray(q).tobytes() == c.tobytes() for q, c in zip(r, first[trap])))
            ctx.check(okk, 'array.repeat==first', lambda: dict(case),
                      '%s(record, dt, trap=%r) called again with the same record object after other records (same and '
                      'other shapes) went through: the result differs from the first one (n=%d, dt=%r)'
                      % (fname, trap, n, case['dt']))
        if first.get('p_x') is not None:
            p2 = _peak(ctx, eqsig, X, case, bool(case.get('deprecated_peak')))
            ctx.check(p2 is not None and np.float64(p2).tobytes() == np.float64(first['p_x']).tobytes(),
                      'array.repeat==first', lambda: dict(case),
                      'calc_peak(record) called again: %r, first time %r' % (p2, first['p_x']))


def _array_case(eqsig, ctx, case, held, first):
    fname = case['fn']
    fn = getattr(eqsig.displacements, fname)
    base = np.asarray(case['acc'])
    cont = case['container']
    X = materialise(base, cont)
    dt = _dt_from(case)
    n = len(base)
    xs = O.f64(base)
    Ax = O.max_abs(xs)
    wit = lambda: dict(case)
    why = _domain(X, dt, True)
    if why:             # never judged
        ctx.observe('out-of-domain-case:' + why)
        return
    res = {}
    held.extend([X, base])
    for trap in (True, False):
        res[trap] = _call_int(ctx, fn, fname, X, dt, trap, case)
        r = res[trap]
        if r is not None and isinstance(r, tuple) and len(r) == 2:
            held.extend([(q, np.array(q, copy=True)) for q in r if isinstance(q, np.ndarray)])
            if all(isinstance(q, np.ndarray) for q in r):
                first[trap] = tuple(np.array(q, copy=True) for q in r)
    # the two public names of the integration must agree (one delegates to the other today)
    oname = ('velocity_and_displacement_from_acceleration' if fname == 'calc_velo_and_disp_from_accel_arr'
             else 'calc_velo_and_disp_from_accel_arr')
    for trap in (True, False):
        r1 = res[trap]
        r2 = _call_int(ctx, getattr(eqsig.displacements, oname), oname, X, dt, trap, case)
        if r1 is None or r2 is None or any(np.shape(q) != (n,) for q in (r1[0], r1[1], r2[0], r2[1])):
            continue
        e_ = O.eps_of(base)
        tv, td = O.running_sum_tolerances(e_, n, dt, Ax, 2 * O.max_abs(r1[0]), 2 * O.max_abs(r1[1]))
        ev = float(np.max(np.abs(O.f64(r1[0]) - O.f64(r2[0]))))
        ed = float(np.max(np.abs(O.f64(r1[1]) - O.f64(r2[1]))))
        ctx.check(ev <= tv and ed <= td, 'array.alias==primary', wit,
                  '%s and %s disagree (trap=%r): max dv=%.3g (allowed %.3g) max dd=%.3g (allowed %.3g)'
                  % (fname, oname, trap, ev, tv, ed, td))
    # boolean-like flags that are not Python bools (numpy.bool_, 0-d bool array, 0 / 1): the same call, the same result
    form = case.get('flag_form')
    if form:
        for trap in (True, False):
            r1 = res[trap]
            if r1 is None or not (isinstance(r1, tuple) and len(r1) == 2):
                continue
            r2 = _call_int(ctx, fn, fname, X, dt, _flag_as(trap, form), case)
            if r2 is None:
                continue

            def same(p, q):
                return (isinstance(p, tuple) and isinstance(q, tuple) and len(p) == len(q) == 2 and all(
                    isinstance(u, np.ndarray) and isinstance(w, np.ndarray) and u.dtype == w.dtype and u.shape == w.shape
                    and np.ascontiguousarray(u).tobytes() == np.ascontiguousarray(w).tobytes() for u, w in zip(p, q)))
            okk = same(r2, r1)
            if ROUTE_PENDING_FLAG and not okk and trap is False and res[True] is not None and same(r2, res[True]):
                ctx.observe(PENDING_FLAG)       # (the monitor of that call routed it as well)
                continue
            ctx.check(okk, 'array.flag-form==python-bool', wit,
                      '%s(record, dt, trap=%r as %s) does not return what trap=%r returns (n=%d %s, dt=%r)'
                      % (fname, trap, form, trap, n, cont, dt))
    if base.dtype.kind == 'b':
        # on/off record: the series are those of the record with samples 0.0 / 1.0 (two neighbouring on-samples add up
        # to 2), with both rules
        for trap in (True, False):
            if res[trap] is None:
                continue
            okk, txt = _vs_given_record(xs, dt, trap, res[trap][0], res[trap][1])
            ctx.check(okk, 'array.bool-record==integral(0/1 record)', wit,
                      '%s(%s of bool, n=%d, dt=%r, trap=%r) vs the integral of the 0.0/1.0 record: %s'
                      % (fname, cont, n, dt, trap, txt))
    dep = bool(case.get('deprecated_peak'))
    p_x = _peak(ctx, eqsig, X, case, dep)
    first['p_x'] = p_x
    # closed forms implied by the increment identity (trap=True only)
    lin = case.get('lin')
    if lin is not None and res[True] is not None and np.shape(res[True][0]) == (n,) and np.shape(res[True][1]) == (n,):
        a0, k = float(lin[0]), float(lin[1])
        s = k / float(dt)
        v, d = res[True]
        eps = O.eps_of(base)
        rv, rd = O.closed_form_linear(a0, s, dt, n)
        sv, sd = O.closed_form_scales(a0, s, dt, n)
        clause = 'array.exact.const' if k == 0 else 'array.exact.linear'
        ev = float(np.max(np.abs(O.f64(v) - rv)))
        ed = float(np.max(np.abs(O.f64(d) - rd)))
        fl = O.underflow_floor(eps, n)
        ctx.check(ev <= 4 * n * eps * sv + fl and ed <= 16 * n * eps * sd + fl, clause, wit,
                  'a=%r+%r*i, dt=%r, n=%d: max|v - closed form|=%.3g (allowed %.3g), max|d - closed form|=%.3g '
                  '(allowed %.3g)' % (a0, k, dt, n, ev, 4 * n * eps * sv, ed, 16 * n * eps * sd))
    # relations between executions
    trap = bool(case['rel_trap'])
    if res[trap] is None or np.shape(res[trap][0]) != (n,) or np.shape(res[trap][1]) != (n,):
        return
    v = O.f64(res[trap][0])
    d = O.f64(res[trap][1])
    if not (np.all(np.isfinite(v)) and np.all(np.isfinite(d))):
        return
    epsx = O.eps_of(base)
    Vx, Dx = O.max_abs(v), O.max_abs(d)
    p_v = _peak(ctx, eqsig, res[trap][0], case)
    p_d = _peak(ctx, eqsig, res[trap][1], case)

    def related(factor):
        b = _scaled(base, factor)
        Y = materialise(b, cont)
        r = _call_int(ctx, fn, fname, Y, dt, trap, case)
        if r is None or np.shape(r[0]) != (n,) or np.shape(r[1]) != (n,):
            return None
        return Y, O.f64(r[0]), O.f64(r[1]), r

    # sign reversal and power-of-two scaling: exact in IEEE arithmetic (4 ulps of the peak allowed)
    for clause, factor in (('rel.sign', -1.0), ('rel.scale.pow2', float(case['pow2']))):
        out = related(factor)
        if out is None:
            continue
        Y, v2, d2, raw = out
        ev = float(np.max(np.abs(v2 - factor * v)))
        ed = float(np.max(np.abs(d2 - factor * d)))
        fl = O.underflow_floor(epsx, n) * max(1.0, abs(factor))      # (2^k scaling is not exact in the subnormal range)
        tv, td = 4 * epsx * abs(factor) * Vx + fl, 4 * epsx * abs(factor) * Dx + fl
        ctx.check(ev <= tv and ed <= td, clause, wit,
                  'series of (%r * record) differ from %r * series: max dv=%.3g (allowed %.3g) max dd=%.3g (allowed '
                  '%.3g), trap=%r' % (factor, factor, ev, tv, ed, td, trap))
        q_x = _peak(ctx, eqsig, Y, case)
        q_v = _peak(ctx, eqsig, raw[0], case)
        q_d = _peak(ctx, eqsig, raw[1], case)
        if None in (p_x, p_v, p_d, q_x, q_v, q_d):
            continue
        f = abs(factor)
        okp = (q_x == f * p_x and abs(q_v - f * p_v) <= 4 * epsx * f * p_v + fl
               and abs(q_d - f * p_d) <= 4 * epsx * f * p_d + fl)
        ctx.check(okp, 'peak.sign-invariant' if factor == -1.0 else 'peak.scale|alpha|', wit,
                  'peaks of (%r * record): PGA %r PGV %r PGD %r; |factor| * peaks of record: %r %r %r (trap=%r)'
                  % (factor, q_x, q_v, q_d, f * p_x, f * p_v, f * p_d, trap))
    # arbitrary alpha: peaks scale with |alpha|
    alpha, beta = float(case['alpha']), float(case['beta'])
    out = related(alpha)
    if out is not None:
        Y, v2, d2, raw = out
        q_x = _peak(ctx, eqsig, Y, case)
        q_v = _peak(ctx, eqsig, raw[0], case)
        q_d = _peak(ctx, eqsig, raw[1], case)
        if None not in (p_x, p_v, p_d, q_x, q_v, q_d):
            f = abs(alpha)
            eps = epsx
            tv, td = _rel_tols(eps, n, dt, 2 * f * Vx, 2 * f * Ax, 2 * f * Dx)
            tv += f * O.underflow_floor(eps, n)
            td += f * O.underflow_floor(eps, n)
            okp = (abs(q_x - f * p_x) <= 4 * eps * f * p_x + O.underflow_floor(eps)
                   and abs(q_v - f * p_v) <= tv and abs(q_d - f * p_d) <= td)
            ctx.check(okp, 'peak.scale|alpha|', wit,
                      'peaks of (%r * record): PGA %r PGV %r PGD %r; |alpha| * peaks of record: %r %r %r (allowed dv '
                      '%.3g dd %.3g, trap=%r)' % (alpha, q_x, q_v, q_d, f * p_x, f * p_v, f * p_d, tv, td, trap))
    # |alpha| scaling across ~180 decades: a record whose SQUARES under- / overflow while every value, its integrals
    # and its peaks are ordinary finite doubles (float64 records only)
    xa = case.get('xalpha')
    if xa is not None and base.dtype.kind in 'iub' or (xa is not None and base.dtype == np.float64):
        xa = float(xa)
        f = abs(xa)
        span = max(1.0, n * abs(float(dt)), (n * abs(float(dt))) ** 2)
        if 0 < Ax and 1e-290 < Ax * f * min(1.0, float(dt), float(dt) ** 2) and Ax * f * span < 1e300:
            Y = materialise(xs * xa, cont if cont in ('list', 'tuple', 'strided', 'reversed', 'readonly') else 'array')
            r = _call_int(ctx, fn, fname, Y, dt, trap, case)
            q_x = _peak(ctx, eqsig, Y, case)
            if r is not None and np.shape(r[0]) == (n,) and np.shape(r[1]) == (n,) and None not in (p_x, p_v, p_d, q_x):
                q_v = _peak(ctx, eqsig, r[0], case)
                q_d = _peak(ctx, eqsig, r[1], case)
                if q_v is not None and q_d is not None:
                    tv, td = _rel_tols(epsx, n, dt, 2 * f * Vx, 2 * f * Ax, 2 * f * Dx)
                    # peaks of the unscaled record that lie in the subnormal range carry an ABSOLUTE rounding error,
                    # which the comparison magnifies by |alpha|
                    tv += f * O.underflow_floor(epsx, n)
                    td += f * O.underflow_floor(epsx, n)
                    okp = (abs(q_x - f * p_x) <= 4 * epsx * f * p_x and abs(q_v - f * p_v) <= tv
                           and abs(q_d - f * p_d) <= td)
                    ctx.check(okp, 'peak.scale|alpha|.extreme', wit,
                              'peaks of (%r * record): PGA %r PGV %r PGD %r; |alpha| * peaks of record: %r %r %r '
                              '(allowed dv %.3g dd %.3g, trap=%r)'
                              % (xa, q_x, q_v, q_d, f * p_x, f * p_v, f * p_d, tv, td, trap))
    # linearity: z = alpha*x + beta*y (float64 combination)
    y = O.f64(case['other'])
    if len(y) == n:
        ry = _call_int(ctx, fn, fname, y, dt, trap, case)
        z = alpha * xs + beta * y
        rz = _call_int(ctx, fn, fname, z, dt, trap, case)
        if ry is not None and rz is not None and all(np.shape(q) == (n,) for q in (ry[0], ry[1], rz[0], rz[1])):
            vy, dy, vz, dz = O.f64(ry[0]), O.f64(ry[1]), O.f64(rz[0]), O.f64(rz[1])
            a_, b_ = abs(alpha), abs(beta)
            tv, td = _rel_tols(epsx, n, dt, a_ * Vx + b_ * O.max_abs(vy) + O.max_abs(vz),
                               a_ * Ax + b_ * O.max_abs(y) + O.max_abs(z),
                               a_ * Dx + b_ * O.max_abs(dy) + O.max_abs(dz))
            tv += (a_ + b_) * O.underflow_floor(epsx, n)
            td += (a_ + b_) * O.underflow_floor(epsx, n)
            ev = float(np.max(np.abs(vz - (alpha * v + beta * vy))))
            ed = float(np.max(np.abs(dz - (alpha * d + beta * dy))))
            ctx.check(ev <= tv and ed <= td, 'rel.linearity', wit,
                      'series of alpha*x+beta*y vs alpha*series(x)+beta*series(y): max dv=%.3g (allowed %.3g) max '
                      'dd=%.3g (allowed %.3g), alpha=%r beta=%r trap=%r' % (ev, tv, ed, td, alpha, beta, trap))


def _apply_mutator(eqsig, a, op):
    m = op[0]
    if m == 'reset_values':
        a.reset_values(materialise(op[1], op[2]))
    elif m == 'reset_same':         # the same record once more, as a new array
        a.reset_values(np.array(a.values, copy=True))
    elif m == 'add_constant':
        a.add_constant(op[1])
    elif m == 'add_series':
        a.add_series(materialise(op[1], op[2]))
    elif m == 'add_signal':
        a.add_signal(eqsig.AccSignal(materialise(op[1], op[2]), a.dt))
    elif m == 'remove_average':
        a.remove_average()
    elif m == 'remove_poly':
        a.remove_poly(int(op[1]))
    elif m == 'running_average':
        a.running_average(int(op[1]))
    elif m == 'butter_pass':
        nyq = 0.5 / float(a.dt)
        lo = None if op[1] is None else op[1] * nyq
        hi = None if op[2] is None else op[2] * nyq
        kw = {'filter_order': int(op[3])}
        if op[4] is not None:
            kw['remove_gibbs'] = op[4]
        a.butter_pass((lo, hi), **kw)
    elif m == 'rebase_displacement':
        a.rebase_displacement()
    elif m == 'set_zero_residual_velocity':
        tz = op[1]
        if tz is None:
            a.set_zero_residual_velocity()
        else:
            a.set_zero_residual_velocity(timezone=((tz[0] + 0.5) * float(a.dt),
                                                   None if tz[1] is None else (tz[1] + 0.5) * float(a.dt)))
    elif m == 'set_zero_residual_displacement':
        a.set_zero_residual_displacement()
    elif m == 'set_zero_residual_displacement_and_velocity':
        tz = op[1] if len(op) > 1 else None
        if tz is None:
            a.set_zero_residual_displacement_and_velocity()
        else:
            a.set_zero_residual_displacement_and_velocity(
                timezone=((tz[0] + 0.5) * float(a.dt), None if tz[1] is None else (tz[1] + 0.5) * float(a.dt)))
    elif m == 'remove_rolling_average':
        a.remove_rolling_average(mtype=op[1], freq_window=1.0 / ((int(op[2]) + 0.5) * float(a.dt)))
    elif m == 'correct_me':
        a.correct_me()
    elif m == 'clear_cache':
        a.clear_cache()
    elif m == 'generate':
        style = op[2] if len(op) > 2 else 'kw'
        flag = _flag_as(bool(op[1]), op[3] if len(op) > 3 else 'bool')
        if style == 'pos':
            a.generate_displacement_and_velocity_series(flag)
        elif style == 'default' and bool(op[1]) and len(op) <= 3:
            a.generate_displacement_and_velocity_series()
        else:
            a.generate_displacement_and_velocity_series(trap=flag)
    elif m == 'assign':
        attr, form, val = op[1], op[2], op[3]
        if form in ('list', 'tuple', 'array'):
            val = np.array(val, dtype=float)
            val = val.tolist() if form == 'list' else (tuple(val.tolist()) if form == 'tuple' else val)
        setattr(a, attr, val)       # read-only properties raise AttributeError (counted by the caller)
        if attr == 'response_times':
            a.s_a                   # lazily generated with the assigned periods (not judged here)
    elif m == 'raise':
        kind = op[1]
        if kind == 'add_series_badlen':
            a.add_series(materialise(op[2], op[3]))
        elif kind == 'add_signal_baddt':
            a.add_signal(eqsig.AccSignal(np.resize(np.asarray(op[2], dtype=float), len(np.asarray(a.values))),
                                         float(a.dt) * float(op[3])))
        elif kind == 'add_signal_notsignal':
            a.add_signal(np.asarray(a.values) * 0.5)
        elif kind == 'butter_bad':
            nyq = 0.5 / float(a.dt)
            c = op[2]
            a.butter_pass(0.3 * nyq if c == 'scalar' else tuple(None if q is None else q * nyq for q in c))
        elif kind == 'remove_poly_bad':
            a.remove_poly(-1)
        else:
            a.remove_rolling_average(mtype='velocity', freq_window=4.0 / float(a.dt))
    elif m == 'outback':
        keep = np.array(a.values, copy=True)
        kind = op[1]
        try:
            if kind in ('nan', 'inf', '-inf'):
                y = np.array(keep, dtype=np.result_type(keep.dtype, np.float32))
                y[int(op[2]) % len(y)] = float(kind)
                a.reset_values(y)
            elif kind == '2d':
                a.reset_values(np.vstack([keep, keep]))
            elif kind == '0d':
                a.reset_values(np.float64(1.5))
            else:
                a.reset_values(keep[:1])
            for nm in READS:        # whatever these return or raise is outside the quantifier (the monitors say so)
                try:
                    getattr(a, nm)
                except Exception:
                    pass
        except Exception:
            pass
        a.reset_values(keep)        # back inside: from here on every read is judged again
    else:
        raise ValueError('unknown op %r' % (m,))


def _fingerprint(ctx, a, scen, who, order=None):
    """Everything the property speaks about, read through the monitored properties: (record bytes, the three peaks,
    both series) - None when the object is outside the quantifier or a read raised."""
    if _domain(a.values, a.dt, True) is not None:
        ctx.observe('out-of-domain(obj):not-fingerprinted')
        return None
    got = {}
    for nm in (READS if order is None else order):
        try:
            got[nm] = getattr(a, nm)
            ctx.ok('obj.no-exception')
        except Exception as e:
            ctx.exception('obj.no-exception', dict(scen, failed_at='%s read %s' % (who, nm)), e)
            return None
    v = np.asarray(a.values)
    return ((str(v.dtype), v.shape, v.tobytes(), repr(a.dt), MODE.get(a, True))
            + tuple(np.float64(got[nm]).tobytes() for nm in ('pga', 'pgv', 'pgd'))
            + tuple((str(np.asarray(got[nm]).dtype), np.shape(got[nm]), np.ascontiguousarray(got[nm]).tobytes())
                    for nm in ('velocity', 'displacement')))


FP_NAMES = ['values.dtype', 'values.shape', 'values', 'dt', 'integration rule', 'pga', 'pgv', 'pgd', 'velocity',
            'displacement']


def _fp_diff(f1, f2):
    return [FP_NAMES[i] for i in range(len(FP_NAMES)) if f1[i] != f2[i]]


def _aba(eqsig, ctx, a, op, scen, k):
    """f(A); f(B); f(A): what the object reports for record A the second time is bit-for-bit what it reported first."""
    if _domain(a.values, a.dt, True) is not None:
        return
    A = np.array(a.values, copy=True)
    trap = op[3]

    def gen():
        if trap is not None:
            a.generate_displacement_and_velocity_series(trap=bool(trap))
            CUR['after_switch'] = True
    try:
        a.reset_values(A)
        gen()
        first = _fingerprint(ctx, a, scen, 'aba first', READS)
        a.reset_values(materialise(op[1], op[2]))
        CUR['after_switch'] = False
        if len(op) > 4 and op[4]:     # the record in between integrated with the explicit rule as well
            gen()
        _fingerprint(ctx, a, scen, 'aba other record', READS[::-1])
        a.reset_values(np.array(A, copy=True))
        CUR['after_switch'] = False
        gen()
        third = _fingerprint(ctx, a, scen, 'aba third', READS[::-1])
    except Exception as e:
        ctx.exception('obj.no-exception', dict(scen, failed_at='op %d aba' % k), e)
        return
    if first is None or third is None:
        return
    ctx.check(first == third, 'obj.repeat==first', lambda: dict(scen, failed_at='op %d aba' % k),
              'the object held record A (n=%d), then another record (n=%d), then A again (trap=%r): %s differ from what '
              'it reported for A the first time' % (len(A), len(op[1]), trap, _fp_diff(first, third)))


def _do_op(eqsig, ctx, a, op, scen, k, who=''):
    """One step of a history on the object a; returns 'stop' when the object left the quantifier at a read."""
    if op[0] == 'read':
        if _domain(a.values, a.dt, True) is not None:
            ctx.observe('out-of-domain(obj):scenario-stopped')
            return 'stop'
        for nm in op[1]:
            try:
                getattr(a, nm)
                ctx.ok('obj.no-exception')
            except Exception as e:
                ctx.exception('obj.no-exception', dict(scen, failed_at='%sop %d read %s' % (who, k, nm)), e)
    elif op[0] == 'agree':
        _agree(eqsig, ctx, a, scen, k)
    elif op[0] == 'derive':
        _run_derive(eqsig, ctx, a, op, scen, k)
    elif op[0] == 'aba':
        _aba(eqsig, ctx, a, op, scen, k)
    elif op[0] == 'warm':
        # other lazily filled memos of the object (none of them is judged here; they must not disturb the peak reads)
        try:
            if op[1] == 'fa':
                a.fa_spectrum
            elif op[1] == 'smooth':
                a.smooth_fa_spectrum
            elif len(np.asarray(a.values)) <= 160:
                a.swtf = eqsig.stockwell.transform(np.asarray(a.values))     # what eqsig.stockwell memoises
            ctx.observe('warm-step:%s' % op[1])
        except Exception as e:
            ctx.observe('warm-exception:%s:%s' % (op[1], type(e).__name__))
    elif op[0] == 'rs':
        # not judged itself (C03/C04 territory); it must not disturb what the peak reads return
        try:
            dtf = float(a.dt)
            first = float(op[2]) * dtf
            nz = first if first > 0 else 2.0 * dtf
            rt = np.array([first] + [nz * (2.5 + 3.0 * j) for j in range(int(op[4]))])
            kw = {} if op[3] is None else {'min_dt_ratio': op[3]}
            if op[1].startswith('lazy'):
                a.response_times = rt
                getattr(a, op[1][5:])
            elif op[1] == 'gen':
                a.gen_response_spectrum(response_times=rt, **kw)
            else:
                a.generate_response_spectrum(rt, -1, *([op[3]] if op[3] is not None else []))
            ctx.observe('response-spectrum-step')
        except Exception as e:
            ctx.observe('response-spectrum-exception:%s' % type(e).__name__)
    elif op[0] == 'feed':
        # the array the property hands out goes straight into the array functions (monitored: result,
        # purity of the argument); the reads that follow re-judge the object against its values
        if _domain(a.values, a.dt, True) is not None:
            return None
        try:
            src = getattr(a, op[1])
            _styled_call(eqsig.displacements.calc_velo_and_disp_from_accel_arr, src, a.dt, bool(op[2]),
                         op[3])
            eqsig.im.calc_peak(src)
            ctx.ok('obj.no-exception')
        except Exception as e:
            if _domain(getattr(a, op[1]), a.dt, True) is None:
                ctx.exception('obj.no-exception', dict(scen, failed_at='%sop %d feed %s' % (who, k, op[1])), e)
            else:
                ctx.observe('out-of-domain-exception')
    else:
        try:
            _apply_mutator(eqsig, a, op)
            CUR['after_switch'] = (op[0] == 'generate')
        except Exception as e:      # a mutator that raised may have left the caches as they were
            ctx.observe('mutator-exception:%s:%s' % (op[0] if op[0] not in ('raise', 'assign') else
                                                      '%s.%s' % (op[0], op[1]), type(e).__name__))
    return None


KEEPS_RECORD = ('read', 'rs', 'warm', 'feed', 'agree', 'derive', 'generate', 'clear_cache')


def _given_bool_record(ctx, a, given, dt, scen, k):
    mode = MODE.get(a, True)
    if mode is None or _domain(given, dt, True) is not None:
        return
    try:
        v, d = a.velocity, a.displacement
        peaks = [float(a.pga), float(a.pgv), float(a.pgd)]
    except Exception as e:
        ctx.exception('obj.no-exception', dict(scen, failed_at='op %d reads of the on/off record' % k), e)
        return
    okk, txt = _vs_given_record(given, dt, mode, v, d, peaks)
    ctx.check(okk, 'obj.bool-record==integral(0/1 record)', lambda: dict(scen, failed_at='op %d read' % k),
              'AccSignal given a bool record (n=%d, dt=%r, trap=%r) vs the integral of the 0.0/1.0 record: %s'
              % (len(given), dt, mode, txt))


def _check_dt(ctx, objs, dt, s_dt, dt0, scen, where):
    """The caller's time step is the reference: the object reports exactly the step it was given, and the caller's own dt
    object (a 0-d array is mutable) is bit-for-bit what it was when the object was built."""
    for a in objs:
        try:
            got = float(a.dt)
        except Exception:
            got = float('nan')
        ctx.check(got == dt0, 'obj.dt==dt-given', lambda: dict(scen, failed_at=where),
                  'the object was built with dt=%r and now reports dt=%r (%s)' % (dt0, a.dt, where))
    if isinstance(dt, np.ndarray):
        ctx.check(_unchanged(dt, s_dt), 'obj.caller-0d-dt-unchanged', lambda: dict(scen, failed_at=where),
                  'the 0-d array the caller passed as dt held %r and now holds %r (%s)' % (dt0, dt, where))


def run_object_scenario(eqsig, ctx, scen):
    CUR['scenario'] = scen
    CUR['after_switch'] = False
    try:
        X = materialise(scen['acc'], scen['container'])
        dt = _dt_from(scen)
        with warnings.catch_warnings():
            warnings.simplefilter('ignore')
            try:
                a = eqsig.AccSignal(X, dt)
            except Exception as e:
                ctx.exception('obj.no-exception', dict(scen, failed_at='AccSignal()'), e)
                return
            given = np.asarray(scen['acc']) if np.asarray(scen['acc']).dtype.kind == 'b' else None
            s_dt, dt0 = _snap(dt), float(dt)
            _check_dt(ctx, [a], dt, s_dt, dt0, scen, 'after construction')
            for k, op in enumerate(scen['ops']):
                stop = _do_op(eqsig, ctx, a, op, scen, k) == 'stop'
                _check_dt(ctx, [a], dt, s_dt, dt0, scen, 'after op %d %s' % (k, op[0]))
                if stop:
                    return
                # on/off records: what the object reports is judged against the record THE CALLER GAVE (samples
                # 0.0 / 1.0), at the first read after the object received it
                if op[0] == 'reset_values':
                    given = np.asarray(op[1]) if np.asarray(op[1]).dtype.kind == 'b' else None
                elif op[0] not in KEEPS_RECORD:
                    given = None
                if given is not None and op[0] == 'read':
                    _given_bool_record(ctx, a, given, dt, scen, k)
                    given = None
    finally:
        CUR['scenario'] = None
        CUR['after_switch'] = False


TWIN_LINKS = ['same-caller-array', 'from-raw-values', 'reset-caller-array', 'reset-raw-values']
TWIN_MUTATORS = ['rebase_displacement', 'rebase_displacement', 'remove_rolling_average', 'set_zero_residual_velocity',
                 'set_zero_residual_velocity', 'set_zero_residual_displacement',
                 'set_zero_residual_displacement_and_velocity', 'set_zero_residual_displacement_and_velocity',
                 'running_average', 'butter_pass', 'add_constant']


def make_twin_scenario(rng, nmax=1500):
    """Two AccSignal objects built from the SAME caller array (or from each other's values); only one is corrected."""
    n = max(64, pick_n(rng, nmax))
    while True:
        x, cls, _ = pick_record(rng, n)
        if np.any(x != 0) and np.all(np.isfinite(x)):
            break
    y, _, _ = pick_record(rng, max(64, pick_n(rng, nmax)))
    dt = pick_dt(rng)
    ops = []
    for _ in range(int(rng.integers(1, 3))):
        m = TWIN_MUTATORS[int(rng.integers(len(TWIN_MUTATORS)))]
        if m == 'remove_rolling_average':
            op = [m, 'acceleration' if rng.random() < 0.6 else 'velocity', int(rng.integers(2, 10))]
        elif m in ('set_zero_residual_velocity', 'set_zero_residual_displacement_and_velocity'):
            tz = None
            if rng.random() < 0.4:
                i0 = int(rng.integers(0, n - 8))
                tz = [i0, None if rng.random() < 0.5 else int(rng.integers(i0 + 4, n))]
            op = [m, tz]
        elif m == 'running_average':
            op = [m, int(rng.integers(2, 10))]
        elif m == 'butter_pass':
            op = [m, float(rng.uniform(0.01, 0.2)), float(rng.uniform(0.3, 0.9)), int(rng.integers(1, 5)), None]
        elif m == 'add_constant':
            op = [m, [1, -2, 0.5, float(rng.normal())][int(rng.integers(4))]]
        else:
            op = [m]
        ops.append(op)
    return {'kind': 'twin', 'acc': np.asarray(x, dtype=float), 'container': 'array', 'ckind': 'f64', 'cls': cls,
            'dt': dt, 'dt_kind': _dt_kind(dt), 'link': TWIN_LINKS[int(rng.integers(len(TWIN_LINKS)))],
            'other': np.asarray(y, dtype=float), 'ops': ops, 'reads0': _reads(rng, full=True),
            'reads1': _reads(rng, full=True)}


def _read_all(ctx, a, names, scen, who):
    if _domain(a.values, a.dt, True) is not None:
        ctx.observe('out-of-domain(obj):twin-%s-not-read' % who)
        return
    for nm in names:
        try:
            getattr(a, nm)
            ctx.ok('obj.no-exception')
        except Exception as e:
            ctx.exception('obj.no-exception', dict(scen, failed_at='twin read %s.%s' % (who, nm)), e)


def run_twin_scenario(eqsig, ctx, scen):
    """raw and cor are separate objects; correcting cor must leave raw's record, series and peaks alone. The object
    monitors judge every read (series vs the object's CURRENT values, peaks vs series); the driver adds the bit-for-bit
    comparison of raw.values with its state before cor was touched."""
    CUR['scenario'] = scen
    CUR['after_switch'] = False
    try:
        A = np.array(scen['acc'], dtype=float)      # the caller's ndarray, handed to both objects
        dt = _dt_from(scen)
        link = scen['link']
        with warnings.catch_warnings():
            warnings.simplefilter('ignore')
            try:
                raw = eqsig.AccSignal(A, dt)
                if link == 'same-caller-array':
                    cor = eqsig.AccSignal(A, dt)
                elif link == 'from-raw-values':
                    cor = eqsig.AccSignal(raw.values, dt)
                elif link == 'reset-caller-array':
                    cor = eqsig.AccSignal(np.array(scen['other'], dtype=float), dt)
                    cor.reset_values(A)
                else:
                    cor = eqsig.AccSignal(np.array(scen['other'], dtype=float), dt)
                    cor.reset_values(raw.values)
            except Exception as e:
                ctx.exception('obj.no-exception', dict(scen, failed_at='twin construction'), e)
                return
            s_dt, dt0 = _snap(dt), float(dt)
            _read_all(ctx, raw, scen['reads0'], scen, 'raw')        # fills the lazy caches of both
            _read_all(ctx, cor, scen['reads1'], scen, 'cor')
            _check_dt(ctx, [raw, cor], dt, s_dt, dt0, scen, 'twin: after the first reads')
            before = np.array(raw.values, copy=True)
            with attach.paused():       # the series the caller still holds from the untouched object
                held = [raw.velocity, raw.displacement]
            held_copy = [np.array(h, copy=True) for h in held]
            for op in scen['ops']:
                try:
                    _apply_mutator(eqsig, cor, op)
                except Exception as e:
                    ctx.observe('mutator-exception:%s:%s' % (op[0], type(e).__name__))
            now = np.asarray(raw.values)
            same = (now.dtype == before.dtype and now.shape == before.shape
                    and now.tobytes() == before.tobytes())

            def _msg():
                if now.shape != before.shape:
                    return 'shape %s -> %s' % (before.shape, now.shape)
                bad = np.flatnonzero(now != before)
                return '%d of %d samples differ, first at i=%s: %r -> %r' % (
                    len(bad), len(now), bad[0] if len(bad) else None,
                    before[bad[0]] if len(bad) else None, now[bad[0]] if len(bad) else None)
            ctx.check(same, 'obj.twin.untouched-object-still-consistent',
                      lambda: dict(scen, failed_at='raw.values after %s on the twin' % [o[0] for o in scen['ops']]),
                      'link=%s: %s applied to the OTHER object changed this object\'s values (%s); its cached '
                      'velocity/displacement/peaks no longer belong to the record it holds'
                      % (link, [o[0] for o in scen['ops']], _msg() if not same else ''))
            ctx.check(all(np.asarray(h).shape == c.shape and np.asarray(h).tobytes() == c.tobytes()
                          for h, c in zip(held, held_copy)), 'obj.twin.held-series-unchanged',
                      lambda: dict(scen, failed_at='held velocity/displacement of raw'),
                      'link=%s: velocity/displacement arrays obtained from the untouched object changed while %s ran '
                      'on the other object' % (link, [o[0] for o in scen['ops']]))
            _read_all(ctx, raw, scen['reads1'], scen, 'raw')
            _read_all(ctx, cor, scen['reads0'], scen, 'cor')
            _agree(eqsig, ctx, raw, scen, -1)
            _agree(eqsig, ctx, cor, scen, -2)
            _check_dt(ctx, [raw, cor], dt, s_dt, dt0, scen, 'twin: after %s on one object' % [o[0] for o in scen['ops']])
    finally:
        CUR['scenario'] = None
        CUR['after_switch'] = False


PROTO_HOW = ['copy', 'copy', 'copy', 'copy', 'deepcopy', 'deepcopy', 'pickle', 'pickle']
PROTO_SOURCE = ['plain', 'plain', 'plain', 'plain', 'cluster-member', 'cluster-copy']
PROTO_STATE = ['cold', 'cold', 'peaks', 'peaks', 'pga', 'series', 'all', 'all', 'rs', 'all+rs', 'fa', 'smooth',
               'stockwell', 'rect', 'rect', 'mutated']
# mutators that give the object a NEW value buffer (shallow copies share the buffer by definition: only these may come
# first after copy.copy)
REBINDERS = ['reset_values', 'reset_values', 'reset_values', 'reset_scaled', 'reset_scaled', 'reset_scaled',
             'reset_same', 'add_constant', 'add_constant', 'add_series', 'add_signal', 'remove_average', 'remove_poly',
             'running_average', 'butter_pass', 'remove_rolling_average', 'correct_me']
PROTO_LATER = MUTATORS + ['reset_scaled', 'reset_scaled', 'reset_same']


def _proto_mutation(rng, m, n, dt, nmax, rebinding=False):
    if m == 'reset_scaled':
        r = rng.random()
        alpha = (-3.0 if r < 0.2 else float(rng.choice([-1.0, 1.0]) * 2.0 ** int(rng.integers(-3, 6))) if r < 0.5 else
                 float(rng.choice([-1.0, 1.0]) * 10.0 ** rng.uniform(-2, 2)))
        return [m, alpha, bool(rng.random() < 0.5)], None
    if m == 'reset_same':
        return [m], n
    op, n = _mutator_op(rng, m, n, dt, nmax)
    if rebinding and m == 'remove_rolling_average':
        op[1] = 'velocity'          # (mtype='acceleration' subtracts inside the shared buffer)
    return op, n


def make_proto_scenario(rng, nmax=1200):
    """copy.copy / copy.deepcopy / pickle round trip of an AccSignal (plain or Cluster member; the whole Cluster) in
    some cache state, then reads and mutators on the copy AND on the original in both orders."""
    n = pick_n(rng, nmax)
    x, cls, _ = pick_record(rng, n)
    kind = OBJ_CONTAINERS[int(rng.integers(len(OBJ_CONTAINERS)))]
    dt = pick_dt(rng)
    if _special(cls):
        kind = WIDE_KINDS[int(rng.integers(len(WIDE_KINDS)))]
        x = _fit_range(x, n, dt)
    base, cont, _ = to_container(rng, x, kind, None, dt)
    how = PROTO_HOW[int(rng.integers(len(PROTO_HOW)))]
    source = PROTO_SOURCE[int(rng.integers(len(PROTO_SOURCE)))]
    if source == 'cluster-copy' and how == 'copy':
        how = 'deepcopy'        # (a shallow copy of a Cluster holds the very same member objects)
    state = PROTO_STATE[int(rng.integers(len(PROTO_STATE)))]
    peaks = ['pga', 'pgv', 'pgd']
    rng.shuffle(peaks)
    warm = []
    if state == 'peaks':
        warm = [['read', peaks[:int(rng.integers(1, 4))]]]
    elif state == 'pga':
        warm = [['read', ['pga']]]
    elif state == 'series':
        warm = [['read', [['velocity'], ['displacement'], ['displacement', 'velocity']][int(rng.integers(3))]]]
    elif state == 'all':
        warm = [['read', _reads(rng, full=True)]]
    elif state == 'rs':
        warm = [_rs(rng)]
    elif state == 'all+rs':
        warm = [['read', _reads(rng, full=True)], _rs(rng)]
        if rng.random() < 0.5:
            warm.reverse()
    elif state in ('fa', 'smooth', 'stockwell'):
        warm = [['warm', state]] + ([['read', _reads(rng)]] if rng.random() < 0.5 else [])
    elif state == 'rect':
        warm = [['read', _reads(rng)]] if rng.random() < 0.4 else []
        warm.append(_gen_op(rng, 0.0, ('kw', 'pos')))
        if rng.random() < 0.6:
            warm.append(['read', _reads(rng)])
    elif state == 'mutated':
        m = MUTATORS[int(rng.integers(len(MUTATORS)))]
        op, n = _mutator_op(rng, m, n, dt, nmax)
        warm = [['read', _reads(rng, full=True)], op] + ([['read', _reads(rng)]] if rng.random() < 0.7 else [])
    steps = []
    for _ in range(int(rng.integers(0, 3))):        # before anything is changed: both objects hold the same record
        steps.append([int(rng.integers(2)), ['read', _reads(rng)]] if rng.random() < 0.7 else
                     [0, ['check', [[0, 1], [1, 0]][int(rng.integers(2))]]])
    ns = [n, n]
    who = int(rng.integers(2))
    if how != 'copy' and rng.random() < 0.35:
        # deep copies are independent from the start: an explicit regeneration on one of them, then the same peaks on both
        pk = [['pgv', 'pgd'], ['pgd', 'pgv'], ['pgv'], ['pgd', 'pga']][int(rng.integers(4))]
        steps.append([who, _gen_op(rng, 0.3)])
        steps.append([who, ['read', list(pk)]])
        steps.append([1 - who, ['read', list(pk)]])
    if how == 'copy' or rng.random() < 0.6:
        op, nn = _proto_mutation(rng, REBINDERS[int(rng.integers(len(REBINDERS)))], ns[who], dt, nmax, rebinding=True)
        ns[who] = ns[1 - who] if nn is None else nn
        steps.append([who, op])
    for _ in range(int(rng.integers(2, 7))):
        r = rng.random()
        w = int(rng.integers(2)) if rng.random() < 0.7 else 1 - who      # (often: the object that was NOT changed last)
        if r < 0.55:
            # a single peak on one object, then on the other, is the shortest way to see a memo shared by the two
            rd = _reads(rng) if rng.random() < 0.6 else [peaks[int(rng.integers(3))]]
            steps.append([w, ['read', rd]])
            if rng.random() < 0.5:
                steps.append([1 - w, ['read', list(rd) if rng.random() < 0.5 else _reads(rng)]])
        elif r < 0.80:
            op, nn = _proto_mutation(rng, PROTO_LATER[int(rng.integers(len(PROTO_LATER)))], ns[w], dt, nmax)
            ns[w] = ns[1 - w] if nn is None else nn
            steps.append([w, op])
            who = w
        elif r < 0.88:
            steps.append([w, _rs(rng)])
        elif r < 0.92:
            steps.append([w, _feed(rng)])
        else:
            steps.append([0, ['check', [[0, 1], [1, 0]][int(rng.integers(2))]]])
    steps.append([0, ['check', [[0, 1], [1, 0]][int(rng.integers(2))]]])
    return {'kind': 'proto', 'acc': base, 'container': cont, 'ckind': kind, 'cls': cls, 'dt': dt, 'dt_kind': _dt_kind(dt),
            'how': how, 'source': source, 'state': state, 'protocol': int(rng.integers(2, pickle.HIGHEST_PROTOCOL + 1)),
            'other': rng.normal(size=16), 'warm': warm, 'steps': steps}


NON_MUTATING = ('read', 'rs', 'warm', 'feed', 'agree', 'check')


def _three_peaks(ctx, a, scen, who):
    out = []
    for nm in ('pga', 'pgv', 'pgd'):
        try:
            out.append(float(getattr(a, nm)))
            ctx.ok('obj.no-exception')
        except Exception as e:
            ctx.exception('obj.no-exception', dict(scen, failed_at='%s read %s' % (who, nm)), e)
            return None
    return out


def run_proto_scenario(eqsig, ctx, scen):
    """Two objects related by a Python object protocol. Every read is judged by the object monitors against the values
    THAT object holds at that moment; the driver adds: an object on which nothing was done between two complete reads
    reports bit-for-bit the same (whatever was done to the other one), and the peaks of alpha * record are |alpha|
    times the peaks of the record across the two objects."""
    CUR['scenario'] = scen
    CUR['after_switch'] = False
    try:
        X = materialise(scen['acc'], scen['container'])
        dt = _dt_from(scen)
        how = scen['how']
        with warnings.catch_warnings():
            warnings.simplefilter('ignore')
            try:
                cluster = None
                if scen['source'] == 'plain':
                    a = eqsig.AccSignal(X, dt)
                else:
                    comp = np.resize(np.asarray(scen['other'], dtype=float), len(scen['acc']))
                    cluster = eqsig.Cluster([X, comp], dt, stypes='acc')
                    a = cluster.signal_by_index(0)
            except Exception as e:
                ctx.exception('obj.no-exception', dict(scen, failed_at='construction'), e)
                return
            for k, op in enumerate(scen['warm']):
                if _do_op(eqsig, ctx, a, op, scen, k, 'warm ') == 'stop':
                    return
            try:
                if scen['source'] == 'cluster-copy':
                    c2 = (copy.deepcopy(cluster) if how == 'deepcopy' else
                          pickle.loads(pickle.dumps(cluster, protocol=int(scen['protocol']))))
                    b = c2.signal_by_index(0)
                elif how == 'copy':
                    b = copy.copy(a)
                elif how == 'deepcopy':
                    b = copy.deepcopy(a)
                else:
                    b = pickle.loads(pickle.dumps(a, protocol=int(scen['protocol'])))
            except Exception as e:
                ctx.exception('obj.no-exception', dict(scen, failed_at='%s of the object' % how), e)
                return
            if not isinstance(b, eqsig.AccSignal) or b is a:
                ctx.observe('proto:not-a-new-AccSignal:%s' % how)
                return
            if a in MODE:
                MODE[b] = MODE[a]       # whatever series the copy carries were made with the same rule
            ctx.observe('proto:%s:%s:%s' % (how, scen['source'], scen['state']))
            objs = [a, b]
            names = ['original', 'copy']
            fp = [None, None]
            s_dt, dt0 = _snap(dt), float(dt)
            _check_dt(ctx, objs, dt, s_dt, dt0, scen, 'after %s' % how)
            shared = how == 'copy'      # shallow copies share the value buffer until one of them gets a new record
            for k, (who, op) in enumerate(scen['steps']):
                w, o = objs[who], objs[1 - who]
                if k:
                    _check_dt(ctx, objs, dt, s_dt, dt0, scen, 'after step %d' % (k - 1))
                if op[0] == 'check':
                    for i in op[1]:
                        f = _fingerprint(ctx, objs[i], scen, names[i], READS if (k + i) % 2 else READS[::-1])
                        if f is not None and fp[i] is not None:
                            ctx.check(f == fp[i], 'obj.copy.idle-object-unchanged',
                                      lambda: dict(scen, failed_at='step %d check of the %s' % (k, names[i])),
                                      '%s (%s, source %s in state %r): nothing was done to the %s since its last '
                                      'complete read, yet its %s changed (steps in between: %s)'
                                      % (how, names[i], scen['source'], scen['state'], names[i], _fp_diff(fp[i], f),
                                         [(names[q], p[0]) for q, p in scen['steps'][:k]][-6:]))
                        fp[i] = f
                    continue
                if op[0] == 'reset_scaled':
                    if _domain(o.values, o.dt, True) is not None:
                        continue
                    alpha = float(op[1])
                    try:
                        w.reset_values(alpha * np.asarray(o.values))
                    except Exception as e:
                        ctx.exception('obj.no-exception', dict(scen, failed_at='step %d reset_values(alpha * record)' % k), e)
                        return
                    fp[who] = None
                    CUR['after_switch'] = False
                elif op[0] == 'raise':
                    v0 = np.asarray(w.values)
                    before = (v0.dtype, v0.shape, v0.tobytes())
                    _do_op(eqsig, ctx, w, op, scen, k, names[who] + ' ')
                    v1 = np.asarray(w.values)
                    if (v1.dtype, v1.shape, v1.tobytes()) != before:
                        fp[who] = None      # (completely updated is admissible too: the monitors judge the new state)
                else:
                    if _do_op(eqsig, ctx, w, op, scen, k, names[who] + ' ') == 'stop':
                        return
                    if op[0] not in NON_MUTATING:
                        fp[who] = None
                if shared and op[0] not in NON_MUTATING:
                    if np.shares_memory(np.asarray(a.values), np.asarray(b.values)):
                        # the mutator raised before it got to the new record: give the object its record as a new array
                        w.reset_values(np.array(w.values, copy=True))
                        fp[who] = None
                    if np.shares_memory(np.asarray(a.values), np.asarray(b.values)):
                        ctx.observe('proto:values-still-shared-after-rebinding')
                        return
                    shared = False
                if op[0] == 'reset_scaled':
                    if _domain(w.values, w.dt, True) is not None or _domain(o.values, o.dt, True) is not None:
                        ctx.observe('out-of-domain(obj):scaled-copy')
                        continue
                    first, second = (w, o) if op[2] else (o, w)
                    p1 = _three_peaks(ctx, first, scen, 'scaled pair')
                    p2 = _three_peaks(ctx, second, scen, 'scaled pair')
                    if p1 is None or p2 is None or MODE.get(w, True) is not True or MODE.get(o, True) is not True:
                        continue
                    q, pk = (p1, p2) if op[2] else (p2, p1)       # q: peaks of alpha * record, pk: peaks of the record
                    f = abs(alpha)
                    n = len(np.asarray(o.values))
                    eps = O.eps_of(np.asarray(o.values), np.asarray(w.values))
                    tv, td = _rel_tols(eps, n, o.dt, 2 * f * pk[1], 2 * f * pk[0], 2 * f * pk[2])
                    tv += f * O.underflow_floor(eps, n)
                    td += f * O.underflow_floor(eps, n)
                    okp = (abs(q[0] - f * pk[0]) <= 4 * eps * f * pk[0] + O.underflow_floor(eps)
                           and abs(q[1] - f * pk[1]) <= tv and abs(q[2] - f * pk[2]) <= td)
                    ctx.check(okp, 'obj.copy.peaks-scale|alpha|',
                              lambda: dict(scen, failed_at='step %d peaks of the scaled %s' % (k, names[who])),
                              '%s: the %s was given %r * (record of the %s); its PGA %r PGV %r PGD %r vs |alpha| * peaks '
                              'of the %s: %r %r %r (allowed dv %.3g dd %.3g; read first: the %s)'
                              % (how, names[who], alpha, names[1 - who], q[0], q[1], q[2], names[1 - who], f * pk[0],
                                 f * pk[1], f * pk[2], tv, td, names[who] if op[2] else names[1 - who]))
            _check_dt(ctx, objs, dt, s_dt, dt0, scen, 'after the last step')
            if shared:
                return      # nothing was changed: both still look at one buffer, nothing more to compare
            _agree(eqsig, ctx, a, scen, -1)
            _agree(eqsig, ctx, b, scen, -2)
    finally:
        CUR['scenario'] = None
        CUR['after_switch'] = False


def _run_derive(eqsig, ctx, a, op, scen, k):
    if _domain(a.values, a.dt, True) is not None or len(np.asarray(a.values)) > 3000:
        return
    kind, fix, par = op[1], op[2], op[3:]
    _read_all(ctx, a, READS, scen, 'source')          # the source is warm: every lazy cache filled
    before = np.array(a.values, copy=True)
    with attach.paused():
        held = [a.velocity, a.displacement]
    held_copy = [np.array(h, copy=True) for h in held]
    others = []
    try:
        n = len(before)
        dtf = float(a.dt)
        if kind == 'deepcopy':
            b = copy.deepcopy(a)
            if a in MODE:
                MODE[b] = MODE[a]       # the copy carries the series of the same integration rule
        elif kind in ('interp', 'resample'):
            tdt = dtf / par[0] if par[1] == 'up' else dtf * par[0]
            f = eqsig.fns.time_step.interp_to_approx_dt if kind == 'interp' else eqsig.fns.time_step.resample_to_approx_dt
            b = f(a, tdt, even=bool(par[2]))
        elif kind == 'combine':
            a2 = eqsig.AccSignal(np.resize(np.asarray(par[1], dtype=float), n), a.dt)
            _read_all(ctx, a2, READS, scen, 'second component')
            others.append((a2, np.array(a2.values, copy=True)))
            b = eqsig.combine_at_angle(a, a2, par[0])
        elif kind == 'cluster':
            c = eqsig.Cluster([a.values, np.resize(np.asarray(par[0], dtype=float), n)], a.dt, stypes='acc')
            b = c.signal_by_index(0)
        else:
            b = eqsig.fns.frequency.fas2signal(a.fa_spectrum, a.dt, stype='acc')
    except Exception as e:
        ctx.observe('derive-exception:%s:%s' % (kind, type(e).__name__))
        return
    if not isinstance(b, eqsig.AccSignal):
        ctx.observe('derive-not-an-AccSignal:%s' % kind)
        return
    ctx.observe('derived-object:%s%s' % (kind, ':complex' if np.asarray(b.values).dtype.kind == 'c' else ''))
    _read_all(ctx, b, READS, scen, 'derived')           # whatever memo it carries must fit ITS values
    _agree(eqsig, ctx, b, scen, k)
    try:
        _apply_mutator(eqsig, b, fix)
    except Exception as e:
        ctx.observe('mutator-exception:%s:%s' % (fix[0], type(e).__name__))
    _read_all(ctx, b, READS[::-1], scen, 'derived')
    _agree(eqsig, ctx, b, scen, k)
    now = np.asarray(a.values)
    same = now.dtype == before.dtype and now.shape == before.shape and now.tobytes() == before.tobytes()
    same = same and all(np.asarray(h).shape == c_.shape and np.asarray(h).tobytes() == c_.tobytes()
                        for h, c_ in zip(held, held_copy))
    for o, ob in others:
        same = same and np.asarray(o.values).tobytes() == ob.tobytes()
    ctx.check(same, 'obj.derived.source-untouched', lambda: dict(scen, failed_at='op %d derive %s' % (k, kind)),
              'the %s-derived object was corrected in place with %s and the source object\'s values (or the series '
              'obtained from it) changed' % (kind, fix[0]))
    _read_all(ctx, a, READS, scen, 'source')


def _agree(eqsig, ctx, a, scen, k):
    """Object-level series equal what the array-level function returns for the object's values, dt and rule."""
    if _domain(a.values, a.dt, True) is not None:
        return
    try:
        vo, do = a.velocity, a.displacement
        mode = MODE.get(a, True)
        if mode is None:
            return
        va, da = eqsig.displacements.calc_velo_and_disp_from_accel_arr(a.values, a.dt, trap=mode)
    except Exception as e:
        ctx.exception('obj.no-exception', dict(scen, failed_at='op %d agree' % k), e)
        return
    n = len(np.asarray(a.values))
    if np.shape(vo) != (n,) or np.shape(do) != (n,) or np.shape(va) != (n,) or np.shape(da) != (n,):
        ctx.violation('obj==array', dict(scen, failed_at='op %d agree' % k), 'shapes differ: %s %s %s %s'
                      % (np.shape(vo), np.shape(do), np.shape(va), np.shape(da)))
        return
    eps = O.eps_of(np.asarray(a.values))
    tv, td = _rel_tols(eps, n, a.dt, 2 * O.max_abs(va), 2 * O.max_abs(a.values), 2 * O.max_abs(da))
    ev = float(np.max(np.abs(O.f64(vo) - O.f64(va))))
    ed = float(np.max(np.abs(O.f64(do) - O.f64(da))))
    ctx.check(ev <= tv and ed <= td, 'obj==array', lambda: dict(scen, failed_at='op %d agree' % k),
              'AccSignal series vs calc_velo_and_disp_from_accel_arr(values, dt, trap=%r): max dv=%.3g (allowed %.3g) '
              'max dd=%.3g (allowed %.3g)' % (mode, ev, tv, ed, td))


def _probes(eqsig, ctx):
    """Out-of-quantifier behaviour, counted for information only (the monitors skip these inputs)."""
    f = eqsig.displacements.calc_velo_and_disp_from_accel_arr
    with warnings.catch_warnings():
        warnings.simplefilter('ignore')
        try:
            v, _ = f(np.array([1.0, 2.0, 4.0]), 1.0, trap=np.bool_(False))
            ctx.observe('probe.trap=np.False_.uses-%s' % ('rectangle' if v[1] in (1.0, 2.0) else 'trapezoid'))
        except Exception as e:
            ctx.observe('probe.trap=np.False_.%s' % type(e).__name__)
        x3 = np.array([1.0, 2.0, 4.0])
        for label, call in (('trap=0', lambda: f(x3, 1.0, trap=0)), ('trap=1', lambda: f(x3, 1.0, trap=1)),
                            ('trap=None', lambda: f(x3, 1.0, trap=None)), ('dt=0', lambda: f(x3, 0.0)),
                            ('dt=-1', lambda: f(x3, -1.0)), ('record-0d', lambda: f(np.array(1.0), 1.0)),
                            ('record-scalar', lambda: f(1.0, 1.0)), ('record-2d', lambda: f(np.ones((2, 3)), 1.0)),
                            ('record-float16', lambda: f(x3.astype(np.float16), 1.0)),
                            ('record-bool', lambda: f(np.array([True, False, True]), 1.0)),
                            ('dt-float32.f64-record', lambda: f(x3, np.float32(0.1)))):
            try:
                v, d = call()
                v = np.asarray(v, dtype=float)
                what = ('trapezoid' if v.shape == (3,) and v[1] == 1.5 else
                        'rectangle' if v.shape == (3,) and v[1] in (1.0, 2.0) else
                        'shape%s.dtype=%s' % (np.shape(v), np.asarray(call()[0]).dtype))
                ctx.observe('probe.%s.%s' % (label, what))
            except Exception as e:
                ctx.observe('probe.%s.%s' % (label, type(e).__name__))
        for n in (0, 1):
            for trap in (True, False):
                try:
                    v, d = f(np.ones(n), 0.1, trap=trap)
                    ctx.observe('probe.n=%d.trap=%r.lengths=%d,%d' % (n, trap, len(v), len(d)))
                except Exception as e:
                    ctx.observe('probe.n=%d.trap=%r.%s' % (n, trap, type(e).__name__))


def _fixed_cases():
    """Deterministic cases every run contains (the ledger witnesses and the knife-edge containers)."""
    out = []
    for cont, base in (('list', np.array([1.0, 2.0])), ('tuple', np.array([1.0, 2.0, 4.0])),
                       ('list', np.array([1, 2, 4], dtype=np.int64)), ('array', np.array([0.0, 1.0, 3.0])),
                       ('array', np.array([-3.0, -1.0, -2.0])), ('array', np.array([1, -5, 2], dtype=np.int32))):
        for dt in (0.5, 2):
            out.append({'kind': 'arraycase', 'acc': base, 'container': cont, 'ckind': 'fixed', 'cls': 'fixed',
                        'dt': dt, 'dt_kind': _dt_kind(dt), 'lin': None, 'fn': 'calc_velo_and_disp_from_accel_arr',
                        'rel_trap': False, 'pow2': -4.0, 'alpha': 3.7, 'beta': -0.3,
                        'other': np.arange(len(base), dtype=float), 'deprecated_peak': False})
    for base, dt in ((np.array([100, 100, 100], dtype=np.int8), 1.0), (np.array([200, 200, 200], dtype=np.uint8), 0.5),
                     (np.array([30000, 30000, -30000], dtype=np.int16), 0.01),
                     (np.array([12000, 12000, 12000], dtype=np.int16), 3),
                     (np.array([60000, 60000, 1], dtype=np.uint16), np.int64(2)),
                     (np.array([2 ** 31 - 5, 2 ** 31 - 5, -2 ** 31], dtype=np.int32), 2),
                     (np.array([-128, 5, 100], dtype=np.int8), 1)):
        out.append({'kind': 'arraycase', 'acc': base, 'container': 'array', 'ckind': 'fixed-narrow', 'cls': 'fixed',
                    'dt': dt, 'dt_kind': _dt_kind(dt), 'lin': None, 'fn': 'calc_velo_and_disp_from_accel_arr',
                    'rel_trap': True, 'pow2': 2.0, 'alpha': -1.7, 'beta': 0.3,
                    'other': np.arange(len(base), dtype=float), 'deprecated_peak': False, 'style': 'pos'})
        out.append({'kind': 'object', 'acc': base, 'container': 'array', 'ckind': 'fixed-narrow', 'cls': 'fixed',
                    'dt': dt, 'dt_kind': _dt_kind(dt),
                    'ops': [['read', list(READS)], ['agree'], ['add_constant', 1], ['read', list(READS)],
                            ['rebase_displacement'], ['read', list(READS[::-1])], ['agree'],
                            ['generate', False, 'pos'], ['read', list(READS)], ['agree']]})
    # on/off records (dtype bool / lists of Python bools): True is the sample 1.0; neighbouring on-samples must add up to 2
    pulse = np.array([False, True, True, True, False, True, True, False])
    for base, cont, dt, lin in ((pulse, 'array', 0.5, None), (pulse, 'list', 2, None), (pulse[1:4], 'tuple', 0.01, [1.0, 0.0]),
                                (np.array([True, True]), 'array', 1.0, [1.0, 0.0]), (~pulse, 'readonly', np.float32(0.25), None)):
        out.append({'kind': 'arraycase', 'acc': base, 'container': cont, 'ckind': 'fixed-bool', 'cls': 'fixed',
                    'dt': dt, 'dt_kind': _dt_kind(dt), 'lin': lin, 'fn': 'calc_velo_and_disp_from_accel_arr',
                    'rel_trap': True, 'pow2': -2.0, 'alpha': 2.5, 'beta': -0.75,
                    'other': np.arange(len(base), dtype=float), 'deprecated_peak': False, 'style': 'default'})
        out.append({'kind': 'object', 'acc': base, 'container': cont, 'ckind': 'fixed-bool', 'cls': 'fixed',
                    'dt': dt, 'dt_kind': _dt_kind(dt),
                    'ops': [['read', list(READS)], ['agree'], ['reset_values', ~pulse, 'list'], ['read', list(READS[::-1])],
                            ['agree'], ['reset_values', pulse, 'array'], ['generate', False, 'kw'], ['read', list(READS)],
                            ['generate', True, 'default'], ['read', ['pgd', 'pgv', 'velocity']], ['agree']]})
    out.append({'kind': 'object', 'acc': np.array([1.0, 2.0]), 'container': 'array', 'ckind': 'fixed', 'cls': 'fixed',
                'dt': 1.0, 'dt_kind': 'float',
                'ops': [['read', ['pgv', 'pgd']], ['generate', False], ['read', ['velocity', 'pgv', 'pgd', 'pga']],
                        ['agree'], ['generate', True], ['read', ['pgd', 'pgv', 'displacement']], ['agree']]})
    t = np.arange(80, dtype=float)
    for first, how, ratio in ((2.0, 'gen', None), (4.0, 'lazy_s_a', None), (5.9, 'generate', 8), (1.2, 'gen', 1),
                              (0.0, 'lazy_s_d', None)):
        out.append({'kind': 'object', 'acc': 0.5 * np.sin(t / 2.0) * np.exp(-((t - 40) / 20.0) ** 2),
                    'container': 'array', 'ckind': 'fixed-rs', 'cls': 'fixed', 'dt': 0.01, 'dt_kind': 'float',
                    'ops': [['rs', how, first, ratio, 3], ['read', ['pga', 'pgv', 'pgd']], ['agree'],
                            ['add_constant', 0.25], ['rs', how, first, ratio, 2], ['read', ['pgd', 'pga', 'pgv']],
                            ['agree']]})
    # a cheap clone that gets its own record (alpha = -3), peaks of the clone read first / of the original read first
    for how, state, warm in (('copy', 'cold', []), ('copy', 'peaks', [['read', ['pgd', 'pga', 'pgv']]]),
                             ('deepcopy', 'all', [['read', list(READS)]]), ('pickle', 'rect', [['generate', False, 'kw']])):
        for order in (True, False):
            out.append({'kind': 'proto', 'acc': np.sin(t / 4.0) * np.hanning(80), 'container': 'array', 'ckind': 'fixed',
                        'cls': 'fixed', 'dt': 0.01, 'dt_kind': 'float', 'how': how, 'source': 'plain', 'state': state,
                        'protocol': 4, 'other': np.cos(t[:16]), 'warm': warm,
                        'steps': [[1 if order else 0, ['reset_scaled', -3.0, order]],
                                  [0, ['check', [0, 1] if order else [1, 0]]],
                                  [0 if order else 1, ['add_constant', 0.5]],
                                  [0 if order else 1, ['read', ['pga']]], [1 if order else 0, ['read', ['pga', 'pgv']]],
                                  [0, ['check', [1, 0]]]]})
    out.append({'kind': 'twin', 'acc': np.sin(t / 5.0) + 0.25, 'container': 'array', 'ckind': 'fixed', 'cls': 'fixed',
                'dt': 0.01, 'dt_kind': 'float', 'link': 'same-caller-array', 'other': np.cos(t / 3.0),
                'ops': [['rebase_displacement']], 'reads0': list(READS), 'reads1': list(READS[::-1])})
    return out


def _register(ctx, case):
    base = np.asarray(case['acc'])
    nontriv = bool(np.any(base != 0))
    if case['kind'] == 'arraycase':
        dig = core.digest(base, case['container'], case['dt'], case['dt_kind'], case['fn'], case['rel_trap'])
        ctx.case(dig, nontrivial=nontriv, cls='array-%s-%s' % (case['ckind'], case['cls']),
                 sample={'fn': case['fn'], 'n': len(base), 'class': case['cls'], 'container': case['ckind'],
                         'dt': case['dt'], 'head': base[:8]})
    elif case['kind'] == 'proto':
        dig = core.digest(base, case['container'], case['dt'], case['dt_kind'], case['how'], case['source'],
                          case['protocol'], case['warm'], case['steps'])
        ctx.case(dig, nontrivial=nontriv, cls='proto-%s-%s-%s' % (case['how'], case['source'], case['state']),
                 sample={'n': len(base), 'class': case['cls'], 'container': case['ckind'], 'dt': case['dt'],
                         'how': case['how'], 'source': case['source'], 'state': case['state'],
                         'steps': ['%s:%s' % ('oc'[w], o[0]) for w, o in case['steps']]})
    elif case['kind'] == 'twin':
        dig = core.digest(base, case['link'], case['dt'], case['dt_kind'], case['ops'], case['other'])
        ctx.case(dig, nontrivial=nontriv, cls='twin-%s' % case['link'],
                 sample={'n': len(base), 'class': case['cls'], 'link': case['link'], 'dt': case['dt'],
                         'ops_on_twin': [o[0] for o in case['ops']]})
    else:
        dig = core.digest(base, case['container'], case['dt'], case['dt_kind'], case['ops'])
        ctx.case(dig, nontrivial=nontriv, cls='object-%s-%s' % (case['ckind'], case['cls']),
                 sample={'n': len(base), 'class': case['cls'], 'container': case['ckind'], 'dt': case['dt'],
                         'ops': [o[0] if o[0] != 'read' else 'read:' + ','.join(o[1]) for o in case['ops']]})


def run_shard(ctx):
    eqsig = core.import_eqsig()
    install(ctx)
    rng = ctx.rng
    quick = ctx.tier == 'quick'
    if ctx.shard == 0:
        _probes(eqsig, ctx)
    for i, case in enumerate(_fixed_cases()):
        if i % ctx.nshards != ctx.shard:
            continue
        _register(ctx, case)
        {'arraycase': run_array_case, 'object': run_object_scenario, 'twin': run_twin_scenario,
         'proto': run_proto_scenario}[case['kind']](eqsig, ctx, case)
    # a few long records past 2**16 (cheap containers only)
    longs = [65537, 70001, 2 ** 17 + 1, 100000]
    for j in range(1 if quick else 3):
        if quick and ctx.shard >= 6:
            break
        nl = longs[(ctx.shard + j) % len(longs)]
        if ctx.shard % 3 == 2 and j == 0:
            scen = make_object_scenario(rng, nmax=1500, n=nl)
            scen['ops'] = [o for o in scen['ops'] if o[0] not in ('running_average', 'remove_rolling_average',
                                                                  'correct_me', 'rs', 'derive')][:9]
            _register(ctx, scen)
            run_object_scenario(eqsig, ctx, scen)
        else:
            case = make_array_case(rng, n=nl, kinds=['f64', 'f32', 'i32', 'list', 'readonly', 'reversed'])
            _register(ctx, case)
            run_array_case(eqsig, ctx, case)
    n_arr = (4800 if quick else 160000) // ctx.nshards + 1
    n_obj = (1600 if quick else 54000) // ctx.nshards + 1
    for c in range(n_arr):
        case = make_array_case(rng)
        _register(ctx, case)
        run_array_case(eqsig, ctx, case)
        if ctx.out_of_time():
            ctx.observe('stopped-by-deadline')
            break
    for c in range(n_obj):
        scen = make_object_scenario(rng)
        _register(ctx, scen)
        run_object_scenario(eqsig, ctx, scen)
        if ctx.out_of_time():
            ctx.observe('stopped-by-deadline')
            break
    n_twin = (640 if quick else 20000) // ctx.nshards + 1
    for c in range(n_twin):
        scen = make_twin_scenario(rng)
        _register(ctx, scen)
        run_twin_scenario(eqsig, ctx, scen)
        if ctx.out_of_time():
            ctx.observe('stopped-by-deadline')
            break
    n_proto = (1600 if quick else 40000) // ctx.nshards + 1
    for c in range(n_proto):
        scen = make_proto_scenario(rng)
        _register(ctx, scen)
        run_proto_scenario(eqsig, ctx, scen)
        if ctx.out_of_time():
            ctx.observe('stopped-by-deadline')
            break
    ctx.note('monitored_calls', dict(attach.CALLS))
    ctx.note('rect_convention', 'velocity: %s, displacement: %s' % (RECT['v'], RECT['d']))
    ctx.observe('rect-convention:v=%s,d=%s' % (RECT['v'], RECT['d']))


def replay(w):
    """Re-execute one witness against the current tree; return the list of violation messages."""
    eqsig = core.import_eqsig()
    ctx = core.Ctx(PROP_ID, 'quick', 0, 0, 1)
    install(ctx)
    kind = w.get('kind')
    if kind == 'arraycase':
        run_array_case(eqsig, ctx, w)
    elif kind == 'object':
        run_object_scenario(eqsig, ctx, w)
    elif kind == 'twin':
        run_twin_scenario(eqsig, ctx, w)
    elif kind == 'proto':
        run_proto_scenario(eqsig, ctx, w)
    elif kind == 'peak':
        m = materialise(w['motion'], w.get('container', 'array'))
        with warnings.catch_warnings():
            warnings.simplefilter('ignore')
            try:
                (eqsig.calculate_peak if w.get('fn') == 'calculate_peak' else eqsig.im.calc_peak)(m)
            except Exception as e:
                ctx.exception('calc_peak==max|x|', w, e)
    else:   # 'array': one call of the integration function
        X = materialise(w['acc'], w.get('container', 'array'))
        fn = getattr(eqsig.displacements, w.get('fn', 'calc_velo_and_disp_from_accel_arr'))
        try:
            fn(X, _dt_from(w), trap=_flag_as(w.get('trap', True), w.get('flag_form', 'bool')))
        except Exception as e:
            ctx.exception('array.no-exception', w, e)
    return ['%s: %s' % (v['clause'], v['msg'].splitlines()[0] if v['msg'] else '') for v in ctx.violations]
