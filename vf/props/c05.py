"""C05 - signal objects own their data; analysis functions do not mutate inputs.

Three monitors:
 1. icontract class invariant on Signal/AccSignal (values is a numeric ndarray, len == npts, time == dt*[0..npts-1]),
    evaluated by icontract after the constructor and after every public method call, in every workload of this check
    (and under the repository's own test-suite in the thorough tier). The condition records and returns True.
 2. ownership histories: bit-for-bit snapshots of the caller's container across constructor/reset + mutator sequences,
    then sentinel writes into the caller's container with a deep-copied observation of the object before/after; the
    same between two objects that were built from each other's values.
 3. purity: a generic before/after snapshot wrapper on EVERY public function of the analysis modules (attached with
    attach.wrap, so internal call paths are watched too) plus a registry of argument recipes that calls each function
    twice and compares the results.
"""
import copy
import inspect
import json
import os
import subprocess
import sys
import tempfile
import warnings

import numpy as np

from vf import attach, core, gen
from vf.props import c04 as H

PROP_ID = 'C05'
TECHNIQUE = ('icontract class invariant + bit-for-bit before/after snapshots of every array argument (generic wrapper on all public '
             'analysis functions) + call-twice repeatability + ownership histories with sentinel writes')
RULE = ('cases = (a) purity: every registry entry (public array-level function + argument recipe) x draws over float64/int64/'
        'float32/narrow and unsigned int/list containers and strided, negative-stride and read-only views, lengths 2..300, each called twice; the arrays returned by the previous call of every function are re-checked after the next call; (b) ownership histories: caller container (f64/f32/i64 array, '
        'list) -> constructor or reset_values -> 3..10 operations of the C04 mutator/setting alphabet with the caller container '
        'compared bit-for-bit after every operation, then sentinel writes; object->object variants; (c) thorough: the '
        'repository\'s own test-suite run with the invariant and the generic purity wrapper attached. distinct = digest of '
        'function/recipe inputs or (container, operation sequence); non-trivial = at least one array argument / one mutator. '
        '(d) object-level purity: every recipe that hands a signal object to an analysis function reads all public observables of a deep copy '
        'before and after the call; sequences of 3..7 analysis functions on ONE shared object, each re-called afterwards and the object compared '
        'with a fresh twin; (e) every signal object returned by a library function must own its data (identity, shared memory, in-place '
        'correction of the result), including the option values where nothing needs doing (target_dt == dt, angle 0, zero shift).')
ASSUMPTIONS = ['real-valued records (complex input to the Stockwell functions is outside the quantifier)',
               'an operation that raises on a container the statement does not promise to support (e.g. in-place corrections of an '
               'integer record) is counted, not judged; ownership and invariant assertions are evaluated after it all the same',
               'mutating an object through the array handed out by .values is not a public operation',
               'of a signal object handed to an analysis function the public observables (C04 list: values, time, spectra, '
               'response_times, smoothing frequencies, peak values) must not change; private memo attributes (e.g. the swtf attribute '
               'cached on a signal by the Stockwell helpers) are not "input arrays"']
MIN_EVALS = {'quick': {'invariant(values numeric ndarray, len==npts, time==dt*arange)': 20000, 'purity.args-unchanged': 15000,
                       'purity.repeatable': 2000, 'purity.result-independent-of-earlier-calls': 2000, 'purity.result-unaffected-by-caller-edits-of-an-earlier-result': 1500, 'purity.earlier-result-unchanged-by-later-call': 10000, 'ownership.caller-array-unchanged': 2500,
                       'ownership.object-unaffected-by-caller-writes': 350, 'ownership.object-to-object': 150,
                       'ownership.returned-signal-owns-its-data': 250, 'ownership.dt-kept-bit-for-bit': 250, 'purity.repeatable-after-other-analysis-calls': 1800,
                       'purity.signal-argument-observables-unchanged': 1800, 'purity.process-wide-numpy-state-restored': 15000},
             'thorough': {'invariant(values numeric ndarray, len==npts, time==dt*arange)': 500000, 'purity.args-unchanged': 300000,
                          'purity.repeatable': 50000, 'purity.result-independent-of-earlier-calls': 50000, 'purity.result-unaffected-by-caller-edits-of-an-earlier-result': 40000, 'purity.earlier-result-unchanged-by-later-call': 200000, 'ownership.caller-array-unchanged': 60000,
                          'ownership.object-unaffected-by-caller-writes': 8000, 'ownership.object-to-object': 3500,
                          'ownership.returned-signal-owns-its-data': 6000, 'ownership.dt-kept-bit-for-bit': 5000, 'purity.repeatable-after-other-analysis-calls': 45000,
                          'purity.signal-argument-observables-unchanged': 45000, 'purity.process-wide-numpy-state-restored': 300000,
                          'testsuite-under-monitors.completed': 1}}
CTX = None
CURRENT = {'history': None}
SHARED = {'on': False, 'sigs': {}}
INV = 'invariant(values numeric ndarray, len==npts, time==dt*arange)'
_INSTALLED = {'inv': False, 'purity': False}
UNMONITORED = []


def n_shards(tier):
    return 16


# ------------------------------------------------------------------------------------------------------ 1. invariant
def values_is_owned_numeric_array(self):
    """icontract invariant condition; records through the context and returns True (never aborts what it observes)."""
    ctx = CTX
    if ctx is None:
        return True
    try:
        v = self.values
        npts = self.npts
        okk = isinstance(v, np.ndarray) and v.dtype.kind in 'iufc' and v.ndim == 1 and len(v) == npts
        if okk:
            t = self.time
            okk = isinstance(t, np.ndarray) and t.shape == (npts,) and bool(np.array_equal(t, np.arange(npts) * self.dt))
        detail = 'type(values)=%s dtype=%s len=%s npts=%s' % (type(v).__name__, getattr(v, 'dtype', None),
                                                              len(v) if hasattr(v, '__len__') else None, npts)
    except Exception as e:
        okk = False
        detail = 'invariant evaluation raised %r' % (e,)
    ctx.check(okk, INV, lambda: {'kind': 'invariant', 'history': CURRENT['history'], 'detail': detail},
              'class invariant broken: ' + detail + ' ; history=%s' % (str(CURRENT['history'])[:300],))
    return True


class InvariantBroken(AssertionError):
    pass


def install_invariant():
    if _INSTALLED['inv']:
        return
    import icontract
    import eqsig
    import eqsig.single as es
    S = icontract.invariant(values_is_owned_numeric_array, error=InvariantBroken)(es.Signal)
    A = icontract.invariant(values_is_owned_numeric_array, error=InvariantBroken)(es.AccSignal)
    if S is not es.Signal or A is not es.AccSignal:      # icontract decorates in place; rebind aliases otherwise
        for m in attach._eqsig_modules():
            for attr, val in list(vars(m).items()):
                if val is es.Signal:
                    setattr(m, attr, S)
                elif val is es.AccSignal:
                    setattr(m, attr, A)
    _INSTALLED['inv'] = True


# ------------------------------------------------------------------------------------------------------ 3. purity (generic)
def snap(x, depth=0):
    if isinstance(x, np.ndarray):
        return ('nd', x.dtype.str, x.shape, x.tobytes())
    if hasattr(x, 'values') and hasattr(x, 'npts') and hasattr(x, 'dt'):
        v = x.values
        return ('sig', snap(v) if isinstance(v, np.ndarray) else ('py', repr(v)[:2000]), x.dt, x.npts)
    if isinstance(x, (list, tuple)) and depth < 3:
        if len(x) > 0 and all(isinstance(e, (int, float)) for e in x):
            return ('seq', type(x).__name__, tuple(x))
        return ('seq', type(x).__name__, tuple(snap(e, depth + 1) for e in x))
    if isinstance(x, dict) and depth < 3:
        return ('dict', tuple((k, snap(v, depth + 1)) for k, v in x.items()))
    return None


class _Pre(tuple):
    """(positional snapshots, keyword snapshots) plus the process-wide numerical state at call entry"""
    state = None


def proc_state():
    """process-wide state a numerical function must hand back as it found it: NumPy's floating-point error mode, its print
    options and the legacy global random stream"""
    rs = np.random.get_state()
    return (tuple(sorted(np.geterr().items())), tuple(sorted((k, repr(v)) for k, v in np.get_printoptions().items())),
            (rs[1][:8].tobytes(), int(rs[2])))


PROC = 'purity.process-wide-numpy-state-restored'


def judge_proc_state(qual, state0, args, kwargs):
    ctx = CTX
    if ctx is None or state0 is None:
        return
    now = proc_state()
    what = [n for n, a, b in zip(('np.geterr()', 'np.get_printoptions()', 'np.random global state'), state0, now) if a != b]
    ctx.check(not what, PROC, lambda: {'kind': 'purity', 'function': qual, 'recipe': CURRENT.get('recipe'), 'changed': what,
                                       'before': repr(state0[0]), 'after': repr(now[0])},
              '%s returned with %s changed (before %s, after %s)' % (qual, what, state0[0], now[0]))
    if what:      # put it back so that one leak is reported once and later calls are judged under the normal mode
        np.seterr(**dict(state0[0]))


def _pre_generic(args, kwargs):
    p = _Pre(([snap(a) for a in args], {k: snap(v) for k, v in kwargs.items()}))
    p.state = proc_state()
    return p


_LAST_RESULT = {}


def _result_arrays(result, depth=0):
    if isinstance(result, np.ndarray):
        return [result]
    if hasattr(result, 'values') and hasattr(result, 'npts') and isinstance(getattr(result, 'values', None), np.ndarray):
        return [result.values]
    if isinstance(result, (tuple, list)) and depth < 2:
        out = []
        for r in result:
            out += _result_arrays(r, depth + 1)
        return out
    return []


def judge_previous_result(qual, result):
    """process-wide state: the arrays returned by the PREVIOUS call of the same function must still be what they were when
    they were returned (a result that is a view of a module-level scratch buffer changes when the next input is processed)"""
    ctx = CTX
    prev = _LAST_RESULT.get(qual)
    if prev is not None:
        arrays, dig = prev
        ctx.check(core.digest(*arrays) == dig, 'purity.earlier-result-unchanged-by-later-call',
                  lambda: {'kind': 'previous-result', 'function': qual, 'recipe': CURRENT.get('recipe')},
                  'arrays returned by an earlier call of %s changed after a later call' % qual)
    arrays = _result_arrays(result)
    if arrays and sum(a.nbytes for a in arrays) <= 4000000:
        _LAST_RESULT[qual] = (arrays, core.digest(*arrays))
    else:
        _LAST_RESULT.pop(qual, None)


def _make_post(qual):
    def post(args, kwargs, result, pre):
        judge_purity(qual, args, kwargs, pre)
        # only for calls made by the driver itself (depth 0): the result of a nested call belongs to the eqsig function that
        # made it, which may legitimately modify it in place (determine_peaks_only_delta_series does `cleaned_values *= ...`)
        if CTX is not None and attach.STATE['depth'] == 0:
            judge_previous_result(qual, result)
    return post


def _make_onex(qual):
    def onex(args, kwargs, exc, pre):
        judge_purity(qual, args, kwargs, pre, raised=True)
        note_readonly_write(qual, args, kwargs, exc)
    return onex


def note_readonly_write(qual, args, kwargs, exc):
    """a function that tries to write into a read-only input array raises ValueError('... read-only'): that is an attempted
    mutation of the argument, not a legitimate rejection"""
    if CTX is not None and isinstance(exc, ValueError) and 'read-only' in str(exc):
        ro = [a for a in list(args) + list(kwargs.values()) if isinstance(a, np.ndarray) and not a.flags.writeable]
        if ro:
            CTX.violation('purity.args-unchanged', {'kind': 'purity', 'function': qual, 'recipe': CURRENT.get('recipe'),
                                                    'args': describe_args(args, kwargs)},
                          '%s attempted to write into a read-only input array: %s' % (qual, exc))


def describe_args(args, kwargs):
    def d(a):
        if isinstance(a, np.ndarray):
            return {'__arg__': 'ndarray', 'dtype': str(a.dtype), 'shape': list(a.shape), 'head': a.ravel()[:8]}
        if hasattr(a, 'values') and hasattr(a, 'npts'):
            return {'__arg__': type(a).__name__, 'npts': a.npts, 'dt': a.dt}
        return repr(a)[:120]
    return [d(a) for a in args], {k: d(v) for k, v in kwargs.items()}


def judge_purity(qual, args, kwargs, pre, raised=False):
    ctx = CTX
    if ctx is None or pre is None:
        return
    judge_proc_state(qual, getattr(pre, 'state', None), args, kwargs)
    pa, pk = pre
    changed = []
    for i, a in enumerate(args):
        if pa[i] is not None and snap(a) != pa[i]:
            changed.append('arg%d' % i)
    for k, v in kwargs.items():
        if pk.get(k) is not None and snap(v) != pk[k]:
            changed.append(k)
    n_arr = sum(1 for s in pa if s is not None) + sum(1 for s in pk.values() if s is not None)
    if n_arr == 0:
        return
    ctx.check(not changed, 'purity.args-unchanged',
              lambda: {'kind': 'purity', 'function': qual, 'changed': changed, 'args': describe_args(args, kwargs), 'recipe': CURRENT.get('recipe'),
                       'history': CURRENT['history']},
              '%s modified its input argument(s) %s%s' % (qual, changed, ' (while raising)' if raised else ''))


PURE_MODULES = ['eqsig.im', 'eqsig.sdof', 'eqsig.displacements', 'eqsig.stockwell', 'eqsig.surface', 'eqsig.fns.average',
                'eqsig.fns.frequency', 'eqsig.fns.generic', 'eqsig.fns.peaks_and_crossings', 'eqsig.fns.time_shift',
                'eqsig.fns.time_step', 'eqsig.multiple', 'eqsig.design_spectra']
SKIP = {'plot_stock', 'plot_tifq_vals', 'plot_fas_at_time', 'plot_windowed_fas_at_time', 'plot_max_freq_azimuth', 'deprecation',
        'time_the_generation_of_response_spectra'}


def install_purity():
    if _INSTALLED['purity']:
        return
    import importlib
    for mn in PURE_MODULES:
        m = importlib.import_module(mn)
        for name, f in list(vars(m).items()):
            if name.startswith('_') or name in SKIP or not inspect.isfunction(f):
                continue
            if getattr(f, '__vf_wrapped__', False):
                f.__vf_posts__.append((_pre_generic, _make_post(mn + '.' + name), _make_onex(mn + '.' + name)))
                continue
            if getattr(f, '__module__', None) != mn:
                continue
            attach.wrap(m, name, _make_post(mn + '.' + name), pre=_pre_generic, on_exception=_make_onex(mn + '.' + name))
    _INSTALLED['purity'] = True


def install(ctx):
    global CTX
    CTX = ctx
    core.import_eqsig()
    install_invariant()
    install_purity()


# ------------------------------------------------------------------------------------------------------ recipes
def same_result(x, y):
    if isinstance(x, (tuple, list)):
        return isinstance(y, (tuple, list)) and len(x) == len(y) and all(same_result(a, b) for a, b in zip(x, y))
    if hasattr(x, 'values') and hasattr(x, 'npts'):
        return hasattr(y, 'values') and same_result(np.asarray(x.values), np.asarray(y.values)) and x.dt == y.dt
    if x is None or y is None:
        return x is y
    try:
        ax, ay = np.asarray(x), np.asarray(y)
        if ax.dtype == object or ay.dtype == object:
            return repr(x) == repr(y)
        return ax.shape == ay.shape and ax.dtype == ay.dtype and bool(np.array_equal(ax, ay, equal_nan=True))
    except Exception:
        return repr(x) == repr(y)


def recipes(eqsig):
    """name -> builder(rng, x, kind) returning (callable, args, kwargs); x is the record in the container of this draw."""
    im, sdof, sw, sf = eqsig.im, eqsig.sdof, eqsig.stockwell, eqsig.surface
    pc = eqsig.fns.peaks_and_crossings
    fq = eqsig.fns.frequency
    ds = eqsig.design_spectra

    def A(x, dt=0.01):
        # within a shared-object sequence (drive_object_sequences) the same record object maps to the same AccSignal
        if SHARED['on']:
            key = (id(x), dt)
            if key not in SHARED['sigs']:
                SHARED['sigs'][key] = (eqsig.AccSignal(x, dt), x)
            return SHARED['sigs'][key][0]
        return eqsig.AccSignal(x, dt)
    R = {}

    def reg(name, fn):
        R[name] = fn
    per = np.array([0.0, 0.07, 0.3, 1.1])
    for nm in ['get_peak_array_indices', 'get_zero_crossings_array_indices', 'get_switched_peak_array_indices',
               'determine_peaks_only_delta_series', 'determine_pseudo_cyclic_peak_only_series', 'get_n_cyc_array',
               'clean_out_non_changing', 'determine_indices_of_peaks_for_cleaned_array', 'determine_indices_of_peaks_for_cleaned',
               'determine_peak_only_delta_series_4_cleaned_data', 'get_major_change_indices', 'get_zero_and_peak_array_indices']:
        reg('pc.' + nm, (lambda nm: lambda rng, x, k: (getattr(pc, nm), (x,), {}))(nm))
    reg('pc.get_peak_array_indices(max)', lambda rng, x, k: (pc.get_peak_array_indices, (x,), {'ptype': 'max'}))
    reg('pc.get_switched_peak_array_indices(tol)', lambda rng, x, k: (pc.get_switched_peak_array_indices, (x,), {'tol': 0.3}))
    reg('pc.get_zero_crossings_array_indices(tol,kaz)', lambda rng, x, k: (pc.get_zero_crossings_array_indices, (x,), {'tol': 0.2, 'keep_adj_zeros': True}))
    def _amp(x):
        return float(np.max(np.abs(np.asarray(x, dtype=float)))) or 1.0
    reg('pc.get_zero_crossings_array_indices(tol~amplitude)',
        lambda rng, x, k: (pc.get_zero_crossings_array_indices, (x,), {'tol': float(rng.choice([0.05, 0.2, 0.5])) * _amp(x)}))
    reg('pc.get_switched_peak_array_indices(tol~amplitude)',
        lambda rng, x, k: (pc.get_switched_peak_array_indices, (x,), {'tol': float(rng.choice([0.05, 0.2, 0.5])) * _amp(x)}))
    for nm in ['get_peak_indices', 'get_zero_crossings_indices', 'get_switched_peak_indices']:
        reg('pc.' + nm, (lambda nm: lambda rng, x, k: (getattr(pc, nm), (A(x),), {}))(nm))
    for nm in ['calc_arias_intensity', 'calc_cav', 'calc_isv', 'calc_integral_of_abs_velocity', 'calc_cumulative_abs_displacement',
               'calc_integral_of_abs_acceleration', 'calc_unit_kinetic_energy', 'max_fa_period', 'calc_bandwidth_freqs',
               'calc_bandwidth_f_min', 'calc_bandwidth_f_max', 'calc_sig_dur', 'calc_max_velocity_period', 'max_acceleration_period',
               'calc_asi', 'calc_vsi']:
        reg('im.' + nm, (lambda nm: lambda rng, x, k: (getattr(im, nm), (A(x),), {}))(nm))
    reg('im.calc_cav_dp', lambda rng, x, k: (im.calc_cav_dp, (A(np.resize(np.asarray(x, dtype=float), 350) * 3),), {}))
    reg('im.calc_brac_dur', lambda rng, x, k: (im.calc_brac_dur, (A(x), 0.2), {'se': True}))
    reg('im.calc_sig_dur_vals', lambda rng, x, k: (im.calc_sig_dur_vals, (x if not isinstance(x, list) else np.array(x), 0.01), {'se': True}))
    reg('im.calc_peak', lambda rng, x, k: (im.calc_peak, (x,), {}))
    reg('im.cumulative_response_spectra', lambda rng, x, k: (im.cumulative_response_spectra, (A(x), 'arias_intensity'), {'periods': per[1:]}))
    reg('im.calc_n_cyc_array_w_power_law', lambda rng, x, k: (im.calc_n_cyc_array_w_power_law, (x, 1.0, 0.3), {}))
    reg('im.calc_n_cyc_array_w_power_law(array b)', lambda rng, x, k: (im.calc_n_cyc_array_w_power_law, (x, 1.0, np.array([0.3, 0.5])), {'cut_off': 0.05}))
    reg('im.calc_cyc_amp_array_w_power_law', lambda rng, x, k: (im.calc_cyc_amp_array_w_power_law, (x, 15, 0.3), {}))
    reg('im.calc_cyc_amp_gm_arrays_w_power_law', lambda rng, x, k: (im.calc_cyc_amp_gm_arrays_w_power_law, (x, x[::-1], 15, 0.3), {}))
    reg('im.calc_cyc_amp_combined_arrays_w_power_law', lambda rng, x, k: (im.calc_cyc_amp_combined_arrays_w_power_law, (x, x[::-1], 15, 0.3), {}))
    reg('sdof.response_series', lambda rng, x, k: (sdof.response_series, (x, 0.01, per, 0.05), {}))
    reg('sdof.nigam_and_jennings_response', lambda rng, x, k: (sdof.nigam_and_jennings_response, (x, 0.01, per[1:], 0.2), {}))
    reg('sdof.pseudo_response_spectra', lambda rng, x, k: (sdof.pseudo_response_spectra, (x, 0.01, per, 0.05), {}))
    reg('sdof.true_response_spectra', lambda rng, x, k: (sdof.true_response_spectra, (x, 0.01, list(per), 0.05), {}))
    reg('sdof.calc_resp_uke_spectrum', lambda rng, x, k: (sdof.calc_resp_uke_spectrum, (A(x),), {'periods': per[1:]}))
    reg('sdof.calc_input_energy_spectrum', lambda rng, x, k: (sdof.calc_input_energy_spectrum, (A(x),), {'periods': per[1:], 'series': True}))
    reg('sdof.single_elastic_response', lambda rng, x, k: (sdof.single_elastic_response, (np.asarray(x, dtype=float) if isinstance(x, list) else x, 0.01, 0.5, 0.05), {}))
    reg('sdof.absmax', lambda rng, x, k: (sdof.absmax, (x,), {}))
    reg('sdof.compute_a_and_b', lambda rng, x, k: (sdof.compute_a_and_b, (0.05, 2 * np.pi / per[1:], 0.01), {}))
    reg('displacements.calc_velo_and_disp_from_accel_arr', lambda rng, x, k: (eqsig.displacements.calc_velo_and_disp_from_accel_arr, (x, 0.01), {}))
    reg('displacements.calc_velo_and_disp_from_accel_arr(trap=False)', lambda rng, x, k: (eqsig.displacements.calc_velo_and_disp_from_accel_arr, (x, 0.01), {'trap': False}))
    reg('displacements.velocity_and_displacement_from_acceleration', lambda rng, x, k: (eqsig.displacements.velocity_and_displacement_from_acceleration, (x, 0.01), {}))
    reg('stockwell.transform', lambda rng, x, k: (sw.transform, (x[:64],), {}))
    reg('stockwell.transform_w_scipy_fft', lambda rng, x, k: (sw.transform_w_scipy_fft, (x[:64],), {}))
    reg('stockwell.transform_slow', lambda rng, x, k: (sw.transform_slow, (x[:32],), {'ith': 1}))
    reg('stockwell.itransform', lambda rng, x, k: (sw.itransform, (sw.transform(np.asarray(x[:64], dtype=float)),), {}))
    reg('stockwell.get_max_stockwell_freq', lambda rng, x, k: (sw.get_max_stockwell_freq, (A(x[:64]),), {}))
    reg('stockwell.get_max_tifq_vals_freq', lambda rng, x, k: (sw.get_max_tifq_vals_freq, (np.abs(sw.transform(np.asarray(x[:64], dtype=float))), 0.01), {}))
    reg('stockwell.generate_gaussian', lambda rng, x, k: (sw.generate_gaussian, (16,), {}))
    reg('stockwell.generate_gaussian(n~record)', lambda rng, x, k: (sw.generate_gaussian, (max(2, len(x) // 2),), {}))

    # numeric arguments in the scalar forms a caller may hold them in: Python float, numpy scalar, 0-d array (a 0-d array is
    # mutable: `dt /= factor` inside a function changes the caller's step)
    def SC(rng, v):
        j = int(rng.integers(4))
        return [float(v), np.float64(v), np.array(float(v)), np.array(float(v))][j]
    reg('fns.interp_array_to_approx_dt(scalar forms)',
        lambda rng, x, k: (eqsig.interp_array_to_approx_dt, (x, SC(rng, 0.01), SC(rng, float(rng.choice([0.003, 0.005, 0.025, 0.01])))), {}))
    reg('displacements.calc_velo_and_disp_from_accel_arr(scalar forms)',
        lambda rng, x, k: (eqsig.displacements.calc_velo_and_disp_from_accel_arr, (x, SC(rng, 0.01)), {'trap': bool(rng.integers(2))}))
    reg('sdof.response_series(scalar forms)', lambda rng, x, k: (sdof.response_series, (x, SC(rng, 0.01), per, SC(rng, 0.05)), {}))
    reg('sdof.pseudo_response_spectra(scalar forms)', lambda rng, x, k: (sdof.pseudo_response_spectra, (x, SC(rng, 0.01), per, SC(rng, 0.05)), {}))
    reg('sdof.true_response_spectra(scalar forms)', lambda rng, x, k: (sdof.true_response_spectra, (x, SC(rng, 0.01), per[1:], SC(rng, 0.05)), {}))
    reg('fns.interp_to_approx_dt(signal with 0-d dt)',
        lambda rng, x, k: (eqsig.interp_to_approx_dt, (eqsig.AccSignal(x, np.array(0.01)), SC(rng, float(rng.choice([0.004, 0.02])))), {}))
    reg('AccSignal(0-d dt).s_a(lazy read)', lambda rng, x, k: (
        lambda s_: np.array(s_.s_a), (eqsig.AccSignal(x, np.array(0.01), response_times=per[1:]),), {}))
    reg('fns.resample_to_approx_dt(signal with 0-d dt)',
        lambda rng, x, k: (eqsig.resample_to_approx_dt, (eqsig.AccSignal(x, np.array(0.01)), SC(rng, 0.005)), {}))
    reg('im.calc_brac_dur(scalar forms)', lambda rng, x, k: (im.calc_brac_dur, (A(x), SC(rng, 0.3 * _amp(x))), {}))
    reg('fns.calc_roll_av_vals(scalar forms)',
        lambda rng, x, k: (eqsig.fns.average.calc_roll_av_vals, (x, [3, np.int64(3), np.array(3), np.int32(2)][int(rng.integers(4))]), {}))
    tt = np.array([0.013, 0.02, 0.0])
    reg('surface.calc_surface_energy', lambda rng, x, k: (sf.calc_surface_energy, (A(x), tt), {'stt': 0.03, 'trim': True, 'start': True}))
    reg('surface.calc_surface_energy(array red)', lambda rng, x, k: (sf.calc_surface_energy, (A(x), tt), {'up_red': np.array([0.9, 0.8, 1.0]), 'down_red': np.array([0.7, 0.6, 1.0]), 'nodal': False}))
    reg('surface.calc_cum_abs_surface_energy', lambda rng, x, k: (sf.calc_cum_abs_surface_energy, (A(x), tt), {}))
    reg('surface.get_time_shift_motions', lambda rng, x, k: (sf.get_time_shift_motions, (A(x), tt), {'trim': True}))
    reg('surface.trim_to_length', lambda rng, x, k: (sf.trim_to_length, (np.tile(np.asarray(x, dtype=float), (3, 1)), len(x), tt, 0.01), {'trim': True, 'start': True, 's2s_travel_time': 0.02}))
    reg('fns.interp_array_to_approx_dt(refine)', lambda rng, x, k: (eqsig.interp_array_to_approx_dt, (x, 0.01, 0.003), {}))
    reg('fns.interp_array_to_approx_dt(decimate)', lambda rng, x, k: (eqsig.interp_array_to_approx_dt, (x, 0.01, 0.025), {'even': False}))
    reg('fns.interp_to_approx_dt', lambda rng, x, k: (eqsig.interp_to_approx_dt, (A(x), 0.003), {}))
    reg('fns.resample_to_approx_dt', lambda rng, x, k: (eqsig.resample_to_approx_dt, (A(x), 0.005), {}))
    reg('fns.resample_to_approx_dt(decimate)', lambda rng, x, k: (eqsig.resample_to_approx_dt, (A(x), 0.02), {'even': False}))
    reg('fns.time_series_from_motion', lambda rng, x, k: (eqsig.fns.time_step.time_series_from_motion, (x, 0.01), {}))
    reg('fns.remove_poly', lambda rng, x, k: (eqsig.remove_poly, (np.asarray(x) if isinstance(x, list) else x, 2), {}))
    reg('fns.calc_roll_av_vals', lambda rng, x, k: (eqsig.calc_roll_av_vals, (x, 5), {'mode': ['forward', 'backward', 'centre'][int(rng.integers(3))]}))
    reg('fns.calc_step_fn_vals_error', lambda rng, x, k: (eqsig.calc_step_fn_vals_error, (x,), {'pow': int(rng.integers(1, 3))}))
    reg('fns.calc_step_fn_vals_error(dir)', lambda rng, x, k: (eqsig.calc_step_fn_vals_error, (x,), {'dir': ['up', 'down'][int(rng.integers(2))]}))
    reg('fns.calc_step_fn_steps_vals', lambda rng, x, k: (eqsig.calc_step_fn_steps_vals, (x,), {}))
    reg('fns.get_section_average', lambda rng, x, k: (eqsig.get_section_average, (A(x),), {'start': 0, 'end': 0.01 * (len(x) // 2)}))
    reg('fns.put_array_in_2d_array', lambda rng, x, k: (eqsig.put_array_in_2d_array, (x, np.array([-2, 0, 3])), {'clip': ['none', 'start', 'end', 'both'][int(rng.integers(4))]}))
    reg('fns.join_values_w_shifts', lambda rng, x, k: (eqsig.join_values_w_shifts, (x, np.array([0, 3])), {'jtype': ['add', 'sub'][int(rng.integers(2))]}))
    reg('fns.join_sig_w_time_shift', lambda rng, x, k: (eqsig.join_sig_w_time_shift, (A(x), np.array([0.0, 0.03])), {}))
    reg('fns.time_indices', lambda rng, x, k: (eqsig.fns.time_shift.time_indices, (len(x), 0.01, 0, -1, False), {}))
    reg('fns.interp2d', lambda rng, x, k: (eqsig.interp2d, (np.array([0.5, 1.2, -1.0, 5.0]), np.array([0., 1, 2]), np.resize(np.asarray(x, dtype=float), 12).reshape(3, 4)), {}))
    reg('fns.interp_left', lambda rng, x, k: (eqsig.interp_left, (np.array([0.5, 1.2]), np.array([0., 1, 2]), np.asarray(x[:3])), {}))
    reg('fns.gen_ricker_wavelet_asig', lambda rng, x, k: (eqsig.fns.generic.gen_ricker_wavelet_asig, (2.0, 0.5, 1.0, 0.01), {}))
    reg('fns.calc_smooth_fa_spectrum', lambda rng, x, k: (lambda a: (eqsig.calc_smooth_fa_spectrum, (a.fa_freqs, a.fa_spectrum, np.array([1., 2, 3])), {}))(A(x)))
    reg('fns.generate_smooth_fa_spectrum', lambda rng, x, k: (lambda a: (eqsig.generate_smooth_fa_spectrum, (np.array([1., 2, 3]), a.fa_freqs, a.fa_spectrum), {}))(A(x)))
    reg('fns.calc_smoothing_matrix_konno_1998', lambda rng, x, k: (lambda a: (eqsig.calc_smoothing_matrix_konno_1998, (a.fa_freqs, np.array([1., 2, 3])), {}))(A(x)))
    reg('fns.calc_smooth_fa_spectrum_w_custom_matrix', lambda rng, x, k: (lambda a: (eqsig.calc_smooth_fa_spectrum_w_custom_matrix, (a, eqsig.calc_smoothing_matrix_konno_1998(a.fa_freqs, np.array([1., 2, 3]))), {}))(A(x)))
    reg('fns.get_sig_freq_range', lambda rng, x, k: (eqsig.get_sig_freq_range, (A(x),), {}))
    reg('fns.get_sig_array_indexes_range', lambda rng, x, k: (eqsig.get_sig_array_indexes_range, (np.abs(np.asarray(x, dtype=float)) + 0.1,), {}))
    reg('fns.generate_fa_spectrum', lambda rng, x, k: (eqsig.generate_fa_spectrum, (A(x),), {'n_pad': bool(rng.integers(2))}))
    reg('fns.calc_fa_spectrum', lambda rng, x, k: (eqsig.calc_fa_spectrum, (A(x),), {'p2_plus': int(rng.integers(0, 3))}))
    reg('fns.fas2values', lambda rng, x, k: (eqsig.fas2values, (A(x).fa_spectrum, 0.01), {}))
    reg('fns.fas2signal', lambda rng, x, k: (eqsig.fas2signal, (A(x).fa_spectrum, 0.01), {}))
    reg('multiple.combine_at_angle', lambda rng, x, k: (eqsig.combine_at_angle, (A(x), A(x[::-1]), 30.0), {}))
    reg('multiple.compute_rotated', lambda rng, x, k: (eqsig.compute_rotated, (A(x), A(x[::-1])), {'parameter': 'pga', 'points': 5}))
    reg('im.calc_bracketed_duration', lambda rng, x, k: (im.calc_bracketed_duration, (A(x), 0.2), {}))
    reg('im.calc_significant_duration', lambda rng, x, k: (im.calc_significant_duration, (np.asarray(x) if isinstance(x, list) else x, 0.01), {}))
    reg('im.calculate_peak', lambda rng, x, k: (im.calculate_peak, (x,), {}))
    reg('sdof.slow_response_spectra', lambda rng, x, k: (sdof.slow_response_spectra, (np.asarray(x[:40], dtype=float), 0.01, per[1:], [0.05]), {}))
    reg('stockwell.dep_itransform', lambda rng, x, k: (sw.dep_itransform, (sw.transform(np.asarray(x[:64], dtype=float)),), {}))
    # option combinations that are rarely used (one recipe per option value / array-valued option)
    reg('pc.get_major_change_indices(already_diff,dx)', lambda rng, x, k: (pc.get_major_change_indices, (x,), {'already_diff': True, 'dx': float(rng.choice([0.5, 2.0, 0.01]))}))
    reg('pc.get_major_change_indices(dx)', lambda rng, x, k: (pc.get_major_change_indices, (x,), {'dx': 0.25, 'rtol': 1e-6, 'atol': 1e-3}))
    reg('pc.get_zero_and_peak_array_indices(zvals,min_step)', lambda rng, x, k: (pc.get_zero_and_peak_array_indices, (x,), {'zvals': x[::-1], 'min_step': 1}))
    reg('pc.get_n_cyc_array(switched,peak)', lambda rng, x, k: (pc.get_n_cyc_array, (x,), {'opt': 'switched', 'start': 'peak'}))
    reg('pc.get_peak_array_indices(min)', lambda rng, x, k: (pc.get_peak_array_indices, (x,), {'ptype': 'min'}))
    reg('im.calc_sig_dur(custom im,se)', lambda rng, x, k: (im.calc_sig_dur, (A(x),), {'im': im.calc_integral_of_abs_acceleration, 'se': True, 'start': 0.1, 'end': 0.8}))
    reg('im.calc_bandwidth_freqs(ratio)', lambda rng, x, k: (im.calc_bandwidth_freqs, (A(x),), {'ratio': 0.3}))
    reg('im.calc_asi(xi,periods)', lambda rng, x, k: (im.calc_asi, (A(x),), {'xi': 0.1, 'periods': np.array([0.1, 0.2, 0.5])}))
    reg('im.cumulative_response_spectra(xi)', lambda rng, x, k: (im.cumulative_response_spectra, (A(x), 'arias_intensity'), {'periods': [0.2, 0.6], 'xi': 0.0}))
    reg('sdof.absmax(axis)', lambda rng, x, k: (sdof.absmax, (np.resize(np.asarray(x, dtype=float), 12).reshape(3, 4),), {'axis': 1}))
    reg('sdof.calc_input_energy_spectrum(xi=0,default periods)', lambda rng, x, k: (sdof.calc_input_energy_spectrum, (eqsig.AccSignal(x, 0.01, response_times=per[1:]),), {'xi': 0.0}))
    reg('surface.get_time_shift_motions(array red,start)', lambda rng, x, k: (sf.get_time_shift_motions, (A(x), tt), {'up_red': np.array([0.9, 0.8, 1.0]), 'down_red': np.array([0.7, 0.6, 1.0]), 'start': True, 'stt': 0.05}))
    reg('surface.calc_cum_abs_surface_energy(array red,anti-nodal)', lambda rng, x, k: (sf.calc_cum_abs_surface_energy, (A(x), tt), {'up_red': np.array([0.9, 0.8, 1.0]), 'down_red': np.array([0.7, 0.6, 1.0]), 'nodal': False, 'trim': True}))
    reg('surface.calc_surface_energy(same red object)', lambda rng, x, k: (lambda r: (sf.calc_surface_energy, (A(x), tt), {'up_red': r, 'down_red': r}))(np.array([0.9, 0.8, 1.0])))
    reg('fns.get_section_average(index)', lambda rng, x, k: (eqsig.get_section_average, (A(x),), {'start': 0, 'end': max(1, len(x) // 2), 'index': True}))
    reg('fns.calc_step_fn_steps_vals(ind)', lambda rng, x, k: (eqsig.calc_step_fn_steps_vals, (x,), {'ind': max(1, len(x) // 2)}))
    reg('fns.calc_smooth_fa_spectrum(default targets,band)', lambda rng, x, k: (lambda a: (eqsig.calc_smooth_fa_spectrum, (a.fa_freqs, a.fa_spectrum), {'band': 20}))(A(x)))
    reg('fns.calc_smoothing_matrix_konno_1998(default targets)', lambda rng, x, k: (lambda a: (eqsig.calc_smoothing_matrix_konno_1998, (a.fa_freqs,), {'band': 60}))(A(x)))
    reg('fns.calc_fa_spectrum(n)', lambda rng, x, k: (eqsig.calc_fa_spectrum, (A(x),), {'n': len(x) + 3}))
    reg('fns.fas2signal(acc)', lambda rng, x, k: (eqsig.fas2signal, (A(x).fa_spectrum, 0.01), {'stype': 'acc'}))
    reg('fns.interp_left(y=None,scalar)', lambda rng, x, k: (eqsig.interp_left, (1.2, np.array([0., 1, 2])), {}))
    reg('fns.interp_to_approx_dt(decimate,odd)', lambda rng, x, k: (eqsig.interp_to_approx_dt, (A(x),), {'target_dt': 0.03, 'even': False}))
    reg('fns.join_sig_w_time_shift(sub)', lambda rng, x, k: (eqsig.join_sig_w_time_shift, (A(x), np.array([0.0, 0.02])), {'jtype': 'sub'}))
    reg('multiple.compute_rotated(func,offset)', lambda rng, x, k: (eqsig.compute_rotated, (A(x), A(x[::-1])), {'func': im.calc_cav, 'points': 4, 'angle_off_ns': 30.0}))
    reg('multiple.compute_rotated(arias)', lambda rng, x, k: (eqsig.compute_rotated, (A(x), A(x[::-1])), {'parameter': 'arias_intensity', 'points': 3}))
    # signal-returning functions at the option values where "nothing to do" is tempting (the result must still own its data)
    reg('fns.interp_to_approx_dt(target==dt)', lambda rng, x, k: (eqsig.interp_to_approx_dt, (A(x),), {'target_dt': 0.01, 'even': bool(rng.integers(2))}))
    reg('fns.resample_to_approx_dt(target==dt)', lambda rng, x, k: (eqsig.resample_to_approx_dt, (A(x),), {'target_dt': 0.01, 'even': bool(rng.integers(2))}))
    reg('fns.interp_array_to_approx_dt(target==dt)', lambda rng, x, k: (eqsig.interp_array_to_approx_dt, (x, 0.01, 0.01), {'even': bool(rng.integers(2))}))
    reg('multiple.combine_at_angle(0/90/180)', lambda rng, x, k: (eqsig.combine_at_angle, (A(x), A(x[::-1]), float(rng.choice([0.0, 90.0, 180.0, 360.0]))), {}))
    reg('fns.join_sig_w_time_shift(zero shift)', lambda rng, x, k: (eqsig.join_sig_w_time_shift, (A(x), np.array([0.0])), {}))
    reg('im.cumulative_response_spectra(default periods)', lambda rng, x, k: (im.cumulative_response_spectra, (A(x), 'arias_intensity'), {}))
    reg('im.calc_asi(default)', lambda rng, x, k: (im.calc_asi, (A(x),), {}))
    reg('sdof.calc_resp_uke_spectrum(default periods)', lambda rng, x, k: (sdof.calc_resp_uke_spectrum, (A(x),), {}))
    # two-signal functions given companions that do not match (length differs by one or two samples, other time step): whether
    # the library rejects or tolerates them, the caller's objects must come back unchanged
    reg('multiple.compute_rotated(unequal lengths)', lambda rng, x, k: (eqsig.compute_rotated, (A(x), eqsig.AccSignal(np.asarray(x, dtype=float)[:-int(rng.integers(1, 3))][::-1], 0.01)), {'parameter': 'pga', 'points': 3}))
    reg('multiple.compute_rotated(unequal lengths, longer second)', lambda rng, x, k: (eqsig.compute_rotated, (eqsig.AccSignal(np.asarray(x, dtype=float)[:-1], 0.01), A(x)), {'func': im.calc_cav, 'points': 3}))
    reg('multiple.combine_at_angle(unequal lengths)', lambda rng, x, k: (eqsig.combine_at_angle, (A(x), eqsig.AccSignal(np.asarray(x, dtype=float)[1:], 0.01), 30.0), {}))
    reg('multiple.combine_at_angle(other dt)', lambda rng, x, k: (eqsig.combine_at_angle, (A(x), eqsig.AccSignal(np.asarray(x, dtype=float)[::-1], 0.02), 45.0), {}))
    reg('fns.calc_smooth_fa_spectrum(targets on the Fourier grid)', lambda rng, x, k: (lambda a: (eqsig.calc_smooth_fa_spectrum, (a.fa_freqs, a.fa_spectrum, np.array(a.fa_freqs[1:4])), {}))(A(x)))
    reg('fns.calc_smoothing_matrix_konno_1998(targets on the Fourier grid)', lambda rng, x, k: (lambda a: (eqsig.calc_smoothing_matrix_konno_1998, (a.fa_freqs, np.array(a.fa_freqs[1:3])), {}))(A(x)))
    reg('design_spectra.c_h_factor', lambda rng, x, k: (ds.c_h_factor, (np.array([0.0, 0.2, 0.7, 2.0, 4.0]), 'D'), {}))
    return R


def draw_record(rng):
    n = int(rng.choice([2, 3, 5, 8, 16, 40, 64, 100, 300]))
    x, cls = gen.record(rng, n, allow_const=False)
    if cls == 'const' or not np.any(x != x[0]):
        x = x + rng.normal(size=n)
    kind = ['f64', 'i64', 'list', 'f32', 'narrow', 'view'][int(rng.choice(6, p=[0.3, 0.2, 0.15, 0.1, 0.1, 0.15]))]
    if kind == 'narrow':
        c, kind = gen.narrow_int(rng, n, plateaus=bool(rng.integers(2)))
        if not np.any(c != c[0]):
            c[0] = c[0] // 2 + 1
        return c, kind, 'narrow-int'
    if kind == 'view':
        c, kind = gen.view_form(rng, np.array(x, dtype=float))
        return c, kind, cls
    if kind == 'i64':
        c = np.array(np.round(x / (np.max(np.abs(x)) + 1e-300) * 50), dtype=np.int64)
        if not np.any(c != c[0]):
            c[0] += 3
    elif kind == 'list':
        c = [float(v) for v in x]
    elif kind == 'f32':
        c = x.astype(np.float32)
    else:
        c = np.array(x, dtype=float)
    return c, kind, cls


OBJ_PURE = 'purity.signal-argument-observables-unchanged'
RES_OWN = 'ownership.returned-signal-owns-its-data'
SEQ_REP = 'purity.repeatable-after-other-analysis-calls'


def is_signal(a):
    return hasattr(a, 'values') and hasattr(a, 'npts') and hasattr(a, 'dt') and hasattr(a, 'reset_values')


def signal_args(args, kwargs):
    return [a for a in list(args) + list(kwargs.values()) if is_signal(a)]


def judge_signal_args(ctx, name, sigs, opre):
    """an analysis function that is handed a signal object must leave every public observable of that object (values, time,
    spectra, response_times, smoothing frequencies, ...) as it was: read on a deep copy before and after the call"""
    for a, o1 in zip(sigs, opre):
        try:
            bad = H.diff_obs(o1, obs_all(a))
        except Exception as e:
            ctx.observe('observation-raised:' + type(e).__name__)
            continue
        ctx.check(not bad, OBJ_PURE, lambda: {'kind': 'repeat', 'recipe': CURRENT['recipe'], 'changed': bad},
                  '%s changed observables %s of the signal object it was given' % (name, bad))


INPLACE = ('rebase_displacement', 'set_zero_residual_velocity', 'set_zero_residual_displacement',
           'set_zero_residual_displacement_and_velocity', 'running_average', 'remove_rolling_average', 'add_constant', 'butter_pass',
           'remove_poly', 'remove_average')


def judge_result_ownership(ctx, eqsig, name, result, args, kwargs, rng=None):
    """a signal object returned by a library function owns its data: it is not one of the argument objects, its values share no
    memory with an argument array or an argument signal's values, and an in-place correction of the result leaves the
    arguments bit-for-bit unchanged"""
    res = [r for r in (list(result) if isinstance(result, (tuple, list)) else [result]) if is_signal(r)]
    if not res:
        return
    ins = list(args) + list(kwargs.values())
    for r in res:
        bad = []
        for i, a in enumerate(ins):
            if a is r:
                bad.append('result is argument %d itself' % i)
            elif is_signal(a) and isinstance(a.values, np.ndarray) and isinstance(r.values, np.ndarray) and np.shares_memory(a.values, r.values):
                bad.append('result.values shares memory with the values of argument %d' % i)
            elif isinstance(a, np.ndarray) and isinstance(r.values, np.ndarray) and a.dtype.kind in 'iufc' and np.shares_memory(a, r.values):
                bad.append('result.values shares memory with argument array %d' % i)
        if not bad:
            # behavioural form: correct the result in place, the arguments must not move
            pre = _pre_generic(args, kwargs)
            try:
                with warnings.catch_warnings():
                    warnings.simplefilter('ignore')
                    r.add_constant(0.5)
                    if hasattr(r, 'remove_poly'):
                        r.remove_poly(1)
            except Exception as e:
                ctx.observe('result-mutator-raised:' + type(e).__name__)
            pa, pk = pre
            for i, a in enumerate(args):
                if pa[i] is not None and snap(a) != pa[i]:
                    bad.append('argument %d changed when the returned signal was corrected in place' % i)
            for k, v in kwargs.items():
                if pk.get(k) is not None and snap(v) != pk[k]:
                    bad.append('argument %s changed when the returned signal was corrected in place' % k)
        ctx.check(not bad, RES_OWN, lambda: {'kind': 'repeat', 'recipe': CURRENT['recipe'], 'why': bad},
                  'signal returned by %s does not own its data: %s' % (name, '; '.join(bad)))


def run_sequence(ctx, eqsig, x, kind, rng, fixed_names=None):
    """one shared-object sequence; fixed_names (replay) gives the recipe names in order, otherwise they are drawn"""
    R = recipes(eqsig)
    names = sorted(R)
    SHARED['on'] = True
    SHARED['sigs'] = {}
    CURRENT['history'] = None
    done = []
    try:
        k_target = len(fixed_names) if fixed_names is not None else int(rng.integers(3, 8))
        tries = 0
        while len(done) < k_target and tries < 60:
            name = fixed_names[tries] if fixed_names is not None else names[int(rng.integers(len(names)))]
            tries += 1
            if fixed_names is not None and tries > len(fixed_names):
                break
            try:
                with warnings.catch_warnings():
                    warnings.simplefilter('ignore')
                    f, args, kwargs = R[name](rng, x, kind)
            except Exception:
                continue
            sh = SHARED['sigs'].get((id(x), 0.01))
            if sh is None or not any(a is sh[0] for a in list(args) + list(kwargs.values())):
                continue
            try:
                with warnings.catch_warnings():
                    warnings.simplefilter('ignore')
                    r = f(*args, **kwargs)
            except Exception as e:
                ctx.observe('raises(%s):%s:%s' % (kind, name, type(e).__name__))
                continue
            done.append((name, f, args, kwargs, r))
            if fixed_names is not None and tries >= len(fixed_names):
                break
        if len(done) < 2:
            return
        shared, x_used = SHARED['sigs'][(id(x), 0.01)]
        seq = [d[0] for d in done]
        CURRENT['recipe'] = {'name': 'sequence', 'kind': kind, 'record': np.asarray(x), 'sequence': seq}
        ctx.case(core.digest('seq', np.asarray(x), kind, seq), nontrivial=True, cls='object-sequence/' + kind,
                 sample={'sequence': seq, 'container': kind})
        ctx.keyset('analysis pairs (earlier, later) on one object').update(
            (done[i][0], done[j][0]) for i in range(len(done)) for j in range(i + 1, len(done)))
        for name, f, args, kwargs, r in done:
            try:
                with warnings.catch_warnings():
                    warnings.simplefilter('ignore')
                    r2 = f(*args, **kwargs)
                ctx.check(same_result(r, r2), SEQ_REP,
                          lambda: {'kind': 'sequence', 'recipe': CURRENT['recipe'], 'function': name},
                          '%s returned a different result after %s had been applied to the same signal object' % (name, seq))
            except Exception as e:
                ctx.violation(SEQ_REP, {'kind': 'sequence', 'recipe': CURRENT['recipe'], 'function': name},
                              '%s raised when called again after %s on the same object: %r' % (name, seq, e))
        try:
            with warnings.catch_warnings():
                warnings.simplefilter('ignore')
                twin = eqsig.AccSignal(x_used, 0.01)
            bad = H.diff_obs(obs_all(twin), obs_all(shared))
            ctx.check(not bad, OBJ_PURE, lambda: {'kind': 'sequence', 'recipe': CURRENT['recipe'], 'changed': bad},
                      'after the analysis calls %s the signal object differs from a fresh twin in %s' % (seq, bad))
        except Exception as e:
            ctx.observe('observation-raised:' + type(e).__name__)
    finally:
        SHARED['on'] = False
        SHARED['sigs'] = {}


def drive_object_sequences(ctx, eqsig, nseq):
    """several analysis functions are applied to ONE signal object; afterwards every one of them, called again with the same
    arguments, must return what it returned the first time, and the object's observables must be those of a fresh twin"""
    for q in range(nseq):
        x, kind, cls = draw_record(ctx.rng)
        run_sequence(ctx, eqsig, x, kind, ctx.rng)
    CURRENT['recipe'] = None


def replay_sequence(ctx, eqsig, x, kind, names):
    run_sequence(ctx, eqsig, x, kind, np.random.default_rng(0), fixed_names=list(names))


def judge_one_recipe(ctx, eqsig, name, f, args, kwargs, kind):
    pre = _pre_generic(args, kwargs)
    sigs = signal_args(args, kwargs)
    opre = [obs_all(a) for a in sigs]
    try:
        with warnings.catch_warnings():
            warnings.simplefilter('ignore')
            r1 = f(*args, **kwargs)
    except Exception as e:
        ctx.observe('raises(%s):%s:%s' % (kind, name, type(e).__name__))
        judge_purity('recipe:' + name, args, kwargs, pre, raised=True)
        note_readonly_write('recipe:' + name, args, kwargs, e)
        judge_signal_args(ctx, name, sigs, opre)
        return
    judge_purity('recipe:' + name, args, kwargs, pre)
    judge_signal_args(ctx, name, sigs, opre)
    try:
        with warnings.catch_warnings():
            warnings.simplefilter('ignore')
            r2 = f(*args, **kwargs)
        ctx.check(same_result(r1, r2), 'purity.repeatable',
                  lambda: {'kind': 'repeat', 'recipe': CURRENT['recipe']}, '%s returned a different result when called again (%s input)' % (name, kind))
    except Exception as e:
        ctx.violation('purity.repeatable', {'kind': 'repeat', 'recipe': CURRENT['recipe']}, '%s raised on the second call only: %r' % (name, e))
    judge_history_independence(ctx, eqsig, name, f, args, kwargs, r1, kind)
    judge_result_is_the_callers(ctx, name, f, args, kwargs, r1, kind)
    judge_result_ownership(ctx, eqsig, name, r1, args, kwargs)


RES_EDIT = 'purity.result-unaffected-by-caller-edits-of-an-earlier-result'


def _arg_buffers(args, kwargs):
    out = []
    for a in list(args) + list(kwargs.values()):
        if isinstance(a, np.ndarray):
            out.append(a)
        elif is_signal(a):
            out += [v for v in vars(a).values() if isinstance(v, np.ndarray)]
    return out


def judge_result_is_the_callers(ctx, name, f, args, kwargs, r1, kind):
    """what a function returns belongs to the caller: after the caller has overwritten every array of an earlier result, the
    same call returns what it returned the first time (a memoised table handed out by reference - functools.lru_cache on a
    function that returns an array - is changed for every later call by such an edit). Result arrays that share memory with
    an argument (or with an array held by a signal argument) are left alone and counted."""
    arrs = [a for a in _result_arrays(r1) if isinstance(a, np.ndarray) and a.size and a.dtype.kind in 'iufcb']
    if not arrs or sum(a.nbytes for a in arrs) > 4000000:
        return
    bufs = _arg_buffers(args, kwargs)
    if any(np.shares_memory(a, b) for a in arrs for b in bufs):
        ctx.observe('result shares memory with an argument (not edited): ' + name.split('(')[0])
        return
    keep = copy.deepcopy(r1)
    for a in arrs:
        if not a.flags.writeable:
            ctx.observe('result array is read-only (not edited)')
            return
    for a in arrs:
        a[...] = np.array(7).astype(a.dtype) if a.dtype.kind != 'b' else ~a
    try:
        with warnings.catch_warnings():
            warnings.simplefilter('ignore')
            r4 = f(*args, **kwargs)
    except Exception as e:
        ctx.violation(RES_EDIT, {'kind': 'repeat', 'recipe': CURRENT['recipe']},
                      '%s raised after the caller overwrote the arrays of an earlier result: %r' % (name, e))
        return
    ctx.check(same_result(keep, r4), RES_EDIT, lambda: {'kind': 'repeat', 'recipe': CURRENT['recipe']},
              '%s returned a different result after the caller overwrote the arrays an earlier call had returned (%s input)' % (name, kind))


HIST_IND = 'purity.result-independent-of-earlier-calls'
_RECIPES = {}


def judge_history_independence(ctx, eqsig, name, f, args, kwargs, r1, kind):
    """"returns the same result when called again" also when OTHER inputs were processed in between: f(A); f(B1); f(B2); f(A)
    with B1 the reversed record of A (same container, dtype and shape - a memo keyed on the shape, a scratch buffer of that size)
    and B2 an unrelated draw of the same recipe (other length, container, option values). A mutable default argument, a helper
    that keeps indices of the previous record, a cache keyed on too little: all make the last call differ from the first."""
    rc = CURRENT.get('recipe') or {}
    if rc.get('name') == 'sequence' or 'record' not in rc:
        return
    if 'R' not in _RECIPES:
        _RECIPES['R'] = recipes(eqsig)
    build = _RECIPES['R'].get(name)
    if build is None:
        return
    rng = ctx.rng
    x = rc['record']
    xa = np.asarray(x)
    others = []
    try:
        rev = np.ascontiguousarray(xa[::-1]).astype(xa.dtype)
        if xa.dtype.kind == 'f':
            rev = (rev * xa.dtype.type(0.75)).astype(xa.dtype)
        others.append(([float(t) for t in rev] if kind == 'list' else rev, kind))
    except Exception:
        pass
    x2, kind2, _ = draw_record(rng)
    others.append((x2, kind2))
    ran = 0
    saved = CURRENT['recipe']
    for xb, kb in others:
        try:
            with warnings.catch_warnings():
                warnings.simplefilter('ignore')
                CURRENT['recipe'] = {'name': name, 'kind': kb, 'record': np.asarray(xb), 'role': 'intermediate call of ' + HIST_IND}
                fb, ab, kwb = build(rng, xb, kb)
                fb(*ab, **kwb)
            ran += 1
        except Exception as e:
            ctx.observe('intermediate-call-raised:' + type(e).__name__)
    CURRENT['recipe'] = saved
    if not ran:
        return
    try:
        with warnings.catch_warnings():
            warnings.simplefilter('ignore')
            r3 = f(*args, **kwargs)
    except Exception as e:
        ctx.violation(HIST_IND, {'kind': 'repeat', 'recipe': CURRENT['recipe']},
                      '%s raised when called again after calls with other inputs: %r' % (name, e))
        return
    ctx.check(same_result(r1, r3), HIST_IND, lambda: {'kind': 'repeat', 'recipe': CURRENT['recipe']},
              '%s returned a different result for the same arguments after it had been called with other inputs (%s input)' % (name, kind))


def drive_purity(ctx, eqsig, draws):
    R = recipes(eqsig)
    names = sorted(R)
    rng = ctx.rng
    job = 0
    for name in names:
        for d in range(draws):
            job += 1
            if job % ctx.nshards != ctx.shard:
                continue
            x, kind, cls = draw_record(rng)
            CURRENT['recipe'] = {'name': name, 'kind': kind, 'record': np.asarray(x)}
            CURRENT['history'] = None
            try:
                with warnings.catch_warnings():
                    warnings.simplefilter('ignore')
                    f, args, kwargs = R[name](rng, x, kind)
            except Exception as e:
                ctx.observe('recipe-build-raised:' + name + ':' + type(e).__name__)
                continue
            nontriv = any(snap(a) is not None for a in args)
            ctx.case(core.digest(name, np.asarray(x), kind, d), nontrivial=nontriv, cls='purity/' + kind,
                     sample={'function': name, 'container': kind, 'n': len(x), 'class': cls})
            judge_one_recipe(ctx, eqsig, name, f, args, kwargs, kind)
    CURRENT['recipe'] = None
    # public callables without a recipe (reported, not judged)
    import importlib
    have = set(n.split('(')[0].split('.')[-1] for n in names)
    missing = []
    for mn in PURE_MODULES:
        m = importlib.import_module(mn)
        for nm, f in vars(m).items():
            if inspect.isfunction(getattr(f, '__vf_orig__', f)) and not nm.startswith('_') and nm not in SKIP and nm not in have \
                    and getattr(getattr(f, '__vf_orig__', f), '__module__', None) == mn:
                missing.append(mn + '.' + nm)
    ctx.note('public_callables_without_recipe(generic wrapper only)', sorted(set(missing)))


# ------------------------------------------------------------------------------------------------------ 2. ownership
def caller_container(rng, n):
    x, cls = gen.record(rng, n, cls=['noise', 'quake', 'walk', 'sine', 'intnoise'][int(rng.integers(5))], amp=1.0)
    x = x + 0.01
    kind = ['f64', 'f64', 'f32', 'i64', 'list'][int(rng.integers(5))]
    if kind == 'f64':
        A = np.array(x, dtype=float)
    elif kind == 'f32':
        A = x.astype(np.float32)
    elif kind == 'i64':
        A = np.array(np.round(x * 20), dtype=np.int64)
        A[0] += 1
    else:
        A = [float(v) for v in x]
    return A, kind


def csnap(A):
    return snap(A) if isinstance(A, np.ndarray) else ('list', tuple(A))


def poison(A, rng):
    if isinstance(A, np.ndarray):
        A[...] = (A * 0 + 7).astype(A.dtype)
        A[::2] = np.array(-3).astype(A.dtype)
    else:
        for i in range(len(A)):
            A[i] = 7.0 if i % 2 else -3.0


def obs_all(obj):
    names = H.obs_names(obj)
    return H.observe(copy.deepcopy(obj), names)


OWN_DTS = [1.0 / 256, 1.0 / 3, 1.0 / 120, 0.0078125, 1.0 / 7, 2.5, 1.0000001e-3, 0.1 + 0.2, 1e-7 * np.pi]


def drive_ownership(ctx, eqsig, nh):
    rng = ctx.rng
    for h in range(nh):
        n = int(rng.integers(64, 200))
        A, kind = caller_container(rng, n)
        cls_name = 'AccSignal' if rng.random() < 0.75 else 'Signal'
        via = ['ctor', 'reset'][int(rng.integers(2))]
        hist = [via + ':' + kind]
        CURRENT['history'] = hist
        # the time step is the caller's too: steps that need more than a few decimals (1/256, 1/3, 1/120 ...) must be kept
        # bit-for-bit (a constructor that "tidies" dt silently changes every integral computed from the object)
        dt_own = float(OWN_DTS[int(rng.integers(len(OWN_DTS)))]) if rng.random() < 0.4 else H.DT
        try:
            if via == 'ctor':
                obj = getattr(eqsig, cls_name)(A, dt_own)
            else:
                obj = getattr(eqsig, cls_name)(np.linspace(0, 1, n + 3), dt_own)
                obj.reset_values(A)
        except Exception as e:
            ctx.exception('ownership.caller-array-unchanged', {'kind': 'ownership', 'history': hist, 'container': kind}, e)
            continue
        ctx.check(type(obj.dt) is float and obj.dt == dt_own or obj.dt == dt_own, 'ownership.dt-kept-bit-for-bit',
                  lambda: {'kind': 'ownership-dt', 'class': cls_name, 'dt': dt_own, 'got': float(obj.dt)},
                  '%s(values, dt=%r).dt is %r' % (cls_name, dt_own, obj.dt))
        if dt_own != H.DT:
            hist[0] += ':dt=%r' % dt_own
        before = csnap(A)
        L = int(rng.integers(3, 11))
        cur_n = n
        ops_done = []
        for k in range(L):
            ops = H.op_list(cls_name, rng, cur_n, dt=dt_own)
            op = ops[int(rng.integers(len(ops)))]
            if k == 0 and rng.random() < 0.6:       # make sure the in-place style mutators come first often
                inplace = [o for o in ops if o[0] in ('rebase_displacement', 'set_zero_residual_velocity', 'set_zero_residual_displacement',
                                                      'set_zero_residual_displacement_and_velocity', 'running_average',
                                                      'remove_rolling_average')]
                if inplace:
                    op = inplace[int(rng.integers(len(inplace)))]
            if op[0] == 'reset_values':
                continue        # a reset replaces the data: the link to A ends, keep the history about A
            hist.append(H.describe(op))
            ops_done.append(op)
            try:
                H.apply_op(eqsig, obj, op)
            except Exception as e:
                ctx.observe('mutator-raised(%s):%s:%s' % (kind, op[0], type(e).__name__))
            okk = csnap(A) == before
            ctx.check(okk, 'ownership.caller-array-unchanged',
                      lambda: {'kind': 'ownership', 'class': cls_name, 'via': via, 'container': kind, 'dt': dt_own, 'A': np.asarray(before[3] if False else A),
                               'ops': [[o[0], o[1]] for o in ops_done], 'history': list(hist)},
                      '%s built by %s from a %s container: the caller\'s container changed after %s' % (cls_name, via, kind, hist[-1]))
            if not okk:
                break
        ctx.case(core.digest(cls_name, via, kind, np.asarray(A, dtype=float), hist), nontrivial=len(hist) > 1, cls='ownership/%s/%s' % (via, kind),
                 sample={'class': cls_name, 'via': via, 'container': kind, 'history': list(hist)})
        # caller writes into its own container: no observable of the object may change
        try:
            o1 = obs_all(obj)
            poison(A, rng)
            o2 = obs_all(obj)
            bad = H.diff_obs(o1, o2)
            ctx.check(not bad, 'ownership.object-unaffected-by-caller-writes',
                      lambda: {'kind': 'ownership-write', 'class': cls_name, 'via': via, 'container': kind, 'history': list(hist)},
                      '%s (%s from %s): observables %s changed when the caller wrote into its own container' % (cls_name, via, kind, bad))
        except Exception as e:
            ctx.observe('observation-raised:' + type(e).__name__)
        # object -> object
        if h % 2 == 0:
            try:
                s1 = eqsig.AccSignal(np.array(np.sin(np.arange(n) * 0.3) + 0.05 * rng.normal(size=n)), H.DT)
                how = int(rng.integers(5))
                if how == 3:       # Python's copy protocols: a deep copy / an unpickled copy owns its data like a constructed one
                    s1.velocity, s1.fa_spectrum, s1.pga
                    s2 = copy.deepcopy(s1)
                elif how == 4:
                    import pickle
                    s1.smooth_fa_spectrum, s1.pgd
                    s2 = pickle.loads(pickle.dumps(s1))
                elif how == 0:
                    s2 = eqsig.AccSignal(s1.values, H.DT)
                elif how == 1:
                    s2 = eqsig.AccSignal(np.zeros(n) + 1.0, H.DT)
                    s2.reset_values(s1.values)
                else:
                    s2 = eqsig.AccSignal(np.cos(np.arange(n) * 0.2), H.DT)
                    s1.add_signal(s2)
                    s2, s1 = s1, s2       # now mutate the sum, watch the addend
                CURRENT['history'] = ['object->object how=%d' % how]
                b1 = snap(s1.values)
                o1 = obs_all(s1)
                ops = H.op_list('AccSignal', rng, n)
                inplace = [o for o in ops if o[0] in ('rebase_displacement', 'set_zero_residual_velocity', 'set_zero_residual_displacement',
                                                      'set_zero_residual_displacement_and_velocity', 'running_average',
                                                      'remove_rolling_average', 'add_constant', 'butter_pass')]
                done = []
                for k in range(int(rng.integers(1, 4))):
                    op = inplace[int(rng.integers(len(inplace)))]
                    done.append(H.describe(op))
                    H.apply_op(eqsig, s2, op)
                okk = snap(s1.values) == b1 and not H.diff_obs(o1, obs_all(s1))
                ctx.check(okk, 'ownership.object-to-object',
                          lambda: {'kind': 'object-object', 'how': how, 'ops': done},
                          'mutating a signal built from another signal\'s values (how=%d, %s) changed the other signal' % (how, done))
            except Exception as e:
                ctx.observe('object-object-raised:' + type(e).__name__)
    CURRENT['history'] = None


# ------------------------------------------------------------------------------------------------------ test-suite
def run_testsuite_under_monitors(ctx):
    """thorough tier, shard 0: the repository's tests with the invariant and the generic purity wrapper attached."""
    here = os.path.dirname(os.path.dirname(os.path.dirname(os.path.abspath(__file__))))
    out = tempfile.mktemp(prefix='vf_c05_pytest_', suffix='.json')
    env = dict(os.environ, VF_PLUGIN_OUT=out, VF_PLUGIN_PROPS='C05')
    env['PYTHONPATH'] = here + os.pathsep + os.path.join(here, '.deps') + os.pathsep + env.get('PYTHONPATH', '')
    r = subprocess.run([sys.executable, '-m', 'pytest', '-q', '-p', 'no:cacheprovider', '-p', 'vf.pytest_plugin', '--timeout=900', 'tests'],
                       cwd=core.repo_dir(), env=env, capture_output=True, text=True, timeout=1800)
    tail = (r.stdout or '').strip().splitlines()[-1:] or ['']
    ctx.note('testsuite_under_monitors', {'pytest_exit': r.returncode, 'summary': tail[0]})
    if not os.path.exists(out):
        ctx.observe('testsuite-under-monitors: no result file (pytest exit %s)' % r.returncode)
        return
    res = json.load(open(out))
    os.unlink(out)
    for k, v in res.get('counters', {}).items():
        ctx.ok(k, v)
    for v in res.get('violations', []):
        ctx.violation(v['clause'], v.get('witness'), '[under the repository test-suite] ' + v.get('msg', ''))
    ctx.observations['testsuite-under-monitors: monitored calls'] = sum(res.get('calls', {}).values())
    if r.returncode == 0:
        ctx.ok('testsuite-under-monitors.completed')
    else:
        ctx.observe('testsuite-under-monitors: pytest exit %s: %s' % (r.returncode, tail[0][:100]))


def run_shard(ctx):
    eqsig = core.import_eqsig()
    install(ctx)
    quick = ctx.tier == 'quick'
    drive_purity(ctx, eqsig, 40 if quick else 1000)
    drive_object_sequences(ctx, eqsig, (640 if quick else 16000) // ctx.nshards + 1)
    drive_ownership(ctx, eqsig, (480 if quick else 10000) // ctx.nshards + 1)
    # mutator sequences under the invariant (C04's alphabet, integer/list containers included)
    rng = ctx.rng
    for h in range((160 if quick else 4000) // ctx.nshards + 1):
        n = int(rng.integers(64, 160))
        A, kind = caller_container(rng, n)
        cls_name = 'AccSignal' if rng.random() < 0.7 else 'Signal'
        hist = ['ctor:' + kind]
        CURRENT['history'] = hist
        try:
            obj = getattr(eqsig, cls_name)(A, H.DT)
            cur_n = n
            for k in range(int(rng.integers(5, 16))):
                ops = H.op_list(cls_name, rng, cur_n)
                op = ops[int(rng.integers(len(ops)))]
                if op[0] == 'reset_values':
                    v = op[1]['values']
                    c = int(rng.integers(4))
                    op = ('reset_values', {'values': [v, [float(t) for t in v], tuple(float(t) for t in v), np.round(v * 10).astype(np.int64)][c]})
                    cur_n = len(v)
                hist.append(H.describe(op))
                try:
                    H.apply_op(eqsig, obj, op)
                except Exception as e:
                    ctx.observe('mutator-raised(%s):%s:%s' % (kind, op[0], type(e).__name__))
                obj.npts      # public reads also trigger the invariant
                if rng.random() < 0.3:
                    names = H.obs_names(obj)
                    try:
                        getattr(obj, names[int(rng.integers(len(names)))])
                    except Exception as e:
                        ctx.observe('read-raised:' + type(e).__name__)
        except Exception as e:
            ctx.observe('history-raised:' + type(e).__name__)
        ctx.case(core.digest(cls_name, kind, np.asarray(A, dtype=float), hist), nontrivial=True, cls='invariant-history/' + kind)
    # Cluster operations under the invariant
    for h in range((48 if quick else 800) // ctx.nshards + 1):
        n = int(rng.integers(120, 260))
        base = np.cumsum(rng.normal(size=n + 20))
        lag = int(rng.integers(-4, 5))
        CURRENT['history'] = ['Cluster.time_match/same_start lag=%d' % lag]
        try:
            with warnings.catch_warnings():
                warnings.simplefilter('ignore')
                c = eqsig.Cluster([base[10:10 + n], base[10 + lag:10 + lag + n], base[8:8 + n]], 0.01, stypes='acc' if h % 2 else 'custom')
                c.time_match(steps=6)
                c.same_start()
                for i in range(3):
                    c.signal_by_index(i).npts
        except Exception as e:
            ctx.observe('cluster-raised:' + type(e).__name__)
        ctx.case(core.digest('cluster', base, lag), nontrivial=True, cls='invariant-cluster')
    CURRENT['history'] = None
    if not quick and ctx.shard == 0:
        run_testsuite_under_monitors(ctx)
    ctx.note('monitored_calls', {k: v for k, v in sorted(attach.CALLS.items(), key=lambda kv: -kv[1])[:40]})


def replay(w):
    eqsig = core.import_eqsig()
    ctx = core.Ctx(PROP_ID, 'quick', 0, 0, 1)
    install(ctx)
    kind = w.get('kind')
    if kind in ('purity', 'repeat') and w.get('recipe') and w['recipe'].get('name') != 'sequence':
        rc = w['recipe']
        R = recipes(eqsig)
        x = rc['record']
        if rc['kind'] == 'list':
            x = [float(v) for v in np.asarray(x)]
        CURRENT['recipe'] = rc
        f, args, kwargs = R[rc['name']](np.random.default_rng(0), x, rc['kind'])
        judge_one_recipe(ctx, eqsig, rc['name'], f, args, kwargs, rc['kind'])
    elif kind == 'sequence' and w.get('recipe'):
        rc = w['recipe']
        x = rc['record']
        if rc['kind'] == 'list':
            x = [float(v) for v in np.asarray(x)]
        replay_sequence(ctx, eqsig, x, rc['kind'], rc.get('sequence', []))
    elif kind == 'ownership-dt':
        obj = getattr(eqsig, w['class'])(np.array([0.0, 1.0, -1.0, 0.5]), w['dt'])
        ctx.check(obj.dt == w['dt'], 'ownership.dt-kept-bit-for-bit', None, 'dt=%r stored as %r' % (w['dt'], obj.dt))
    elif kind == 'ownership':
        A = w['A']
        if w.get('container') == 'list':
            A = [float(v) for v in np.asarray(A)]
        if w['via'] == 'ctor':
            obj = getattr(eqsig, w['class'])(A, w.get('dt', H.DT))
        else:
            obj = getattr(eqsig, w['class'])(np.linspace(0, 1, len(A) + 3), w.get('dt', H.DT))
            obj.reset_values(A)
        before = csnap(A)
        for name, kw in w.get('ops', []):
            for k, v in list(kw.items()):
                if isinstance(v, list) and k in ('timezone', 'limits'):
                    kw[k] = tuple(v)
            try:
                H.apply_op(eqsig, obj, (name, kw))
            except Exception:
                pass
            ctx.check(csnap(A) == before, 'ownership.caller-array-unchanged', None, 'caller container changed after %s' % name)
    else:
        # invariant / object-object / write witnesses: re-drive a short deterministic battery
        ctx.rng = np.random.default_rng(12345)
        drive_ownership(ctx, eqsig, 40)
    return ['%s: %s' % (v['clause'], v['msg']) for v in ctx.violations]
