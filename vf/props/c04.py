"""C04 - derived quantities of a signal object never go stale.

Invariant at a hook: after EVERY operation of every history the live object is deep-copied (so that observing does not
disturb the cache state being explored) and every observable of the copy is compared with the same observable of a
freshly constructed object with the same values, dt and settings. Observation is done in forward and in reverse/random order of the observables and, for one representative of every
cache group, as the FIRST read after the operation on a copy of its own, because a stale-cache defect can depend on the order of the reads that follow
the mutation. Reads are additionally checked for idempotence and non-interference.
Workload: BFS over the observational cache states x every mutator/setting (x every second operation), both classes,
plus long random histories.
"""
import copy
import itertools
import warnings

import numpy as np

from vf import core, gen

PROP_ID = 'C04'
TECHNIQUE = ('invariant at a hook after every operation of a history: deep-copied observation (two read orders) vs freshly '
             'constructed twin; exhaustive BFS over observational cache states x operations + random histories')
RULE = ('cases = histories of public operations on Signal/AccSignal objects; the hook runs after every operation. Exhaustive '
        'part: abstract state W = set of cache groups {fa, smooth, resp, vel/disp, pga, pgv, pgd} read since the last change '
        '(60 reachable states for AccSignal, 3 for Signal); for every W and every operation m of the mutator/setting alphabet '
        '(84 AccSignal / 36 Signal variants incl. read-like calls of the analysis functions that take the object) the history reads(W);m is run, and for (W,m1,m2) all pairs on a tier-dependent set of '
        'W (quick: empty and all-warm; thorough: every W). Random part: histories of 10..60 operations over mutators, settings and '
        'reads on records of 32..300 samples with time steps 1e-6..7 s and amplitude scales 1e-9..1e9. distinct = digest(class, record, operation sequence); non-trivial = history '
        'contains at least one mutator or setting change.')
ASSUMPTIONS = ['float64 records with non-zero peak (integer records are stored as float64 by the library since fix 9fa8628 and are '
               'exercised by C05)',
               'explicit regenerations with non-default options (gen_fa_spectrum(p2_plus=..), gen_response_spectrum(xi=..), '
               'generate_displacement_and_velocity_series(trap=False), generate_smooth_fa_spectrum(band=..)) deliberately store a '
               'non-default result and are not operations of the property',
               'caller-side mutation of arrays handed out by .values / .response_times is not a public operation',
               'equality: rtol 1e-10 + atol 1e-12*scale (both sides run the same code)']
EXHAUSTIVE = {'quick': 'every (class, W, m) with W over all reachable observational cache states; every (class, W, m1, m2) for W in {empty, all-warm}',
              'thorough': 'every (class, W, m) and every (class, W, m1, m2) for all reachable W'}
CLONE = 'inv.clone(copy/deepcopy/pickle: both objects==fresh twin of own values, live reads)'
MIN_EVALS = {'quick': {'inv.after-op(all observables==fresh twin)': 8000, 'read.idempotent': 3000, 'read.non-interfering': 3000,
                       'inv.derived-object(all observables==fresh twin)': 1500, CLONE: 500,
                       'set.value-kept(periods / smoothing frequencies as given)': 1500,
                       'settings-unchanged-by-reads-and-mutators': 15000},
             'thorough': {'inv.after-op(all observables==fresh twin)': 250000, 'read.idempotent': 80000, 'read.non-interfering': 80000,
                          'inv.derived-object(all observables==fresh twin)': 12000, CLONE: 800,
                          'set.value-kept(periods / smoothing frequencies as given)': 40000,
                          'settings-unchanged-by-reads-and-mutators': 400000}}

OBS_SIG = ['npts', 'time', 'values', 'fa_spectrum', 'fa_freqs', 'fa_frequencies', 'smooth_fa_spectrum', 'smooth_fa_freqs',
           'fa_spectrum_abs']
OBS_ACC = OBS_SIG + ['velocity', 'displacement', 'pga', 'pgv', 'pgd', 's_a', 's_v', 's_d', 'response_times']
GROUP_READ = {'fa': 'fa_spectrum', 'smooth': 'smooth_fa_spectrum', 'resp': 's_a', 'vd': 'velocity', 'pga': 'pga', 'pgv': 'pgv',
              'pgd': 'pgd'}
DT = 0.01
FIRST_READS = ['pga', 'pgv', 'pgd', 'velocity', 'displacement', 'fa_spectrum', 'fa_freqs', 'smooth_fa_spectrum', 's_a', 's_d', 'time', 'npts']


def n_shards(tier):
    return 16


# ------------------------------------------------------------------------------------------------------ observation
def obs_names(obj):
    return OBS_ACC if hasattr(obj, 'response_times') else OBS_SIG


def observe(obj, order):
    out = {}
    with warnings.catch_warnings():
        warnings.simplefilter('ignore')
        for name in order:
            try:
                v = getattr(obj, name)
                out[name] = np.array(v, copy=True)
            except Exception as e:   # an observable that raises is itself an observation
                out[name] = 'EXC:' + type(e).__name__ + ':' + str(e)[:120]
    return out


def fresh(eqsig, obj):
    vals = np.array(obj.values, copy=True)
    if hasattr(obj, 'response_times'):
        return eqsig.AccSignal(vals, obj.dt, smooth_fa_freqs=np.array(obj.smooth_fa_freqs, copy=True),
                               response_times=np.array(obj.response_times, copy=True))
    return eqsig.Signal(vals, obj.dt, smooth_fa_freqs=np.array(obj.smooth_fa_freqs, copy=True))


def same(a, b):
    if isinstance(a, str) or isinstance(b, str):
        return isinstance(a, str) and isinstance(b, str) and a == b
    if a.shape != b.shape:
        return False
    if a.size == 0:
        return True
    if a.dtype.kind not in 'iufcb' or b.dtype.kind not in 'iufcb':
        return bool(np.array_equal(a, b))
    fin = np.isfinite(b)
    if not np.array_equal(np.isfinite(a), fin):
        return False
    if not fin.all():
        if not np.array_equal(a[~fin], b[~fin], equal_nan=True):
            return False
        a, b = a[fin], b[fin]
        if a.size == 0:
            return True
    scale = float(np.max(np.abs(b)))
    return bool(np.all(np.abs(a - b) <= 1e-10 * np.abs(b) + 1e-12 * scale))


def diff_obs(o1, o2):
    return [k for k in o1 if not same(o1[k], o2[k])]


# ------------------------------------------------------------------------------------------------------ operations
def op_list(cls_name, rng, n, dt=None, amp=1.0):
    """Concrete operation variants (name, kwargs) for a record of n samples with step dt (default DT) and amplitude scale
    amp; arrays drawn from rng. Frequencies scale with 1/dt, periods and times with dt, added values with amp."""
    dt = DT if dt is None else dt
    q = dt / DT
    t_end = (n - 1) * dt
    f1 = np.array([0.5, 1.0, 2.0, 5.0, 11.0]) / q
    f2 = np.array([0.3, 0.9, 3.0, 9.0]) / q
    ops = [
        ('reset_values', {'values': amp * rng.normal(size=n)}),
        ('reset_values', {'values': amp * rng.normal(size=max(8, n - 7))}),
        ('reset_values', {'values': amp * rng.normal(size=n + 9)}),
        ('add_constant', {'c': amp * float(rng.normal())}),
        ('add_series', {'series': amp * rng.normal(size=n)}),
        ('add_signal', {'values': amp * rng.normal(size=n)}),
        ('butter_pass', {'cut_off': (0.8 / q, 12.0 / q)}),
        ('butter_pass', {'cut_off': (None, 12.0 / q)}),
        ('butter_pass', {'cut_off': (0.8 / q, None), 'filter_order': 2}),
        ('butter_pass', {'cut_off': [0.8 / q, 12.0 / q], 'remove_gibbs': 'mid'}),
        ('remove_average', {}),
        ('remove_poly', {'poly_fit': 0}),
        ('remove_poly', {'poly_fit': 1}),
        ('remove_poly', {'poly_fit': 3}),
        ('running_average', {'width': 1}),
        ('running_average', {'width': 3}),
        ('running_average', {'width': 4}),
        ('set:smooth_fa_freqs', {'freqs': f1}),
        ('set:smooth_fa_frequencies', {'freqs': f2}),
        ('set:smooth_fa_freqs', {'freqs': np.array([2.0, 20.0, 70.0, 130.0]) / q}),      # two targets above the Nyquist frequency
        ('set_smooth_fa_frequecies_by_range', {'limits': (0.4 / q, 20.0 / q), 'n_points': 7}),
        ('set:smooth_freq_range', {'limits': (0.3 / q, 15.0 / q)}),
        ('set:smooth_freq_points', {'value': 9}),
        ('gen_smooth_fa_spectrum', {'smooth_fa_freqs': f1 * 1.1}),
        ('gen_smooth_fa_spectrum', {'smooth_fa_freqs': [float(t) for t in f2 * 0.9]}),     # a plain list, as the setters accept
        ('generate_smooth_fa_spectrum', {}),
        # assignment through the public attribute name (the clean library ignores it; whatever it does, it must do all of it)
        ('set:values', {'values': amp * rng.normal(size=n)}),
        ('set:values', {'values': amp * rng.normal(size=n + 5)}),
        # operations the library refuses, or accepts although the record is not finite: the invariant is judged after them as well
        ('reset_values', {'values': nonfinite(amp * rng.normal(size=n + 4), rng)}),
        ('add_series:wrong-length', {'series': amp * rng.normal(size=n + 3)}),
        ('add_signal:other-dt', {'values': amp * rng.normal(size=n)}),
        ('butter_pass', {'cut_off': 5.0 / q}),
    ]
    # analysis functions that take the object: read-like operations (they must not change any observable)
    for fn in CALLS_SIG if cls_name == 'Signal' else CALLS_SIG + CALLS_ACC:
        ops.append(('call:' + fn, {}))
    if cls_name == 'AccSignal':
        ta, tb = float(int(0.2 * (n - 1)) * dt), float(int(0.7 * (n - 1)) * dt)
        ops += [
            ('remove_rolling_average', {'mtype': 'velocity', 'freq_window': 5 / q}),
            ('remove_rolling_average', {'mtype': 'acceleration', 'freq_window': 5 / q}),
            ('remove_rolling_average', {'mtype': 'velocity', 'freq_window': 12 / q}),
            ('rebase_displacement', {}),
            ('set_zero_residual_velocity', {'timezone': None}),
            ('set_zero_residual_velocity', {'timezone': (ta, tb)}),
            ('set_zero_residual_velocity', {'timezone': (ta, None)}),
            ('set_zero_residual_displacement', {}),
            ('set_zero_residual_displacement_and_velocity', {'timezone': None}),
            ('set_zero_residual_displacement_and_velocity', {'timezone': (ta, tb)}),
            ('set_zero_residual_displacement_and_velocity', {'timezone': (ta, None)}),
            ('set_zero_residual_displacement_and_velocity', {'timezone': (0.0, tb)}),
            ('correct_me', {}),
            ('set:response_times', {'rt': np.array([0.05, 0.2, 1.0]) * q}),
            ('set:response_times', {'rt': np.array([0.0, 0.3, 0.8, 2.0]) * q}),
            ('gen_response_spectrum', {'response_times': np.array([0.1, 0.4, 1.5]) * q}),
            ('gen_response_spectrum', {'response_times': [0.07 * q, 0.5 * q]}),
            ('generate_response_spectrum', {'response_times': np.array([0.3, 0.6]) * q}),
            ('response_series', {'response_times': np.array([0.15, 0.9]) * q}),
            ('response_series', {}),
            ('generate_response_spectrum', {}),
            ('generate_displacement_and_velocity_series', {}),
            ('generate_fa_spectrum', {}),
            ('set:response_times(same object, edited, re-assigned)', {'factor': 1.25}),
            ('set:response_times(own array assigned, edited, re-assigned)', {'rt': np.array([0.12, 0.5, 1.4]) * q}),
            # container forms of the period list: a 2-tuple is a list of two periods, not a (min, max) range
            ('set:response_times', {'rt': (0.2 * q, 1.1 * q)}),
            ('set:response_times', {'rt': [0.3 * q]}),
            ('gen_response_spectrum', {'response_times': (0.15 * q, 0.9 * q)}),
        ]
    return ops


def nonfinite(v, rng):
    v = np.array(v, dtype=float)
    v[int(rng.integers(len(v)))] = [np.nan, np.inf, -np.inf][int(rng.integers(3))]
    return v


MUTATING = lambda name: not (name.startswith('read:'))
CALLS_SIG = ['im.max_fa_period', 'fns.generate_fa_spectrum', 'fns.calc_fa_spectrum', 'fns.get_sig_freq_range', 'fns.fas2values(own spectrum)',
             'fns.fas2signal(own spectrum)', 'fns.get_section_average', 'fns.calc_smooth_fa_spectrum_w_custom_matrix',
             'pc.get_peak_indices', 'pc.get_zero_crossings_indices', 'pc.get_switched_peak_indices', 'im.calc_bandwidth_freqs']
CALLS_ACC = ['im.calc_arias_intensity', 'im.calc_cav', 'im.calc_isv', 'im.calc_integral_of_abs_velocity',
             'im.calc_cumulative_abs_displacement', 'im.calc_integral_of_abs_acceleration', 'im.calc_unit_kinetic_energy',
             'im.calc_sig_dur', 'im.calc_brac_dur', 'im.calc_max_velocity_period', 'im.max_acceleration_period', 'im.calc_asi',
             'sdof.calc_resp_uke_spectrum', 'sdof.calc_input_energy_spectrum', 'surface.calc_surface_energy',
             'surface.calc_cum_abs_surface_energy', 'stockwell.get_max_stockwell_freq', 'fns.interp_to_approx_dt',
             'fns.resample_to_approx_dt', 'multiple.combine_at_angle', 'multiple.compute_rotated', 'method.generate_cumulative_stats',
             'method.get_section_average', 'fns.interp_to_approx_dt(same dt)', 'multiple.combine_at_angle(warm other, 0 deg)',
             'multiple.Cluster(member)']


def call_analysis(eqsig, obj, fn):
    im, sdof = eqsig.im, eqsig.sdof
    pc = eqsig.fns.peaks_and_crossings
    if fn == 'im.calc_brac_dur':
        return im.calc_brac_dur(obj, 0.3 * float(np.max(np.abs(obj.values))))
    if fn.startswith('im.'):
        return getattr(im, fn[3:])(obj)
    if fn.startswith('pc.'):
        return getattr(pc, fn[3:])(obj)
    if fn.startswith('sdof.'):
        return getattr(sdof, fn[5:])(obj)
    if fn == 'surface.calc_surface_energy':
        return eqsig.surface.calc_surface_energy(obj, np.array([1.3, 3.0]) * obj.dt, stt=2 * obj.dt, trim=True, start=True)
    if fn == 'surface.calc_cum_abs_surface_energy':
        return eqsig.surface.calc_cum_abs_surface_energy(obj, np.array([2.0]) * obj.dt)
    if fn == 'stockwell.get_max_stockwell_freq':
        return eqsig.stockwell.get_max_stockwell_freq(obj)
    if fn == 'fns.generate_fa_spectrum':
        return eqsig.generate_fa_spectrum(obj)
    if fn == 'fns.calc_fa_spectrum':
        return eqsig.calc_fa_spectrum(obj, p2_plus=1)
    if fn == 'fns.get_sig_freq_range':
        return eqsig.get_sig_freq_range(obj)
    if fn == 'fns.fas2values(own spectrum)':
        return eqsig.fas2values(obj.fa_spectrum, obj.dt)
    if fn == 'fns.fas2signal(own spectrum)':
        return eqsig.fas2signal(obj.fa_spectrum, obj.dt)
    if fn == 'fns.get_section_average':
        return eqsig.get_section_average(obj, start=0, end=obj.dt * (obj.npts // 2))
    if fn == 'method.get_section_average':
        return obj.get_section_average(start=0, end=obj.dt * (obj.npts // 3))
    if fn == 'fns.calc_smooth_fa_spectrum_w_custom_matrix':
        m = eqsig.calc_smoothing_matrix_konno_1998(obj.fa_freqs, np.array([1.0, 2.0, 5.0]) * (DT / obj.dt))
        return eqsig.calc_smooth_fa_spectrum_w_custom_matrix(obj, m)
    if fn == 'fns.interp_to_approx_dt':
        return eqsig.interp_to_approx_dt(obj, obj.dt / 3.0)
    if fn == 'fns.resample_to_approx_dt':
        return eqsig.resample_to_approx_dt(obj, obj.dt / 2.0)
    if fn == 'multiple.combine_at_angle':
        return eqsig.combine_at_angle(obj, obj, 30.0)
    if fn == 'fns.interp_to_approx_dt(same dt)':
        return eqsig.interp_to_approx_dt(obj, obj.dt, even=bool(obj.npts % 2 == 0))
    if fn == 'multiple.combine_at_angle(warm other, 0 deg)':
        other = eqsig.AccSignal(np.asarray(obj.values, dtype=float)[::-1] * 0.5, obj.dt)
        observe(other, OBS_ACC)          # the other component has every cache filled
        return eqsig.combine_at_angle(obj, other, 0.0)
    if fn == 'multiple.Cluster(member)':
        c = eqsig.Cluster([np.asarray(obj.values, dtype=float), np.asarray(obj.values, dtype=float)[::-1]], obj.dt, stypes='acc')
        return c.signal_by_index(0)
    if fn == 'multiple.compute_rotated':
        return eqsig.compute_rotated(obj, obj, parameter='pga', points=3)
    if fn == 'method.generate_cumulative_stats':
        return obj.generate_cumulative_stats()
    raise ValueError(fn)


def apply_op(eqsig, obj, op):
    name, kw = op
    with warnings.catch_warnings():
        warnings.simplefilter('ignore')
        if name.startswith('read:'):
            return getattr(obj, name[5:])
        if name == 'reset_values':
            return obj.reset_values(kw['values'])
        if name == 'add_constant':
            return obj.add_constant(kw['c'])
        if name == 'add_series':
            return obj.add_series(kw['series'][:obj.npts] if len(kw['series']) >= obj.npts else np.resize(kw['series'], obj.npts))
        if name == 'add_signal':
            v = kw['values'][:obj.npts] if len(kw['values']) >= obj.npts else np.resize(kw['values'], obj.npts)
            return obj.add_signal(type(obj)(v, obj.dt))
        if name == 'butter_pass':
            k2 = dict(kw)
            return obj.butter_pass(k2.pop('cut_off'), **k2)
        if name == 'set:smooth_fa_freqs':
            obj.smooth_fa_freqs = kw['freqs']
            return
        if name == 'set:smooth_fa_frequencies':
            obj.smooth_fa_frequencies = kw['freqs']
            return
        if name == 'set:smooth_freq_range':
            obj.smooth_freq_range = kw['limits']
            return
        if name == 'set:smooth_freq_points':
            obj.smooth_freq_points = kw['value']
            return
        if name == 'set:response_times':
            obj.response_times = kw['rt']
            return
        if name == 'set:values':
            obj.values = kw['values']
            return
        if name == 'add_series:wrong-length':
            return obj.add_series(kw['series'])
        if name == 'add_signal:other-dt':
            v = kw['values'][:obj.npts] if len(kw['values']) >= obj.npts else np.resize(kw['values'], obj.npts)
            return obj.add_signal(type(obj)(v, obj.dt * 2.0))
        if name.startswith('call:'):
            return call_analysis(eqsig, obj, name[5:])
        if name == 'set:response_times(same object, edited, re-assigned)':
            rt = obj.response_times
            if isinstance(rt, np.ndarray) and rt.dtype.kind == 'f':
                rt *= kw['factor']                    # the user edits the array it got from / gave to the object ...
            else:
                rt = np.array(rt, dtype=float) * kw['factor']
            obj.response_times = rt                   # ... and assigns it again: a settings change through the public API
            return
        if name == 'set:response_times(own array assigned, edited, re-assigned)':
            rt = np.array(kw['rt'], dtype=float)
            obj.response_times = rt
            obj.s_a
            rt[...] = rt * 1.5 + 0.01
            obj.response_times = rt
            return
        if name == 'set_zero_residual_velocity' or name == 'set_zero_residual_displacement_and_velocity':
            return getattr(obj, name)(timezone=kw['timezone'])
        return getattr(obj, name)(**kw)


def is_settings_op(op):
    name, kw = op
    if name.startswith('set:') and name != 'set:values':
        return True
    if name == 'set_smooth_fa_frequecies_by_range':
        return True
    if name in ('gen_smooth_fa_spectrum',) and kw.get('smooth_fa_freqs') is not None:
        return True
    if name in ('gen_response_spectrum', 'generate_response_spectrum', 'response_series') and kw.get('response_times') is not None:
        return True
    return False


def settings_of(obj):
    out = {}
    for k in ('smooth_fa_freqs', 'response_times'):
        if hasattr(obj, k):
            try:
                out[k] = np.array(getattr(obj, k), dtype=float, copy=True)
            except Exception as e:
                out[k] = 'EXC:' + type(e).__name__
    return out


def same_setting(a, b):
    if isinstance(a, str) or isinstance(b, str) or b is None:
        return isinstance(a, str) and isinstance(b, str) and a == b
    return a.shape == b.shape and bool(np.array_equal(a, b))


def describe(op):
    name, kw = op
    return name + '(' + ','.join('%s=%s' % (k, ('arr%d' % len(v)) if hasattr(v, '__len__') and not isinstance(v, (str, tuple)) else v)
                                 for k, v in kw.items()) + ')'


# ------------------------------------------------------------------------------------------------------ the hook
class Hook(object):
    def __init__(self, ctx, eqsig):
        self.ctx = ctx
        self.eqsig = eqsig
        self.states = set()
        self.transitions = set()
        self.dt = DT

    def witness(self, cls_name, base, history):
        return {'class': cls_name, 'base': base, 'dt': self.dt, 'history': [[n, kw] for n, kw in history]}

    def inv(self, obj, cls_name, base, history, rng=None):
        """Inv(obj): every observable of a deep copy equals that of a freshly built twin (two read orders)."""
        names = obs_names(obj)
        f = fresh(self.eqsig, obj)
        of = observe(f, names)
        o1 = observe(copy.deepcopy(obj), names)
        order2 = list(reversed(names)) if rng is None else list(rng.permutation(names))
        o2 = observe(copy.deepcopy(obj), order2)
        # third observation: one representative of every cache group read FIRST after the operation, each on its own deep
        # copy (a stale cached peak can be hidden by any earlier read that regenerates the series it was computed from)
        o3 = {}
        for name in FIRST_READS:
            if name in of:
                o3[name] = observe(copy.deepcopy(obj), [name])[name]
        bad3 = [k for k in o3 if not same(o3[k], of[k])]
        bad = sorted(set(diff_obs(o1, of)) | set(diff_obs(o2, of)) | set(bad3))
        self.ctx.check(not bad, 'inv.after-op(all observables==fresh twin)',
                       lambda: dict(self.witness(cls_name, base, history), stale=bad),
                       '%s after %s: observables %s differ from a fresh object with the same values/dt/settings'
                       % (cls_name, ' ; '.join(describe(o) for o in history[-4:]), bad))
        return not bad

    def inv_derived(self, result, cls_name, base, history):
        """signal objects RETURNED by a library function applied to the (possibly warm) object: every observable equals that of
        a freshly built twin of the returned object's own values/dt/settings - a derived object must not inherit a memo"""
        objs = [r for r in (list(result) if isinstance(result, (tuple, list)) else [result])
                if hasattr(r, 'values') and hasattr(r, 'npts') and hasattr(r, 'reset_values')]
        for d in objs:
            names = obs_names(d)
            of = observe(fresh(self.eqsig, d), names)
            o1 = observe(copy.deepcopy(d), names)
            o3 = {}
            for name in FIRST_READS:
                if name in of:
                    o3[name] = observe(copy.deepcopy(d), [name])[name]
            bad = sorted(set(diff_obs(o1, of)) | set(k for k in o3 if not same(o3[k], of[k])))
            self.ctx.check(not bad, 'inv.derived-object(all observables==fresh twin)',
                           lambda: dict(self.witness(cls_name, base, history), stale=bad),
                           'object returned by %s: observables %s differ from a fresh object with the same values/dt/settings'
                           % (describe(history[-1]), bad))

    def read_checks(self, obj, cls_name, base, history, name):
        """idempotence and non-interference of one read on the live object"""
        names = obs_names(obj)
        before = observe(copy.deepcopy(obj), names)
        with warnings.catch_warnings():
            warnings.simplefilter('ignore')
            v1 = np.array(getattr(obj, name), copy=True)
            v2 = np.array(getattr(obj, name), copy=True)
        self.ctx.check(same(v1, v2) and v1.shape == v2.shape, 'read.idempotent',
                       lambda: dict(self.witness(cls_name, base, history + [('read:' + name, {})]), read=name),
                       'reading %s twice gives different values' % name)
        after = observe(copy.deepcopy(obj), names)
        bad = diff_obs(after, before)
        self.ctx.check(not bad, 'read.non-interfering',
                       lambda: dict(self.witness(cls_name, base, history + [('read:' + name, {})]), read=name, changed=bad),
                       'reading %s changed other observables %s' % (name, bad))


CLONE_KINDS = ('deepcopy', 'pickle', 'copy')
CLONE_AFTER = ('none', 'reset-clone', 'reset-original', 'mutate-clone', 'mutate-original')


def clone_scenario(hook, eqsig, cls_name, base, W, kind, after, first, rng, dt=None):
    """Python's own object protocols are public operations too: reads(W) on the original, then a clone by copy.copy /
    copy.deepcopy / pickle round trip, optionally a value change on one of the two, then LIVE reads of every observable of one
    object and then of the other (the order matters when a memo is shared). Each object must report what a fresh object with
    ITS OWN current values, dt and settings reports. A shallow copy shares the value buffer by definition, so after copy.copy
    only the rebinding reset_values is driven, and the two buffers are checked to be separate before anything is judged."""
    import pickle
    ctx = hook.ctx
    hook.dt = DT if dt is None else dt
    obj = make_obj(eqsig, cls_name, base, hook.dt)
    hist = [('read:' + GROUP_READ[g], {}) for g in W]
    with warnings.catch_warnings():
        warnings.simplefilter('ignore')
        for op in hist:
            getattr(obj, op[0][5:])
        hist = hist + [('clone:%s/%s/first=%s' % (kind, after, first), {})]
        try:
            if kind == 'deepcopy':
                twin = copy.deepcopy(obj)
            elif kind == 'pickle':
                twin = pickle.loads(pickle.dumps(obj))
            else:
                twin = copy.copy(obj)
        except Exception as e:
            ctx.violation(CLONE, hook.witness(cls_name, base, hist), '%s of a %s raised %r' % (kind, cls_name, e))
            return
        n = len(base)
        if after in ('reset-clone', 'reset-original'):
            (twin if after == 'reset-clone' else obj).reset_values(np.asarray(base, dtype=float)[::-1] * 3.0 + 0.25)
        elif after in ('mutate-clone', 'mutate-original'):
            if kind == 'copy':
                return            # an in-place mutator on a shallow copy legitimately moves both: not driven
            ops = [o for o in op_list(cls_name, rng, n, hook.dt) if o[0] in ('add_constant', 'butter_pass', 'remove_poly', 'rebase_displacement',
                                                                          'running_average', 'set:response_times', 'set:smooth_fa_freqs',
                                                                          'set_zero_residual_velocity', 'add_series')]
            op = ops[int(rng.integers(len(ops)))]
            hist.append(op)
            try:
                apply_op(eqsig, twin if after == 'mutate-clone' else obj, op)
            except Exception as e:
                ctx.observe('operation-raised:%s:%s' % (op[0], type(e).__name__))
        if kind == 'copy' and after != 'none' and np.shares_memory(np.asarray(obj.values), np.asarray(twin.values)):
            ctx.observe('clone: shallow copies still share their value buffer (not judged)')
            return
        names = obs_names(obj)
        pair = [('original', obj), ('clone', twin)]
        if first == 'clone':
            pair.reverse()
        bad = []
        for label, o in pair:
            of = observe(fresh(eqsig, o), names)
            order = list(rng.permutation(names)) if rng is not None else names
            live = observe(o, order)           # live reads: they fill the caches of the object that is read first
            bad += ['%s.%s' % (label, k) for k in names if not same(live[k], of[k])]
        ctx.check(not bad, CLONE, lambda: dict(hook.witness(cls_name, base, hist), stale=bad, clone=[kind, after, first], W=list(W)),
                  '%s, reads %s, %s, then %s, %s read first: %s differ from a fresh object with the same values/dt/settings'
                  % (cls_name, list(W), kind, after, first, bad))
        ctx.keyset('clone scenarios (class, kind, after, first)').add((cls_name, kind, after, first))


def reachable_states(cls_name):
    if cls_name == 'Signal':
        return [(), ('fa',), ('fa', 'smooth')]
    out = []
    for fa in ((), ('fa',), ('fa', 'smooth')):
        for resp in ((), ('resp',)):
            for vd in ((), ('vd',), ('vd', 'pgv'), ('vd', 'pgd'), ('vd', 'pgv', 'pgd')):
                for pga in ((), ('pga',)):
                    out.append(fa + resp + vd + pga)
    return out


def make_obj(eqsig, cls_name, base, dt=None):
    dt = DT if dt is None else dt
    q = dt / DT
    if cls_name == 'AccSignal':
        return eqsig.AccSignal(base, dt, response_times=np.array([0.1, 0.35, 1.2]) * q, smooth_fa_freqs=np.array([0.6, 1.5, 4.0, 10.0]) / q)
    return eqsig.Signal(base, dt, smooth_fa_freqs=np.array([0.6, 1.5, 4.0, 10.0]) / q)


def run_history(hook, eqsig, cls_name, base, history, check_every=True, rng=None, reads_checked=True, dt=None):
    """Execute a history on a new object with the hook after every operation. Returns False at the first violation."""
    ctx = hook.ctx
    hook.dt = DT if dt is None else dt
    obj = make_obj(eqsig, cls_name, base, hook.dt)
    done = []
    okk = True
    for op in history:
        name = op[0]
        keeps = not is_settings_op(op)
        if keeps:
            before_settings = settings_of(obj)
        try:
            if name.startswith('read:') and reads_checked:
                hook.read_checks(obj, cls_name, base, done, name[5:])
            else:
                res = apply_op(eqsig, obj, op)
                if name.startswith('call:') and res is not None:
                    hook.inv_derived(res, cls_name, base, done + [op])
        except Exception as e:
            # An operation that raises (e.g. a Butterworth filter on a record that earlier resets made shorter than scipy's
            # pad length) is outside what the statement promises: counted, not judged. The invariant is still evaluated
            # afterwards - a failed operation must not leave stale derived quantities behind either.
            ctx.observe('operation-raised:%s:%s' % (name, type(e).__name__))
        done.append(op)
        if keeps:
            # the settings the user gave (smoothing frequencies, response periods) are changed by settings operations only:
            # a read, an analysis call or a value mutator that rewrites them (e.g. drops targets above the Nyquist frequency
            # while generating the smoothed spectrum) makes the object differ from the fresh object "with the same settings"
            now = settings_of(obj)
            changed = [k for k in before_settings if not same_setting(before_settings[k], now.get(k))]
            ctx.check(not changed, 'settings-unchanged-by-reads-and-mutators',
                      lambda: dict(hook.witness(cls_name, base, done), changed=changed),
                      '%s: %s changed the settings %s' % (cls_name, describe(op), changed))
        if name in ('set:response_times', 'set:smooth_fa_freqs', 'set:smooth_fa_frequencies'):
            attr = 'response_times' if name == 'set:response_times' else 'smooth_fa_freqs'
            given = np.asarray(op[1]['rt' if attr == 'response_times' else 'freqs'], dtype=float)
            try:
                have = np.asarray(getattr(obj, attr), dtype=float)
                kept = have.shape == given.shape and bool(np.array_equal(have, given))
            except Exception:
                have, kept = None, False
            ctx.check(kept, 'set.value-kept(periods / smoothing frequencies as given)',
                      lambda: dict(hook.witness(cls_name, base, done), attribute=attr, given=given, stored=have),
                      '%s: after %s the object reports %s = %s' % (cls_name, describe(op), attr, None if have is None else have[:5]))
        if check_every or op is history[-1]:
            if not hook.inv(obj, cls_name, base, done, rng):
                okk = False
                break
    return okk


# ------------------------------------------------------------------------------------------------------ workload
def run_shard(ctx):
    eqsig = core.import_eqsig()
    hook = Hook(ctx, eqsig)
    rng = ctx.rng
    quick = ctx.tier == 'quick'
    n = 96
    job = 0
    n_enum1 = n_enum2 = 0
    for cls_name in ('AccSignal', 'Signal'):
        states = reachable_states(cls_name)
        nops = len(op_list(cls_name, np.random.default_rng(0), n))
        # ---- (W, m) --------------------------------------------------------------------------------------------
        for W in states:
            for mi in range(nops):
                job += 1
                if job % ctx.nshards != ctx.shard:
                    continue
                base, _ = gen.record(rng, n, cls=['noise', 'quake', 'walk', 'sine'][job % 4], amp=1.0)
                base = base + 0.01
                ops = op_list(cls_name, rng, n)
                reads = [('read:' + GROUP_READ[g], {}) for g in W]
                if job % 3 == 0:
                    reads = [reads[i] for i in rng.permutation(len(reads))] if reads else reads
                hist = reads + [ops[mi]]
                run_history(hook, eqsig, cls_name, base, hist, check_every=False, reads_checked=False)
                n_enum1 += 1
                hook.transitions.add((cls_name, W, ops[mi][0] + str(mi)))
                hook.states.add((cls_name, W))
                if job % 400 == 1:
                    ctx.sample({'class': cls_name, 'W(reads since last change)': list(W), 'history': [describe(o) for o in hist]})
        # ---- (W, m1, m2) ---------------------------------------------------------------------------------------
        if quick:
            st2 = [states[0], states[-1]]
        else:
            st2 = states
        for W in st2:
            for m1 in range(nops):
                for m2 in range(nops):
                    job += 1
                    if job % ctx.nshards != ctx.shard:
                        continue
                    base, _ = gen.record(rng, n, cls=['noise', 'quake', 'walk', 'sine'][job % 4], amp=1.0)
                    base = base + 0.01
                    ops = op_list(cls_name, rng, n)
                    reads = [('read:' + GROUP_READ[g], {}) for g in W]
                    hist = reads + [ops[m1], ops[m2]]
                    run_history(hook, eqsig, cls_name, base, hist, check_every=False, reads_checked=False)
                    n_enum2 += 1
    ctx.cases_enumerated(n_enum1 + n_enum2, n_enum1 + n_enum2, cls='exhaustive-cache-state-x-ops')
    ctx.exhaustive['(class,W,m) histories'] = n_enum1
    ctx.exhaustive['(class,W,m1,m2) histories'] = n_enum2
    # ---- every read in every state: idempotence / non-interference --------------------------------------------------
    for cls_name in ('AccSignal', 'Signal'):
        for W in reachable_states(cls_name):
            job += 1
            if job % ctx.nshards != ctx.shard:
                continue
            base, _ = gen.record(rng, n, cls='noise', amp=1.0)
            names = OBS_ACC if cls_name == 'AccSignal' else OBS_SIG
            for rname in names:
                ops = op_list(cls_name, rng, n)
                pre = [ops[int(rng.integers(len(ops)))]] if rng.random() < 0.5 else []
                hist = pre + [('read:' + GROUP_READ[g], {}) for g in W] + [('read:' + rname, {})]
                run_history(hook, eqsig, cls_name, base, hist, check_every=False, reads_checked=True)
                ctx.cases_enumerated(1, 1 if pre else 0, cls='exhaustive-read-in-state')
    # ---- clones: every cache state x {copy, deepcopy, pickle} x {nothing, value change on either side} x read order --------
    n_clone = 0
    for cls_name in ('AccSignal', 'Signal'):
        for W in reachable_states(cls_name):
            for kind in CLONE_KINDS:
                for after in CLONE_AFTER:
                    for first in ('original', 'clone'):
                        job += 1
                        if job % ctx.nshards != ctx.shard:
                            continue
                        if quick and cls_name == 'AccSignal' and after.startswith('mutate') and job % 3:
                            continue
                        base, _ = gen.record(rng, n, cls=['noise', 'quake', 'walk', 'sine'][job % 4], amp=1.0)
                        clone_scenario(hook, eqsig, cls_name, base + 0.01, W, kind, after, first, rng)
                        n_clone += 1
    ctx.cases_enumerated(n_clone, n_clone, cls='clone-scenarios')
    ctx.exhaustive['(class,W,clone kind,after,first) scenarios'] = n_clone
    # ---- random histories -------------------------------------------------------------------------------------------
    nh = (320 if quick else 10000) // ctx.nshards + 1
    for h in range(nh):
        cls_name = 'AccSignal' if rng.random() < 0.75 else 'Signal'
        nn = int(rng.integers(32, 301))
        amp = float(10 ** rng.uniform(-9, 9)) if rng.random() < 0.4 else float(10 ** rng.uniform(-2, 2))
        hdt = float(rng.choice([0.002, 0.005, 0.01, 0.01, 0.02, 0.05, 0.1, 1e-6, 7.0]))
        base, rc = gen.record(rng, nn, cls=['noise', 'quake', 'walk', 'sine', 'chirp', 'beat'][int(rng.integers(6))], amp=amp)
        base = base + 0.01 * float(np.max(np.abs(base)))
        L = int(rng.integers(10, 61)) if not quick else int(rng.integers(10, 31))
        names = OBS_ACC if cls_name == 'AccSignal' else OBS_SIG
        hist = []
        cur_n = nn
        for k in range(L):
            if rng.random() < 0.5:
                hist.append(('read:' + names[int(rng.integers(len(names)))], {}))
            else:
                ops = op_list(cls_name, rng, cur_n, hdt, amp)
                op = ops[int(rng.integers(len(ops)))]
                if op[0] == 'reset_values':
                    cur_n = len(op[1]['values'])
                hist.append(op)
        nontriv = any(not o[0].startswith('read:') for o in hist)
        ctx.case(core.digest(cls_name, base, [describe(o) for o in hist]), nontrivial=nontriv, cls='random-history/' + cls_name,
                 sample={'class': cls_name, 'n': nn, 'record': rc, 'history': [describe(o) for o in hist[:12]], 'length': L})
        run_history(hook, eqsig, cls_name, base, hist, check_every=True, rng=rng, reads_checked=(h % 2 == 0), dt=hdt)
    ctx.keyset('abstract states').update(hook.states)
    ctx.keyset('abstract transitions').update(hook.transitions)


def replay(w):
    eqsig = core.import_eqsig()
    ctx = core.Ctx(PROP_ID, 'quick', 0, 0, 1)
    hook = Hook(ctx, eqsig)
    hist = [(h[0], h[1]) for h in w['history']]
    for op in hist:       # tuples were stored as tagged tuples / lists
        for k, v in list(op[1].items()):
            if isinstance(v, list) and k in ('timezone', 'limits', 'cut_off') and k != 'cut_off':
                op[1][k] = tuple(v)
    run_history(hook, eqsig, w['class'], w['base'], hist, check_every=True, reads_checked=True, dt=w.get('dt', DT))
    return ['%s: %s' % (v['clause'], v['msg']) for v in ctx.violations]
