"""C15 - Stockwell transform: definition, Fourier marginal, exact inverse, dominant frequency.

Monitors (post-conditions on every execution of the real functions, wherever the call comes from):
  stockwell.transform / transform_w_scipy_fft   shape; every cell against the defining triple sum (oracles/stransform.py,
                                                direct sums, no FFT); row sums against the direct DFT; the scipy variant
                                                additionally against the numpy variant on the same record; the record
                                                argument bit-for-bit unchanged
  stockwell.itransform                          against record - mean - Nyquist component (record known from the
                                                provenance registry filled by the transform monitors); argument unchanged
  stockwell.get_max_stockwell_freq / get_max_tifq_vals_freq
                                                every entry is the grid frequency n/(N dt) of a row attaining the column
                                                maximum (tifq: of the array passed; asig: of the REFERENCE transform of
                                                the values the object had at call entry - the object's cache is not read);
                                                for an on-grid sinusoid (recognised by the DFT oracle) inside
                                                [2nd harmonic, 3/4 Nyquist] the trace equals k/(N dt) on the middle half;
                                                arguments unchanged
Driver-side relations between executions: linearity T(a x + b y) = a T(x) + b T(y); every FIRST result (transform, row
sums, inverse, both dominant-frequency traces) re-judged by the same clauses after a second record of the same length
went through the same functions (process-wide scratch state); caller arrays unchanged after a whole call sequence.
Object histories: a post-hook on Signal.reset_values (every mutator ends there) and the values digest of the last monitored
call tell the get_max_stockwell_freq monitor that the values changed; the trace must then be that of the current record.
Every clause about values carries the parity of the record length ([even]/[odd]; odd lengths exercise the truncation).
Round 3 (audit items 22-27): f(A); f(B); f(A) for every function (B of the same / another shape, non-finite, rejected by the
library) and one argument object whose contents are replaced between the calls (drive_aba); copy.copy / copy.deepcopy / pickle
round trips of AccSignal, Signal and Cluster members in every cache state followed by reads, resets, mutators, assignments
through the public attribute names and refused operations on copy and original (drive_protocols): every read is judged online
by the monitor and, driver side, against the reference transform of the values that object has at that moment.
Round 5 (audit items 28-33): the time step in every scalar form (Python int / float / bool, numpy float64 / float32 / int64 /
int32 / bool_, 0-d arrays - snapshot at call entry, judged with the entry value, bit-for-bit unchanged afterwards:
dt-unchanged(...)); the interp flag at its default value as False / np.False_ / 0-d bool array / 0; bool-dtype records (array,
read-only array, list of Python bools) in every record class; user-given settings (smoothing frequencies above the Nyquist
frequency, response periods below 2 dt, a Fourier spectrum on an explicitly requested grid) unchanged by the Stockwell reads
(settings-unchanged(...)); every returned array overwritten by the caller before the same call is made again.
"""
import collections
import math
import weakref

import numpy as np

from vf import attach, core, gen, tol
from vf.oracles import stransform as O

PROP_ID = 'C15'
TECHNIQUE = ('runtime post-condition monitors on transform / transform_w_scipy_fft / itransform / get_max_stockwell_freq / '
             'get_max_tifq_vals_freq with a direct-sum (no FFT) reference S-transform and DFT; argument-purity monitors; '
             'driver-side linearity relation and back-to-back re-checks of held results')
RULE = ('cases = (record, container, implementation | dt) calls of the real functions. Definition part: EVERY length 4..64 x '
        '31 record classes (noise, ground-motion windows, walks, chirps, impulses, steps, plateaus, constants, flat starts/ends, '
        'extreme at the first/last sample, sign change at the last step, small signal on a large offset, micro 1e-12..1e-9 '
        'and macro 1e9..1e12 amplitudes, monotone ramps, one-sided negative records, Nyquist-frequency energy on top of noise, '
        'tail-heavy (exact zeros then action in the last 1/8), a constant with one changed sample, one sample 1e3..1e12 times '
        'the rest; extreme-scale classes also as float32; every sixth case through gen.special_scale: uniformly 1e-165..1e-300 '
        'or 1e155..1e300, 1e-150 vs 1e150 inside one record, ripple on a large baseline, counts above 2**24; thorough: twice) plus lengths around every power of two up to 1024 and random '
        'lengths; containers float64/float32/int64/int32/int16/int8/uint8/uint16 (values filling the dtype range), lists and '
        'tuples of floats / ints / mixed, strided, reversed and read-only views. Each case passes ONE argument object to both '
        'implementations (positional / keyword / interp=False forms), inverts one result and feeds the other to the '
        'dominant-frequency helper (as returned, modulus, float32 modulus, Fortran-ordered, read-only, nested list for the '
        'inverse), then repeats everything with a second record of the same length and re-judges the FIRST results, plus a '
        'linear combination (every second case). Sinusoid part: EVERY on-grid harmonic 2 <= k <= 0.75 N/2 for N in '
        '{16,32,64,100,128} (thorough: 16 values of N up to 1000) and harmonics {2, k_max, random} for EVERY even N in 16..260 '
        '(thorough: 16..520) -- each N also as the odd length N+1 -- plus one harmonic for 29 sampled N in 280..1024 (quick) / '
        'EVERY even N in 522..1024 (thorough) and an odd partner; random phase, amplitude 1, 10^U(-12,12), 10^U(155,295) or 10^-U(165,295); float64 / float32 / '
        'list / strided / read-only records; each sinusoid is transformed, inverted and driven through '
        'get_max_stockwell_freq(AccSignal(record, dt)) and get_max_tifq_vals_freq(transform or a derived form, dt) for 2..8 dt '
        'per record (nice decimals and the 1/k floor-trap list cycled against the lengths, 1/k for random k <= 1000, '
        'log-uniform over [1e-9, 1e3], [1e-3, 1], gen.awkward_dt for k = N/2 and k = N (quotients that do not recover k); Python float / int / numpy float64 / float32 scalars). For every N '
        'of the every-N block one same-object history: twin objects from one caller array and from each other\'s values, '
        'repeated calls (cached swtf), reads of other cached quantities in between, the caller-presets-swtf idiom, then '
        'reset_values and 3 of 13 further mutators (add_constant, add_series, remove_average, remove_poly, butter_pass, '
        'running_average, same / shorter reset, low-pass within 1 % of Nyquist, high-pass below 1e-3 of it, a band touching both, '
        'list / tuple reset) each followed by a call judged against the CURRENT values whether the mutator raised or not, the re-preset '
        'idiom after a mutation (judged) and a foreign swtf attached after a mutation (counted); and one multi-object '
        'history: two components (on-grid sinusoid pair, every third a random pair; none / one / both analysed first) combined '
        'with combine_at_angle at 4 angles out of {0, 30, 90, 180, 270, -90, 360, 45.5, -30.25, 123.4, U(-360,360)}, each '
        'combination analysed twice, then interp_to_approx_dt of an analysed object, a deep copy analysed / mutated / analysed, '
        'and Cluster members analysed before and after same_start. '
        'Round 3: record classes silent (all +0.0 / -0.0), last-only (odd n: silent even part), positive-only, non-positive with '
        'exact zeros; x - x in the linearity relation; every definition case also as f(A); f(B); f(A) through all five functions '
        '(B cycling over same shape / another length / one nan or inf sample / scalar, string, length-1, None) and, for B of the '
        'same shape, ONE buffer refilled A, B, A between three calls of transform, itransform and get_max_tifq_vals_freq; for every '
        'N of the every-N block and for one in eight definition cases (every class, every length 4..64) one protocol history: '
        'object kind in {AccSignal, Signal, Cluster member, whole Cluster} x cache state in {cold, Stockwell, spectra, velocity / '
        'displacement / peaks, response spectra, all} x {copy.copy, copy.deepcopy, pickle protocol 2 / 4 / 5}, reads first or not, '
        'then 5 random steps on the original or the copy out of: reset_values (array / list / tuple), 13 mutators (now with '
        'Butterworth corners within 1 % of Nyquist and below 1e-3 of it; deep copies only), assignment to values / dt / npts / '
        'label / time / smooth_fa_freqs / smooth_fa_frequencies / response_times (list / tuple / array; 1, 2, 3 entries or a whole '
        'record), 12 refused operations (add_series of a wrong length, add_signal with another dt / a string, three bad cut-offs, '
        'negative polynomial order, ragged / scalar / nan / inf reset); the touched object is read after every step, both objects '
        'twice at the end; a mutator that raises in a same-object history is now followed by a judged call as well. '
        'Round 5: containers also bool / read-only bool / list of Python bools (rectangular pulses: record > median; 3 of 23 '
        'container slots, every record class); the third transform call of a definition case passes interp as np.False_ / 0-d bool '
        'array / 0 / np.bool_(False), the scipy variant cycles through all eight spellings; every second definition case ends with '
        'the caller overwriting all three transforms (then both implementations and the inverse are asked again, the inverse '
        'overwritten and asked once more), every case overwrites the array-level trace and asks again; one dt in eight (definition '
        'part, every-N block) / one sinusoid in three (other blocks) uses a scalar form out of Python int / bool, numpy float64 / '
        'float32 / int64 / int32 / bool_, 0-d float64 / float32 / int64 arrays, writeable and read-only - the SAME 0-d object goes '
        'to AccSignal(...) and to get_max_tifq_vals_freq and is compared with its entry value after every call and after the '
        'sequence; three of four sinusoid sequences run the object-purity reads on an object with user-given settings (constructor '
        'keywords / setters with list, tuple / gen_fa_spectrum(n = npts - 2 or 2 npts + 6)). '
        'distinct = digest(record, options); non-trivial = record with at least two distinct values.')
ASSUMPTIONS = ['real, finite records of length 4..1024 (complex input, scalars, lengths 1..3 and > 1024 are counted, not judged; '
               'records past 2**16 are not driven: the (n/2 x n) result alone would take 34 GB)',
               'the Gaussian window of width 1/f is periodised once: m runs over the alias representatives -(N/2-1)..N/2',
               'float32 records are judged with the tolerance scaled by eps(float32)/eps(float64) (numpy keeps the '
               'precision of the input in the forward FFT); with a float32 time step the frequencies are judged to '
               '4*eps32*(N/2) relative (the axis may be formed in the precision of dt)',
               '"middle half" = samples ceil(N/4) .. floor(3N/4)-1 of the even-truncated record of length N',
               'an "on-grid sinusoid" is a record whose direct DFT vanishes (1e-9 relative, 2-norm; 1e-6 for float32 records) '
               'outside bins k and N-k; integer-quantised sinusoids are therefore judged by the column-maximum clause only',
               'transform(..., interp=True) is outside the statement (counted, not judged); a nested list passed as the '
               'time-frequency array of get_max_tifq_vals_freq is rejected by the library (counted)',
               'object histories: the first get_max_stockwell_freq after the values of a signal object changed (any public '
               'mutator; all end in reset_values; a change of values seen between two monitored calls counts too) must report '
               'the trace of the CURRENT record (clause maxfreq(asig)==f.after-mutation) unless the caller attached another swtf '
               'object after the change; an swtf the caller attached explicitly (at construction or after the last change) is '
               'honoured: judged when it is a monitored transform of the current values, counted otherwise; whether a mutator '
               'raises is another property\'s business (counted), but the call that follows is judged against the values the '
               'object then has (refused operations must leave it as it was or completely updated)',
               'round 3: a read of an object whose values are no record of the statement (0-d after the half-finished '
               'reset_values(scalar) of the clean code, length < 4 after a shorter reset of a short record, nan / inf accepted by '
               'reset_values) is counted, not judged, also when it raises; the object is judged again after the next complete reset',
               'round 3: shallow copies share the value buffer by definition: after copy.copy only rebinding resets, assignments and '
               'refused operations are driven, and the history stops (counted) if the two objects still share memory after a reset',
               'round 3: third-call==first-call / refilled-argument.third==first: transform and inverse to 2 RTOL (both satisfy the '
               'definition to RTOL); the two traces bit-for-bit, and only when the arrays they were taken from are bit-for-bit '
               'identical (a function of (array, dt) alone); assignments to public attributes are accepted, ignored (values: the '
               'setter of the clean code returns without effect) or rejected by the classes - only what get_max_stockwell_freq '
               'reports afterwards is judged',
               'an swtf found on a signal object is the library\'s doing unless the caller attached it through '
               'c15.caller_attach (the driver\'s explicit presets): whatever the library memoised, carried over or assembled '
               '(combine_at_angle, interp_to_approx_dt, Cluster, deepcopy) must be the transform of the values the object has '
               'at call entry (clause asig.swtf==transform(values)) and the trace is judged against the reference of those values',
               'range of validity of the tolerances: every bound is relative to a scale computed from the record (sum|x| per '
               'cell and per row sum, N*max|x| for the inverse, relative frequency error; no absolute floor anywhere), so it '
               'holds for float64 amplitudes 1e-300..1e300 (the transform, its inverse and the trace are linear / scale free; '
               'N*N*max|x| < 1.8e308 keeps every intermediate sum finite for N <= 1024; below 1e-290 individual products go '
               'subnormal with an absolute error 5e-324, far below 1e-12*sum|x|) and for float32 records within 1e-30..1e30, '
               'multiplied by eps32/eps64; the per-cell bound is GLOBAL (relative to sum|x| of the whole record, as in '
               'DESIGN (d)): with one sample 1e3..1e12 times larger than the rest an FFT-based transform cannot be more '
               'accurate than eps*|spike| anywhere, so no local scale is demanded',
               'round 5: a 0-d array time step of reduced precision (float32) is judged like a float32 scalar (4*eps32*(N/2) '
               'relative); a numpy / Python bool step means 1.0; checklist items 29 (one- / two-sample records), 30 (degenerate '
               'secondary arguments) lie outside the quantifier (lengths 4..1024; the only secondary argument is dt): lengths 1..3 '
               'stay counted; item 33: the oracle accepts ONE convention throughout (rows Nyquist..first harmonic, conjugate, window '
               'periodised once, middle half = ceil(N/4)..floor(3N/4)-1); the column-maximum clause accepts any row that attains the '
               'maximum because the statement fixes no tie rule - degenerate (silent) records are judged by the definition clauses',
               'oracle vf/oracles/stransform.py is correct (vectorised direct sums, cross-checked in every run against the '
               'literal scalar triple loop on short records)']
MIN_EVALS = {
    'quick': {
        'transform==definition[even]': 5000, 'transform==definition[odd]': 5000,
        'transform_w_scipy_fft==definition[even]': 1900, 'transform_w_scipy_fft==definition[odd]': 1900,
        'implementations-agree[even]': 1500, 'implementations-agree[odd]': 1500,
        'shape==(n/2,n)[even]': 6900, 'shape==(n/2,n)[odd]': 6900,
        'row-sum==conj(X_n)[even]': 6900, 'row-sum==conj(X_n)[odd]': 6900,
        'linearity[even]': 180, 'linearity[odd]': 180,
        'inverse==record-mean-nyquist[even]': 3700, 'inverse==record-mean-nyquist[odd]': 3700,
        'maxfreq(asig)==f.middle-half[even]': 2400, 'maxfreq(asig)==f.middle-half[odd]': 2400,
        'maxfreq(tifq)==f.middle-half[even]': 2100, 'maxfreq(tifq)==f.middle-half[odd]': 2100,
        'maxfreq(asig).is-frequency-of-column-max[even]': 3700, 'maxfreq(asig).is-frequency-of-column-max[odd]': 3700,
        'maxfreq(tifq).is-frequency-of-column-max[even]': 5000, 'maxfreq(tifq).is-frequency-of-column-max[odd]': 5000,
        'argument-unchanged(transform)': 9000, 'argument-unchanged(transform_w_scipy_fft)': 3000,
        'argument-unchanged(itransform)': 6000, 'argument-unchanged(get_max_tifq_vals_freq)': 8500,
        'argument-unchanged(get_max_stockwell_freq)': 6500, 'argument-unchanged(sequence)': 3000,
        'maxfreq(asig)==f.after-mutation[even]': 350, 'maxfreq(asig)==f.after-mutation[odd]': 350,
        'asig.swtf==transform(values)[even]': 1100, 'asig.swtf==transform(values)[odd]': 1100,
        'object-unchanged(get_max_stockwell_freq)': 500, 'result-owns-its-data': 45000,
        'settings-unchanged(get_max_stockwell_freq)': 380,
        'dt-unchanged(get_max_tifq_vals_freq)': 800, 'dt-unchanged(get_max_stockwell_freq)': 750,
        'oracle.vectorised==scalar': 8,
        'third-call==first-call(transform)': 450, 'third-call==first-call(transform_w_scipy_fft)': 450,
        'third-call==first-call(itransform)': 950, 'third-call==first-call(get_max_tifq_vals_freq)': 950,
        'third-call==first-call(get_max_stockwell_freq)': 950,
        'refilled-argument.third==first(transform)': 100, 'refilled-argument.third==first(transform_w_scipy_fft)': 100,
        'refilled-argument.third==first(itransform)': 200, 'refilled-argument.third==first(get_max_tifq_vals_freq)': 200,
        'protocols.trace-of-own-values[copy]': 800, 'protocols.trace-of-own-values[deepcopy]': 800,
        'protocols.trace-of-own-values[pickle]': 800,
        'after-assignment.trace-of-own-values': 350, 'after-refused-operation.trace-of-own-values': 300,
    },
    'thorough': {
        'transform==definition[even]': 14000, 'transform==definition[odd]': 14000,
        'transform_w_scipy_fft==definition[even]': 4000, 'transform_w_scipy_fft==definition[odd]': 4000,
        'implementations-agree[even]': 3100, 'implementations-agree[odd]': 3100,
        'shape==(n/2,n)[even]': 18000, 'shape==(n/2,n)[odd]': 18000,
        'row-sum==conj(X_n)[even]': 18000, 'row-sum==conj(X_n)[odd]': 18000,
        'linearity[even]': 340, 'linearity[odd]': 340,
        'inverse==record-mean-nyquist[even]': 8300, 'inverse==record-mean-nyquist[odd]': 8300,
        'maxfreq(asig)==f.middle-half[even]': 7700, 'maxfreq(asig)==f.middle-half[odd]': 7700,
        'maxfreq(tifq)==f.middle-half[even]': 7100, 'maxfreq(tifq)==f.middle-half[odd]': 7100,
        'maxfreq(asig).is-frequency-of-column-max[even]': 10400, 'maxfreq(asig).is-frequency-of-column-max[odd]': 10400,
        'maxfreq(tifq).is-frequency-of-column-max[even]': 13000, 'maxfreq(tifq).is-frequency-of-column-max[odd]': 13000,
        'argument-unchanged(transform)': 25000, 'argument-unchanged(transform_w_scipy_fft)': 6400,
        'argument-unchanged(itransform)': 13600, 'argument-unchanged(get_max_tifq_vals_freq)': 23000,
        'argument-unchanged(get_max_stockwell_freq)': 19500, 'argument-unchanged(sequence)': 7700,
        'maxfreq(asig)==f.after-mutation[even]': 700, 'maxfreq(asig)==f.after-mutation[odd]': 700,
        'asig.swtf==transform(values)[even]': 2200, 'asig.swtf==transform(values)[odd]': 2200,
        'object-unchanged(get_max_stockwell_freq)': 1500, 'result-owns-its-data': 100000,
        'settings-unchanged(get_max_stockwell_freq)': 2000,
        'dt-unchanged(get_max_tifq_vals_freq)': 2100, 'dt-unchanged(get_max_stockwell_freq)': 2500,
        'oracle.vectorised==scalar': 8,
        'third-call==first-call(transform)': 900, 'third-call==first-call(transform_w_scipy_fft)': 900,
        'third-call==first-call(itransform)': 1900, 'third-call==first-call(get_max_tifq_vals_freq)': 1900,
        'third-call==first-call(get_max_stockwell_freq)': 1900,
        'refilled-argument.third==first(transform)': 300, 'refilled-argument.third==first(transform_w_scipy_fft)': 300,
        'refilled-argument.third==first(itransform)': 600, 'refilled-argument.third==first(get_max_tifq_vals_freq)': 600,
        'protocols.trace-of-own-values[copy]': 1600, 'protocols.trace-of-own-values[deepcopy]': 1600,
        'protocols.trace-of-own-values[pickle]': 1600,
        'after-assignment.trace-of-own-values': 700, 'after-refused-operation.trace-of-own-values': 600,
    },
}

CTX = None
RTOL = 1e-12           # DESIGN.md C15 (d): per cell <= 1e-12 * sum|x|; inverse <= 1e-12 * N * max|x|
RTOL_FREQ = 1e-12      # relative tolerance of a reported frequency against k/(N dt)
LEN_MIN, LEN_MAX = 4, 1024
IMPLS = ('transform', 'transform_w_scipy_fft')
AFTER = 're-judged after a second record of the same length went through the same functions: '


def n_shards(tier):
    return 16


# -------------------------------------------------------------------------------------------- provenance + caches
class _Registry(object):
    """Which record a time-frequency array came from (by object identity; the object is kept alive so the id cannot be
    reused). Least-recently-used eviction."""

    def __init__(self, cap):
        self.cap = cap
        self.d = collections.OrderedDict()

    def put(self, arr, info):
        self.d[id(arr)] = (arr, info)
        self.d.move_to_end(id(arr))
        while len(self.d) > self.cap:
            self.d.popitem(last=False)

    def get(self, arr):
        e = self.d.get(id(arr))
        if e is not None and e[0] is arr:
            self.d.move_to_end(id(arr))
            return e[1]
        return None


REG = _Registry(12)
_ORACLE_CACHE = collections.OrderedDict()     # digest(even part) -> (conj S reference, H)
_HARMONIC_CACHE = collections.OrderedDict()   # (digest(even part), rel) -> k or None


def _oracle(xe):
    key = core.digest(xe)
    hit = _ORACLE_CACHE.get(key)
    if hit is None:
        hit = O.s_transform_conj(xe)
        _ORACLE_CACHE[key] = hit
        while len(_ORACLE_CACHE) > 4:
            _ORACLE_CACHE.popitem(last=False)
    else:
        _ORACLE_CACHE.move_to_end(key)
    return hit


def _harmonic(xe, rel):
    key = (core.digest(xe), rel)
    if key not in _HARMONIC_CACHE:
        _HARMONIC_CACHE[key] = O.on_grid_harmonic(xe, rel)
        while len(_HARMONIC_CACHE) > 256:
            _HARMONIC_CACHE.popitem(last=False)
    return _HARMONIC_CACHE[key]


VALUE_PRESERVING = (None, 'F', 'readonly', 'list')      # derived forms that hold the same complex numbers


def derive(s, how):
    """A derived form of a transform result (driver and replay)."""
    if how is None:
        return s
    if how == 'abs':
        return np.abs(s)
    if how == 'abs32':
        a = np.abs(s)
        m = float(np.max(a)) if a.size else 0.0
        return a.astype(np.float32) if 1e-30 < m < 1e30 else a      # extreme scales are not representable in float32
    if how == 'abs-readonly':
        t = np.abs(s)
        t.flags.writeable = False
        return t
    if how == 'F':
        return np.asfortranarray(s)
    if how == 'readonly':
        t = np.array(s)
        t.flags.writeable = False
        return t
    if how == 'list':
        return np.asarray(s).tolist()
    raise ValueError(how)


def remember(arr, source, how):
    """Driver-side provenance: arr was derived from the monitored transform result `source`."""
    info = REG.get(source)
    if info is not None and arr is not source:
        d = dict(info)
        d['derived'] = how
        REG.put(arr, d)


# ------------------------------------------------------------------------------------------------ record intake
def _kind(acc):
    if isinstance(acc, np.ndarray):
        k = 'ndarray:%s' % acc.dtype
        if acc.ndim == 1 and len(acc) > 1:
            if acc.strides[0] < 0:
                k += ':reversed'
            elif acc.strides[0] != acc.itemsize:
                k += ':strided'
        if not acc.flags.writeable:
            k += ':readonly'
        return k
    name = type(acc).__name__
    if isinstance(acc, (list, tuple)):
        ts = set(type(v) for v in acc)
        if int in ts and float in ts:
            name += ':mixed'
    return name


def _container(rec, kind):
    """Rebuild the container a witness describes."""
    a = np.asarray(rec)
    parts = kind.split(':')
    if parts[0] in ('list', 'tuple'):
        vals = a.tolist()
        if 'mixed' in parts:
            vals = [int(v) if float(v).is_integer() else float(v) for v in vals]
        return vals if parts[0] == 'list' else tuple(vals)
    if parts[0] != 'ndarray':
        return np.array(a)
    a = np.array(a, dtype=parts[1])
    if 'strided' in parts:
        buf = np.zeros(2 * len(a), dtype=a.dtype)
        buf[::2] = a
        a = buf[::2]
    elif 'reversed' in parts:
        a = np.array(a[::-1])[::-1]
    if 'readonly' in parts:
        a.flags.writeable = False
    return a


def _intake(acc):
    """(private copy of the record as passed, container kind, reason-not-judged or None)."""
    kind = _kind(acc)
    try:
        a = np.array(acc)
    except Exception:
        return None, kind, 'unconvertible-input'
    if a.ndim != 1:
        return a, kind, 'not-1d-input'
    if a.dtype.kind == 'c':
        return a, kind, 'complex-input'
    if a.dtype.kind not in 'fiub':
        return a, kind, 'non-numeric-input'
    if len(a) < LEN_MIN or len(a) > LEN_MAX:
        return a, kind, 'length-outside-4..1024'
    if not np.all(np.isfinite(a.astype(float))):
        return a, kind, 'non-finite-input'
    return a, kind, None


def _fac(a):
    """Tolerance multiplier for reduced-precision float input."""
    if a.dtype.kind == 'f' and a.dtype.itemsize < 8:
        return float(np.finfo(a.dtype).eps / np.finfo(float).eps)
    return 1.0


def _par(n):
    return 'odd' if n % 2 else 'even'


_SEQ = []      # witness builders of the driver sequences in progress (innermost last)


def _raw_wit(fn, rec, kind, **kw):
    d = {'fn': fn, 'record': np.asarray(rec), 'container': kind}
    d.update(kw)
    return d


def _wit(fn, rec, kind, **kw):
    """Witness of a monitored call. Inside a driver sequence (one argument object / several records through several
    functions) the witness is the WHOLE sequence, because what a call returns may depend on the calls before it
    (process-wide state, shared argument objects); 'at' names the call that was being judged."""
    if _SEQ:
        d = dict(_SEQ[-1]())
        d['at'] = fn
        return d
    return _raw_wit(fn, rec, kind, **kw)


def _as_sequence(make_wit):
    def deco(f):
        def g(ctx, eqsig, *a, **k):
            _SEQ.append(make_wit(*a, **k))
            try:
                return f(ctx, eqsig, *a, **k)
            finally:
                _SEQ.pop()
        g.__name__ = f.__name__
        g.__doc__ = f.__doc__
        return g
    return deco


def _seq_linearity(impl, x, y, a, b):
    x0, y0 = np.array(x), np.array(y)
    return lambda: {'fn': 'linearity', 'impl': impl, 'record': x0, 'record2': y0, 'a': a, 'b': b, 'container': _kind(x)}


def _seq_record(cont, dt, form):
    rec, kind, dt = np.array(cont), _kind(cont), _dt_snap(dt)     # a 0-d step is mutable: the witness keeps the entry value
    return lambda: _raw_wit('record-sequence', rec, kind, dt=dt, dt_form=_dt_form(dt), form=form)


def _seq_back_to_back(cont, cont2, dt, tform=None):
    rec, kind, rec2, kind2, dt = np.array(cont), _kind(cont), np.array(cont2), _kind(cont2), _dt_snap(dt)
    return lambda: _raw_wit('back-to-back', rec, kind, record2=rec2, container2=kind2, dt=dt, dt_form=_dt_form(dt), tform=tform)


def _seq_sinusoid(cont, dts, impl, tform, settings=0):
    rec, kind = np.array(cont), _kind(cont)
    dts0 = [_dt_snap(d) for d in dts]
    return lambda: _raw_wit('sinusoid-sequence', rec, kind, dts=dts0, dt_forms=[_dt_form(d) for d in dts], impl=impl,
                            tform=tform, settings=settings)


def _seq_history(x1, x2, dt, dt2, order, muts=()):
    p1, p2, dt, dt2 = np.array(x1), np.array(x2), _dt_snap(dt), _dt_snap(dt2)
    return lambda: {'fn': 'history', 'record': p1, 'record2': p2, 'container': 'ndarray:float64', 'dt': dt,
                    'dt_form': _dt_form(dt), 'dt2': dt2, 'dt2_form': _dt_form(dt2), 'order': list(order), 'muts': list(muts)}


def _snapshot(obj):
    try:
        return np.array(obj)
    except Exception:
        return None


def _same_bits(obj, snap):
    if snap is None:
        return True
    try:
        b = np.array(obj)
    except Exception:
        return False
    return b.dtype == snap.dtype and b.shape == snap.shape and b.tobytes() == snap.tobytes()


def _first_change(obj, snap):
    try:
        b = np.array(obj)
        if b.shape != snap.shape or b.dtype != snap.dtype:
            return 'shape/dtype %s %s -> %s %s' % (snap.shape, snap.dtype, b.shape, b.dtype)
        bb = b.ravel().view(np.uint8).reshape(b.size, -1) if b.size else b
        ss = snap.ravel().view(np.uint8).reshape(snap.size, -1) if snap.size else snap
        i = int(np.argmax(np.any(bb != ss, axis=1)))
        return 'flat index %d: %r -> %r' % (i, snap.ravel()[i].item(), b.ravel()[i].item())
    except Exception as ex:   # noqa
        return 'not comparable (%r)' % (ex,)


def _dt_form(dt):
    if isinstance(dt, np.ndarray):
        return '0d:%s%s' % (dt.dtype, '' if dt.flags.writeable else ':readonly')
    if isinstance(dt, np.bool_):
        return 'bool_'
    if isinstance(dt, np.generic):
        return str(dt.dtype)
    return type(dt).__name__


def _dt_build(v, form):
    if form in ('float', None):
        return float(v)
    if form == 'int':
        return int(v)
    if form == 'bool':
        return bool(v)
    if form == 'bool_':
        return np.bool_(v)
    if form.startswith('0d:'):
        parts = form.split(':')
        a = np.array(np.asarray(v).item(), dtype=parts[1])
        if 'readonly' in parts:
            a.flags.writeable = False
        return a
    return np.dtype(form).type(v)


def _dt_snap(dt):
    """The value a scalar argument has at call entry: a 0-d array is MUTABLE (`dt /= k` inside a function changes the
    caller's step), so it is copied like any other array argument; immutable scalars are their own snapshot."""
    return np.array(dt) if isinstance(dt, np.ndarray) else dt


def _fresh(dt):
    """A private copy of a 0-d step for ONE driver sequence (the driver's own object never reaches the library, so every
    sequence starts from the drawn value and its witness is self-contained)."""
    if isinstance(dt, np.ndarray):
        a = np.array(dt)
        a.flags.writeable = dt.flags.writeable
        return a
    return dt


def _dt_unchanged(ctx, fn, dt, snap, wit):
    """Round 5 (item 28): a scalar argument handed over as a 0-d array is the caller's: bit-for-bit unchanged afterwards."""
    if isinstance(snap, np.ndarray):
        ctx.check(isinstance(dt, np.ndarray) and _same_bits(dt, snap), 'dt-unchanged(%s)' % fn, wit,
                  '%s changed the time step the caller passed as a 0-d array: %r -> %r' % (fn, snap, dt))


def scalar_form(rng, j):
    """A time step in one of the scalar forms of audit item 28 (j cycles through them)."""
    j = j % 12
    v = gen.dt(rng)
    if j == 0:
        return int(rng.integers(1, 4))
    if j == 1:
        return np.float64(v)
    if j == 2:
        return np.float32(v)
    if j == 3:
        return np.array(v)                               # 0-d float64, mutable
    if j == 4:
        return np.int64(rng.integers(1, 4))
    if j == 5:
        return np.array(v, dtype=np.float32)             # 0-d float32
    if j == 6:
        return np.int32(rng.integers(1, 4))
    if j == 7:
        return np.array(int(rng.integers(1, 4)))         # 0-d int64
    if j == 8:
        return np.True_                                  # a step of one second, as a numpy bool
    if j == 9:
        a = np.array(float(10.0 ** rng.uniform(-9, 3)))  # 0-d, read-only: a function that scales it in place raises
        a.flags.writeable = False
        return a
    if j == 10:
        return np.array(1.0 / int(rng.integers(2, 1001)))
    return True                                          # Python bool


# ------------------------------------------------------------------------------------------------------ monitors
def check_transform(ctx, impl, rec, kind, result, wit=None, tag=''):
    """Post-condition of one execution of `impl` on the (call-entry copy of the) record."""
    n = len(rec)
    par = _par(n)
    n_pts = 2 * (n // 2)
    xe = O.even_part(rec)
    scale = float(np.sum(np.abs(xe)))
    fac = _fac(rec)
    if wit is None:
        wit = lambda: _wit(impl, rec, kind)   # noqa
    res = np.asarray(result)
    shape_ok = res.ndim == 2 and res.shape == (n_pts // 2, n_pts) and res.dtype.kind == 'c'
    ctx.check(shape_ok, 'shape==(n/2,n)[%s]' % par, wit,
              '%s%s(record of length %d) returned %s array of shape %s, expected complex (%d, %d)'
              % (tag, impl, n, res.dtype, res.shape, n_pts // 2, n_pts))
    if not shape_ok:
        return False
    ref, h = _oracle(xe)
    ok, idx, e, a = tol.worst(res, ref, scale=scale, rtol=RTOL * fac)
    ctx.check(ok, '%s==definition[%s]' % (impl, par), wit,
              '%s%s(len %d, %s): cell %s (voice n=%s, time j=%s) is %r, conj of the defining sum is %r; |diff|=%.3g allowed %.3g'
              % (tag, impl, n, kind, idx, (n_pts // 2 - idx[0]) if idx else None, idx[1] if idx else None,
                 complex(res[idx]) if idx else None, complex(ref[idx]) if idx else None, e, a))
    rows = res.sum(axis=1)
    mg = O.marginal(h)
    ok2, idx2, e2, a2 = tol.worst(rows, mg, scale=n_pts * scale, rtol=RTOL * fac)
    ctx.check(ok2, 'row-sum==conj(X_n)[%s]' % par, wit,
              '%s%s(len %d, %s): sum over time of row %s (voice n=%s) is %r, conj Fourier coefficient is %r; |diff|=%.3g '
              'allowed %.3g' % (tag, impl, n, kind, idx2, (n_pts // 2 - idx2[0]) if idx2 else None,
                                complex(rows[idx2]) if idx2 else None, complex(mg[idx2]) if idx2 else None, e2, a2))
    return True


def check_inverse(ctx, rec, kind, impl, derived, result, wit=None, tag=''):
    n = len(rec)
    par = _par(n)
    n_pts = 2 * (n // 2)
    target = O.inverse_target(rec)
    peak = float(np.max(np.abs(O.even_part(rec))))
    if wit is None:
        wit = lambda: _wit('itransform', rec, kind, impl=impl, derived=derived)   # noqa
    res = np.asarray(result)
    ok = res.shape == (n_pts,) and res.dtype.kind == 'f'
    e = a = float('nan')
    idx = None
    if ok:
        ok, idx, e, a = tol.worst(res, target, scale=n_pts * peak, rtol=RTOL * _fac(rec))
    ctx.check(ok, 'inverse==record-mean-nyquist[%s]' % par, wit,
              '%sitransform(%s(record of length %d, %s)%s) has shape %s dtype %s; worst sample %s |diff|=%.3g allowed %.3g '
              '(target = record - mean - Nyquist component)'
              % (tag, impl, n, kind, (' as ' + derived) if derived else '', res.shape, res.dtype, idx, e, a))


def check_maxfreq(ctx, via, rec, kind, dt, amp, result, wit, tag='', amp_is_reference=False):
    """amp: modulus array the trace must be the column-argmax frequency of (the array passed for tifq; the reference
    transform of the call-entry values for asig, then with a rounding allowance on ties)."""
    n = len(rec)
    par = _par(n)
    n_pts = 2 * (n // 2)
    try:
        dtf = float(dt)
    except Exception:
        dtf = float('nan')
    if not (dtf > 0 and math.isfinite(dtf)):
        ctx.observe('maxfreq(%s):dt-not-positive-finite' % via)
        return
    low_dt = isinstance(dt, (np.floating, np.ndarray)) and dt.dtype.kind == 'f' and dt.dtype.itemsize < 8
    # a reduced-precision time step: the frequency axis may be formed in the precision of dt (n steps of rounding)
    low_tol = 4.0 * float(np.finfo(dt.dtype).eps) * max(1, n_pts // 2) if low_dt else 0.0
    grid_tol = low_tol if low_dt else 1e-9
    freq_rtol = low_tol if low_dt else RTOL_FREQ
    res = np.asarray(result)
    # (1) every entry is the grid frequency n/(N dt), n in 1..N/2, of a row that attains the column maximum
    ok = res.shape == (n_pts,) and res.dtype.kind in 'fiu' and bool(np.all(np.isfinite(res)))
    why = 'shape %s dtype %s' % (res.shape, res.dtype)
    if ok:
        nn = res.astype(float) * n_pts * dtf
        r = np.rint(nn)
        on_grid = (np.abs(nn - r) <= grid_tol * np.maximum(1.0, np.abs(r))) & (r >= 1) & (r <= n_pts // 2)
        if not np.all(on_grid):
            j = int(np.argmin(on_grid))
            ok = False
            why = 'entry %d = %r is not a grid frequency n/(N dt), n in 1..%d (N=%d, dt=%r; n would be %r)' \
                  % (j, float(res[j]), n_pts // 2, n_pts, dt, float(nn[j]))
        elif amp.shape != (n_pts // 2, n_pts):
            ok = False
            why = 'time-frequency array of shape %s' % (amp.shape,)
        else:
            rows = (n_pts // 2 - r).astype(int)
            cols = np.arange(n_pts)
            picked = amp[rows, cols].astype(float)
            colmax = amp.max(axis=0).astype(float)
            slack = colmax * 1e-12
            if amp_is_reference:
                slack = colmax * 1e-9 + 4 * RTOL * _fac(rec) * float(np.sum(np.abs(O.even_part(rec))))
            good = picked >= colmax - slack
            if not np.all(good):
                j = int(np.argmin(good))
                ok = False
                why = ('entry %d = %r is the frequency of voice n=%d whose modulus %.6g is below the column maximum %.6g '
                       '(voice n=%d)' % (j, float(res[j]), int(r[j]), float(picked[j]), float(colmax[j]),
                                         n_pts // 2 - int(np.argmax(amp[:, j]))))
    ctx.check(ok, 'maxfreq(%s).is-frequency-of-column-max[%s]' % (via, par), wit,
              '%sdominant-frequency trace (record length %d, %s, dt=%r): %s' % (tag, n, kind, dt, why))
    # (2) on-grid sinusoid inside [2nd harmonic, 3/4 Nyquist]: trace == k/(N dt) on the middle half
    k = _harmonic(O.even_part(rec), 1e-6 if _fac(rec) > 1 else 1e-9)
    lo, hi = O.harmonic_range(n_pts)
    if k is None or not (lo <= k <= hi):
        ctx.observe('maxfreq(%s):record-not-an-in-range-on-grid-sinusoid' % via)
        return
    f = k / (n_pts * dtf)
    a, b = -(-n_pts // 4), (3 * n_pts) // 4
    ok = res.shape == (n_pts,) and res.dtype.kind in 'fiu'
    why = 'shape %s' % (res.shape,)
    if ok:
        mid = res[a:b].astype(float)
        with np.errstate(invalid='ignore'):
            bad = ~(np.abs(mid - f) <= freq_rtol * f)
        if np.any(bad):
            j = int(np.argmax(bad))
            ok = False
            why = 'sample %d reports %r (%d of %d middle-half samples differ)' % (a + j, float(mid[j]), int(bad.sum()), b - a)
    ctx.check(ok, 'maxfreq(%s)==f.middle-half[%s]' % (via, par), wit,
              '%ssinusoid at harmonic k=%d of N=%d (record length %d, %s, peak %.3g), dt=%r, f=k/(N dt)=%r: %s'
              % (tag, k, n_pts, n, kind, float(np.max(np.abs(O.even_part(rec)))), dt, f, why))


def _owns(ctx, fn, result, others, wit):
    """A returned array must not share memory with an argument (in-place work on the result would corrupt it)."""
    shared = False
    if isinstance(result, np.ndarray):
        for o in others:
            if isinstance(o, np.ndarray) and np.may_share_memory(result, o):
                shared = True
    ctx.check(not shared, 'result-owns-its-data', wit, 'the array returned by %s shares memory with one of its arguments' % fn)


def _pre_transform(args, kwargs):
    acc = args[0] if args else kwargs.get('acc')
    interp = args[1] if len(args) > 1 else kwargs.get('interp', False)
    rec, kind, skip = _intake(acc)
    return rec, kind, skip, interp, sorted(kwargs)


def _post_transform_factory(impl):
    def post(args, kwargs, result, pre):
        ctx = CTX
        rec, kind, skip, interp, kw = pre
        acc = args[0] if args else kwargs.get('acc')
        if rec is not None:
            ctx.check(_same_bits(acc, rec), 'argument-unchanged(%s)' % impl, lambda: _wit(impl, rec, kind, kw=kw),
                      '%s modified its record argument (%s, length %d): %s' % (impl, kind, rec.size, _first_change(acc, rec)))
            _owns(ctx, impl, result, [acc], lambda: _wit(impl, rec, kind, kw=kw))
        if skip:
            ctx.observe('%s:%s' % (impl, skip))
            return
        if interp:
            ctx.observe('%s:interp-option-outside-statement' % impl)
            return
        if not check_transform(ctx, impl, rec, kind, result, lambda: _wit(impl, rec, kind, kw=kw)):
            return
        REG.put(result, {'record': rec, 'kind': kind, 'impl': impl, 'derived': None})
        if impl == 'transform_w_scipy_fft':
            import eqsig
            par = _par(len(rec))
            try:
                with attach.paused():
                    other = eqsig.stockwell.transform(_container(rec, kind))
            except Exception as ex:
                ctx.exception('implementations-agree[%s]' % par, _wit('transform', rec, kind), ex)
                return
            scale = float(np.sum(np.abs(O.even_part(rec))))
            ok, idx, e, a = tol.worst(np.asarray(result), np.asarray(other), scale=scale, rtol=RTOL * _fac(rec))
            ctx.check(ok, 'implementations-agree[%s]' % par, lambda: _wit(impl, rec, kind, kw=kw),
                      'transform and transform_w_scipy_fft differ on a record of length %d (%s): cell %s |diff|=%.3g allowed %.3g'
                      % (len(rec), kind, idx, e, a))
    return post


def _pre_itransform(args, kwargs):
    stock = args[0] if args else kwargs.get('stock')
    return _snapshot(stock)


def _post_itransform(args, kwargs, result, snap):
    ctx = CTX
    stock = args[0] if args else kwargs.get('stock')
    info = REG.get(stock)
    if info is not None:
        ctx.check(_same_bits(stock, snap), 'argument-unchanged(itransform)',
                  lambda: _wit('itransform', info['record'], info['kind'], impl=info['impl'], derived=info.get('derived')),
                  'itransform modified its argument: %s' % _first_change(stock, snap))
        _owns(ctx, 'itransform', result, [stock],
              lambda: _wit('itransform', info['record'], info['kind'], impl=info['impl'], derived=info.get('derived')))
    if info is None or info.get('derived') not in VALUE_PRESERVING:
        ctx.observe('itransform:input-not-a-monitored-transform')
        return
    check_inverse(ctx, info['record'], info['kind'], info['impl'], info.get('derived'), result)


_SEEN = weakref.WeakKeyDictionary()        # signal -> (swtf attached after its last monitored call, digest of its values then)
_AFTER_MUT = weakref.WeakKeyDictionary()   # signal -> swtf still attached right after its last reset_values (None: dropped)


_CALLER = _Registry(64)      # swtf arrays the CALLER (the driver) attached explicitly


def caller_attach(asig, arr):
    """The caller's explicit choice of a time-frequency array for a signal object (honoured by the monitor). Every swtf
    found on an object that did not come through here was put there by the library and must be transform(values)."""
    _CALLER.put(arr, True)
    asig.swtf = arr


def _post_reset_values(args, kwargs, result, pre):
    """Every public mutator of Signal/AccSignal ends in reset_values: remember which swtf (if any) survived it."""
    try:
        _AFTER_MUT[args[0]] = getattr(args[0], 'swtf', None)
    except TypeError:
        pass


def _mutation_state(asig, had, swtf_obj, dig):
    """'none'         no change of values since the swtf in use was attached / since the last monitored call
       'dropped'      values changed and no swtf is attached (the library recomputes)
       'survivor'     values changed and the swtf attached BEFORE the change is still there
       'caller-after' values changed and a different swtf object was attached afterwards (the caller's explicit choice)"""
    try:
        if asig in _AFTER_MUT:
            surv = _AFTER_MUT[asig]
            return 'dropped' if not had else ('survivor' if swtf_obj is surv else 'caller-after')
        if asig in _SEEN:
            seen_swtf, seen_dig = _SEEN[asig]
            if seen_dig != dig:     # values changed without reset_values
                return 'dropped' if not had else ('survivor' if swtf_obj is seen_swtf else 'caller-after')
    except TypeError:
        pass
    return 'none'


def _pre_maxfreq_asig(args, kwargs):
    asig = args[0] if args else kwargs.get('asig')
    had = hasattr(asig, 'swtf')
    vals0 = _snapshot(getattr(asig, 'values', None))
    swtf_obj = asig.swtf if had else None
    dig = core.digest(vals0) if vals0 is not None else None
    return had, vals0, (_snapshot(swtf_obj) if had else None), _kind(getattr(asig, 'values', None)), swtf_obj, dig, \
        _mutation_state(asig, had, swtf_obj, dig), _dt_snap(getattr(asig, 'dt', None))


def _post_maxfreq_asig(args, kwargs, result, pre):
    ctx = CTX
    had_swtf, vals0, swtf0, vkind, swtf_obj, dig, state, dt = pre     # dt: the object's step at call entry
    asig = args[0] if args else kwargs.get('asig')
    try:
        _AFTER_MUT.pop(asig, None)
        _SEEN[asig] = (getattr(asig, 'swtf', None), dig)
    except TypeError:
        pass
    if vals0 is None:
        ctx.observe('maxfreq(asig):unconvertible-input')
        return
    wit = lambda: _wit('get_max_stockwell_freq', vals0, vkind, dt=dt, dt_form=_dt_form(dt), preset_swtf=bool(had_swtf))  # noqa
    pure = _same_bits(asig.values, vals0) and (not had_swtf or _same_bits(asig.swtf, swtf0))
    ctx.check(pure, 'argument-unchanged(get_max_stockwell_freq)', wit,
              'get_max_stockwell_freq modified the values or the attached swtf of its signal object: %s'
              % (_first_change(asig.values, vals0) if not _same_bits(asig.values, vals0) else 'swtf changed'))
    _owns(ctx, 'get_max_stockwell_freq', result, [asig.values, getattr(asig, 'swtf', None), asig.dt], wit)
    _dt_unchanged(ctx, 'get_max_stockwell_freq', asig.dt, dt, wit)
    rec, kind, skip = _intake(vals0)
    if skip:
        ctx.observe('maxfreq(asig):%s' % skip)
        return
    # the object's cache is never the yardstick: judge against the reference transform of the call-entry values
    ref, _ = _oracle(O.even_part(rec))
    if state in ('survivor', 'dropped'):
        # first call after the object's values changed (reset_values / add_constant / butter_pass / any mutator) with no
        # swtf assigned by the caller since: the trace must be that of the CURRENT record
        probe = core.Ctx(PROP_ID, ctx.tier, 0, 0, 1)
        check_maxfreq(probe, 'asig', rec, kind, dt, np.abs(ref), result, wit, amp_is_reference=True)
        ctx.check(not probe.violations, 'maxfreq(asig)==f.after-mutation[%s]' % _par(len(rec)), wit,
                  'after the values of the signal object changed (%s) get_max_stockwell_freq does not report the trace of the '
                  'current record: %s' % ('the swtf memoised for the OLD values is still attached' if state == 'survivor'
                                          else 'no swtf attached', probe.violations[0]['msg'] if probe.violations else ''))
        if state == 'survivor':
            return
    if had_swtf:
        info = REG.get(swtf_obj)         # the object attached at call entry
        current = info is not None and info.get('derived') in VALUE_PRESERVING and \
            core.digest(O.even_part(info['record'])) == core.digest(O.even_part(rec))
        if _CALLER.get(swtf_obj) is not None:
            if not current:
                # an swtf the caller attached explicitly (at construction time or after the last mutation) that is not a
                # monitored transform of the current values: the caller's choice is honoured -> counted, not judged
                ctx.observe('maxfreq(asig):caller-preset-swtf-not-the-transform-of-current-values')
                return
        else:
            # put there by the library (memoised by a stockwell function, carried over or built by a function that makes a
            # new signal object from old ones, copied by deepcopy): it must be the transform of the values the object has
            carried = np.asarray(swtf0)
            okc = carried.shape == ref.shape and carried.dtype.kind == 'c'
            e = a = float('nan')
            idx = None
            if okc:
                okc, idx, e, a = tol.worst(carried, ref, scale=float(np.sum(np.abs(O.even_part(rec)))), rtol=RTOL * _fac(rec))
            ctx.check(okc, 'asig.swtf==transform(values)[%s]' % _par(len(rec)), wit,
                      'the swtf carried by the signal object (shape %s; %s) is not the Stockwell transform of its values '
                      '(length %d): cell %s |diff|=%.3g allowed %.3g'
                      % (carried.shape, 'a monitored transform result' if info is not None else 'not returned by transform: '
                         'assembled by the library', len(rec), idx, e, a))
    check_maxfreq(ctx, 'asig', rec, kind, dt, np.abs(ref), result, wit, amp_is_reference=True)


def _pre_maxfreq_tifq(args, kwargs):
    tifq = args[0] if args else kwargs.get('tifq_values')
    dt = args[1] if len(args) > 1 else kwargs.get('dt')
    return _snapshot(tifq), _dt_snap(dt)


def _post_maxfreq_tifq(args, kwargs, result, pre):
    ctx = CTX
    snap, dt = pre               # dt: the value the step had at call entry (a 0-d array is mutable)
    tifq = args[0] if args else kwargs.get('tifq_values')
    dt_now = args[1] if len(args) > 1 else kwargs.get('dt')
    info = REG.get(tifq)
    if info is None:
        ctx.observe('maxfreq(tifq):input-of-unknown-provenance')
        return
    rec, kind = info['record'], info['kind']
    wit = lambda: _wit('get_max_tifq_vals_freq', rec, kind, dt=dt, dt_form=_dt_form(dt), impl=info['impl'],  # noqa
                       derived=info.get('derived'))
    ctx.check(_same_bits(tifq, snap), 'argument-unchanged(get_max_tifq_vals_freq)', wit,
              'get_max_tifq_vals_freq modified its time-frequency argument: %s' % _first_change(tifq, snap))
    _owns(ctx, 'get_max_tifq_vals_freq', result, [tifq, dt_now], wit)
    _dt_unchanged(ctx, 'get_max_tifq_vals_freq', dt_now, dt, wit)
    check_maxfreq(ctx, 'tifq', rec, kind, dt, np.abs(np.asarray(snap)), result, wit)


def install(ctx):
    """Attach the C15 monitors to the imported eqsig (idempotent per process)."""
    global CTX
    CTX = ctx
    import eqsig
    sw = eqsig.stockwell
    if getattr(sw.transform, '__vf_c15__', False):
        return
    for impl in IMPLS:
        w = attach.wrap(sw, impl, _post_transform_factory(impl), pre=_pre_transform)
        w.__vf_c15__ = True
    attach.wrap(sw, 'itransform', _post_itransform, pre=_pre_itransform)
    attach.wrap(sw, 'get_max_stockwell_freq', _post_maxfreq_asig, pre=_pre_maxfreq_asig)
    attach.wrap(sw, 'get_max_tifq_vals_freq', _post_maxfreq_tifq, pre=_pre_maxfreq_tifq)
    attach.wrap_method(eqsig.Signal, 'reset_values', _post_reset_values)


# ------------------------------------------------------------------------------------------------------ driver
def _call(ctx, clause, wit, fn, *a, **kw):
    """Call a real function; an exception on in-domain input is a violation of `clause`."""
    try:
        return fn(*a, **kw)
    except Exception as ex:   # noqa
        ctx.exception(clause, wit() if callable(wit) else wit, ex)
        return None


def _transform_form(f, cont, form):
    """The same call in its positional / keyword spellings."""
    if form == 0:
        return f(cont)
    if form == 1:
        return f(acc=cont)
    if form == 2:
        return f(cont, False)
    if form == 3:
        return f(cont, interp=False)
    # round 5 (item 28): the flag at its default value in the forms a caller's own arithmetic produces (`flag is False` and
    # `flag == False` on a 0-d array behave differently from plain truth testing)
    if form == 4:
        return f(cont, np.False_)
    if form == 5:
        return f(cont, interp=np.array(False))
    if form == 6:
        return f(cont, 0)
    return f(acc=cont, interp=np.bool_(False))


def _purity(ctx, obj, pristine, wit, what):
    ctx.check(_same_bits(obj, pristine), 'argument-unchanged(sequence)', wit,
              '%s changed over the call sequence: %s' % (what, _first_change(obj, pristine)))


@_as_sequence(_seq_linearity)
def drive_linearity(ctx, eqsig, impl, x, y, a, b):
    """T(a x + b y) == a T(x) + b T(y), all three through the monitored function."""
    sw = eqsig.stockwell
    f = getattr(sw, impl)
    par = _par(len(x))
    clause = 'linearity[%s]' % par
    wit = lambda: {'fn': 'linearity', 'impl': impl, 'record': np.asarray(x), 'record2': np.asarray(y), 'a': a, 'b': b,  # noqa
                   'container': _kind(x)}
    z = a * x + b * y
    sx = _call(ctx, clause, wit, f, x.copy())
    sy = _call(ctx, clause, wit, f, y.copy())
    sz = _call(ctx, clause, wit, f, z.copy())
    if sx is None or sy is None or sz is None:
        return
    scale = abs(a) * float(np.sum(np.abs(O.even_part(x)))) + abs(b) * float(np.sum(np.abs(O.even_part(y))))
    ok, idx, e, al = tol.worst(np.asarray(sz), a * np.asarray(sx) + b * np.asarray(sy), scale=scale, rtol=RTOL)
    ctx.check(ok, clause, wit, '%s(a x + b y) != a %s(x) + b %s(y) for a=%r b=%r, length %d: cell %s |diff|=%.3g allowed %.3g'
              % (impl, impl, impl, a, b, len(x), idx, e, al))


STOCK_FORMS = (None, 'F', 'readonly', 'list')
TIFQ_FORMS = (None, 'abs', 'abs32', 'abs-readonly', 'F', 'readonly')


@_as_sequence(_seq_record)
def drive_record(ctx, eqsig, cont, dt, form):
    """ONE argument object through both implementations (call spellings rotate with `form`), the inverse of one result,
    the dominant-frequency helper on the other, each in a rotating derived form; the object is compared bit-for-bit with its
    state before the first call at the end."""
    sw = eqsig.stockwell
    kind = _kind(cont)
    rec = np.array(cont)
    par = _par(len(rec))
    s1 = _call(ctx, 'transform==definition[%s]' % par, lambda: _wit('transform', rec, kind), _transform_form, sw.transform,
               cont, form % 4)
    s2 = _call(ctx, 'transform_w_scipy_fft==definition[%s]' % par, lambda: _wit('transform_w_scipy_fft', rec, kind),
               _transform_form, sw.transform_w_scipy_fft, cont, (form // 4) % 8)
    s3 = _call(ctx, 'transform==definition[%s]' % par, lambda: _wit('transform', rec, kind), _transform_form,
               sw.transform, cont, 4 + (form // 3) % 4)
    if s3 is not None:      # third call on the same object: judged against the values the argument had BEFORE the first call
        check_transform(ctx, 'transform', rec, kind, s3, lambda: _wit('record-sequence', rec, kind, dt=dt, form=form),
                        'third call on one argument object, judged against its values before the first call: ')
    _purity(ctx, cont, rec, lambda: _wit('record-sequence', rec, kind, dt=dt, form=form), 'the record argument (%s)' % kind)
    inv_impl = IMPLS[form % 2]
    s, other = (s1, s2) if inv_impl == 'transform' else (s2, s1)
    if s is not None:
        how = STOCK_FORMS[(form // 2) % len(STOCK_FORMS)]
        t = derive(s, how)
        remember(t, s, how)
        wit = lambda: _wit('itransform', rec, kind, impl=inv_impl, derived=how)   # noqa
        if (form // 8) % 2:
            _call(ctx, 'inverse==record-mean-nyquist[%s]' % par, wit, sw.itransform, stock=t)
        else:
            _call(ctx, 'inverse==record-mean-nyquist[%s]' % par, wit, sw.itransform, t)
    if other is None:
        other = s3
    if other is not None:
        how = TIFQ_FORMS[(form // 3) % len(TIFQ_FORMS)]
        t = derive(other, how)
        remember(t, other, how)
        wit = lambda: _wit('get_max_tifq_vals_freq', rec, kind, dt=dt, dt_form=_dt_form(dt),   # noqa
                           impl=IMPLS[1] if other is s2 else IMPLS[0], derived=how)
        if (form // 5) % 2:
            mf = _call(ctx, 'maxfreq(tifq).is-frequency-of-column-max[%s]' % par, wit, sw.get_max_tifq_vals_freq, tifq_values=t, dt=dt)
        else:
            mf = _call(ctx, 'maxfreq(tifq).is-frequency-of-column-max[%s]' % par, wit, sw.get_max_tifq_vals_freq, t, dt)
        # round 5 (item 32): a result belongs to the caller - the trace is overwritten, then the same call is made again
        if isinstance(mf, np.ndarray) and mf.flags.writeable:
            mf[...] = -7.0
            _call(ctx, 'maxfreq(tifq).is-frequency-of-column-max[%s]' % par, wit, sw.get_max_tifq_vals_freq, t, dt)
    if form % 2:
        # ... and so do the transforms: every array handed out so far is overwritten, then both are asked for again
        for arr in (s1, s2, s3):
            if isinstance(arr, np.ndarray) and arr.flags.writeable:
                arr[...] = 1e300 + 1e300j
        for impl in IMPLS:
            s4 = _call(ctx, '%s==definition[%s]' % (impl, par), lambda: _wit(impl, rec, kind), getattr(sw, impl), cont)
            if s4 is not None and impl == inv_impl:
                inv = _call(ctx, 'inverse==record-mean-nyquist[%s]' % par, lambda: _wit('itransform', rec, kind, impl=impl),
                            sw.itransform, s4)
                if isinstance(inv, np.ndarray) and inv.flags.writeable:
                    inv[...] = 1e300
                    _call(ctx, 'inverse==record-mean-nyquist[%s]' % par, lambda: _wit('itransform', rec, kind, impl=impl),
                          sw.itransform, s4)


@_as_sequence(_seq_back_to_back)
def drive_back_to_back(ctx, eqsig, cont, cont2, dt, tform=None):
    """Process-wide state: the record `cont` goes through every function, then a second record of the same length does,
    while the first results are still held; then every FIRST result is judged again by the same clauses, and the first
    transform is used once more (online monitors)."""
    sw = eqsig.stockwell
    kind = _kind(cont)
    rec = np.array(cont)
    rec2 = np.array(cont2)
    par = _par(len(rec))
    wit = lambda: _wit('back-to-back', rec, kind, record2=rec2, container2=_kind(cont2), dt=dt, dt_form=_dt_form(dt),  # noqa
                       tform=tform)
    for impl in IMPLS:
        f = getattr(sw, impl)
        clause = '%s==definition[%s]' % (impl, par)
        s1 = _call(ctx, clause, wit, f, cont)
        if s1 is None:
            continue
        inv1 = _call(ctx, 'inverse==record-mean-nyquist[%s]' % par, wit, sw.itransform, s1)
        t1 = derive(s1, tform)
        remember(t1, s1, tform)
        mf1 = _call(ctx, 'maxfreq(tifq)==f.middle-half[%s]' % par, wit, sw.get_max_tifq_vals_freq, t1, dt)
        t1_bits = _snapshot(t1)
        # -- the second record, same shape, same functions
        s2 = _call(ctx, clause, wit, f, cont2)
        if s2 is not None:
            _call(ctx, 'inverse==record-mean-nyquist[%s]' % par, wit, sw.itransform, s2)
            t2 = derive(s2, tform)
            remember(t2, s2, tform)
            _call(ctx, 'maxfreq(tifq)==f.middle-half[%s]' % par, wit, sw.get_max_tifq_vals_freq, t2, dt)
        # -- the FIRST results again
        check_transform(ctx, impl, rec, kind, s1, wit, AFTER)
        if inv1 is not None:
            check_inverse(ctx, rec, kind, impl, None, inv1, wit, AFTER)
        if mf1 is not None:
            check_maxfreq(ctx, 'tifq', rec, kind, dt, np.abs(np.asarray(t1_bits)), mf1, wit, AFTER)
        _call(ctx, 'inverse==record-mean-nyquist[%s]' % par, wit, sw.itransform, s1)
        _call(ctx, 'maxfreq(tifq)==f.middle-half[%s]' % par, wit, sw.get_max_tifq_vals_freq, s1, dt)
    # -- the same through signal objects
    try:
        a1 = eqsig.AccSignal(cont, dt)
        m1 = sw.get_max_stockwell_freq(a1)
        a2 = eqsig.AccSignal(cont2, dt)
        sw.get_max_stockwell_freq(a2)
        v1, k1, skip = _intake(a1.values)
        if not skip:
            ref, _ = _oracle(O.even_part(v1))
            check_maxfreq(ctx, 'asig', v1, k1, dt, np.abs(ref), m1, wit, AFTER, amp_is_reference=True)
        sw.get_max_stockwell_freq(a1)            # cached swtf, judged online against the reference
    except Exception as ex:   # noqa
        ctx.exception('maxfreq(asig)==f.middle-half[%s]' % par, wit(), ex)
    _purity(ctx, cont, rec, wit, 'the first record (%s)' % kind)
    _purity(ctx, cont2, rec2, wit, 'the second record')


@_as_sequence(_seq_sinusoid)
def drive_sinusoid(ctx, eqsig, cont, dts, impl, tform, settings=0):
    """One sinusoid record (one argument object) through transform, inverse, get_max_stockwell_freq(AccSignal) and
    get_max_tifq_vals_freq for every dt (each dt object first to the constructor, then to the array-level helper: a 0-d
    array must still hold the caller's value at the end)."""
    sw = eqsig.stockwell
    kind = _kind(cont)
    rec = np.array(cont)
    dts0 = [_dt_snap(d) for d in dts]
    par = _par(len(rec))
    first = _call(ctx, '%s==definition[%s]' % (impl, par), lambda: _wit(impl, rec, kind), getattr(sw, impl), cont)
    if isinstance(first, np.ndarray):
        first[...] = 0                 # the caller owns what was returned: clobber it, then ask again
    s = _call(ctx, '%s==definition[%s]' % (impl, par), lambda: _wit(impl, rec, kind), getattr(sw, impl), cont)
    t = None
    if s is not None:
        inv = _call(ctx, 'inverse==record-mean-nyquist[%s]' % par, lambda: _wit('itransform', rec, kind, impl=impl), sw.itransform, s)
        if isinstance(inv, np.ndarray) and inv.flags.writeable:
            inv[...] = 0
        _call(ctx, 'inverse==record-mean-nyquist[%s]' % par, lambda: _wit('itransform', rec, kind, impl=impl), sw.itransform, s)
    try:
        drive_object_purity(ctx, eqsig, cont, dts[0], _SEQ[-1], settings)
    except Exception as ex:   # noqa
        ctx.exception('object-unchanged(get_max_stockwell_freq)', _SEQ[-1](), ex)
    if s is not None:
        t = derive(s, tform)
        remember(t, s, tform)
    for i, dt in enumerate(dts):
        wit = lambda: _wit('get_max_stockwell_freq', rec, kind, dt=dt, dt_form=_dt_form(dt), preset_swtf=False)  # noqa
        try:
            asig = eqsig.AccSignal(cont, dt)
            if i % 2:
                sw.get_max_stockwell_freq(asig=asig)
            else:
                sw.get_max_stockwell_freq(asig)
        except Exception as ex:
            ctx.exception('maxfreq(asig)==f.middle-half[%s]' % par, wit(), ex)
        if t is not None:
            wit2 = lambda: _wit('get_max_tifq_vals_freq', rec, kind, dt=dt, dt_form=_dt_form(dt), impl=impl, derived=tform)  # noqa
            if i % 3 == 2:
                mf = _call(ctx, 'maxfreq(tifq)==f.middle-half[%s]' % par, wit2, sw.get_max_tifq_vals_freq, tifq_values=t, dt=dt)
            else:
                mf = _call(ctx, 'maxfreq(tifq)==f.middle-half[%s]' % par, wit2, sw.get_max_tifq_vals_freq, t, dt)
            if i == 0 and isinstance(mf, np.ndarray) and mf.flags.writeable:
                mf[...] = 0.0              # (item 32) the caller owns the trace: overwrite it, ask again
                _call(ctx, 'maxfreq(tifq)==f.middle-half[%s]' % par, wit2, sw.get_max_tifq_vals_freq, t, dt)
    _purity(ctx, cont, rec, _SEQ[-1], 'the sinusoid record (%s)' % kind)
    for d, d0 in zip(dts, dts0):
        if isinstance(d0, np.ndarray):
            _purity(ctx, d, d0, _SEQ[-1], 'the time step passed as a 0-d array (%s)' % _dt_form(d0))


MUTATORS = ('add_constant', 'add_series', 'remove_average', 'remove_poly', 'butter_pass', 'running_average', 'reset_same',
            'reset_shorter', 'butter_lowpass_at_nyquist', 'butter_highpass_near_zero', 'butter_band_edges', 'reset_list',
            'reset_tuple')


def _mutate(a, name, x1, dt):
    if name == 'add_constant':
        a.add_constant(0.37 * float(np.max(np.abs(a.values)) or 1.0))
    elif name == 'add_series':
        a.add_series(x1[:a.npts] if a.npts <= len(x1) else np.resize(x1, a.npts))
    elif name == 'remove_average':
        a.remove_average()
    elif name == 'remove_poly':
        a.remove_poly(1)
    elif name == 'butter_pass':
        fny = 0.5 / float(dt)
        a.butter_pass((0.1 * fny, 0.8 * fny))
    elif name == 'running_average':
        a.running_average(3)
    elif name == 'reset_same':
        a.reset_values(np.array(a.values))
    elif name == 'reset_shorter':
        a.reset_values(np.array(a.values[:a.npts - 3]))
    elif name == 'butter_lowpass_at_nyquist':      # corner within 1 % of the Nyquist frequency
        a.butter_pass((None, 0.995 * 0.5 / float(dt)))
    elif name == 'butter_highpass_near_zero':      # corner below 1e-3 of the Nyquist frequency
        a.butter_pass((5e-4 * 0.5 / float(dt), None))
    elif name == 'butter_band_edges':
        a.butter_pass((8e-4 * 0.5 / float(dt), 0.992 * 0.5 / float(dt)), filter_order=2)
    elif name == 'reset_list':                     # the container forms the constructor accepts
        a.reset_values([float(v) for v in a.values[::-1]])
    elif name == 'reset_tuple':
        a.reset_values(tuple(float(v) for v in -a.values))
    else:
        raise ValueError(name)


@_as_sequence(_seq_history)
def drive_history(ctx, eqsig, x1, x2, dt, dt2, order, muts=()):
    """Same-object history on AccSignal: twins from one caller array and from each other's values, repeated calls on the
    cached swtf, reads of other cached quantities in between, the caller-presets-swtf idiom; then public mutators
    (reset_values, add_constant, add_series, remove_average, remove_poly, butter_pass, running_average, same / shorter
    reset), each followed by a call that must report the trace of the CURRENT record; the re-preset idiom after a mutation
    (judged against the new values) and a foreign swtf preset after a mutation (the caller's choice: counted)."""
    sw = eqsig.stockwell
    p1, p2 = x1.copy(), x2.copy()
    par = _par(len(x1))
    wit = _SEQ[-1]
    try:
        a = eqsig.AccSignal(x1, dt)
        twin = eqsig.AccSignal(x1, dt2)              # twin from the same caller array
        sw.get_max_stockwell_freq(a)
        for step in order:
            if step == 'repeat':
                sw.get_max_stockwell_freq(asig=a)    # cached swtf
            elif step == 'twin':
                sw.get_max_stockwell_freq(twin)
            elif step == 'read':
                for name in ('time', 'npts', 'fa_spectrum', 'fa_frequencies'):
                    try:
                        getattr(a, name)
                    except Exception:   # noqa  (not this property's business)
                        ctx.observe('history:read-of-%s-raised' % name)
            elif step == 'clone':
                b = eqsig.AccSignal(a.values, dt2)   # twin from the other object's values
                sw.get_max_stockwell_freq(b)
                sw.get_max_stockwell_freq(a)
            elif step == 'preset':
                c = eqsig.AccSignal(x2, dt)
                caller_attach(c, sw.transform(c.values))     # idiom of plot_stock: the caller attaches the transform
                sw.get_max_stockwell_freq(c)
        a.reset_values(np.array(x2))                 # (a private copy: who owns the caller's array is C05's business)
        sw.get_max_stockwell_freq(a)                 # must be the trace of x2
        caller_attach(a, sw.transform(a.values))     # the caller re-attaches after the mutation: honoured, judged
        sw.get_max_stockwell_freq(a)
        for m in muts:
            try:
                _mutate(a, m, x1, dt)
            except Exception:   # noqa  (whether a mutator refuses is other properties' business ...)
                ctx.observe('history:mutator-%s-raised' % m)
            # ... but refused or not: the call must report the trace of the values the object has NOW
            sw.get_max_stockwell_freq(a)
            if m == 'add_constant':
                sw.get_max_stockwell_freq(a)         # and again, now on the memoised transform
        a.reset_values(np.array(x1))
        caller_attach(a, sw.transform(x2))           # a foreign transform attached after the mutation: the caller's choice
        sw.get_max_stockwell_freq(a)
        sw.get_max_stockwell_freq(twin)              # the twin never changed
    except Exception as ex:   # noqa
        ctx.exception('maxfreq(asig)==f.after-mutation[%s]' % par, wit(), ex)
    _purity(ctx, x1, p1, wit, 'the caller array the twin objects were built from')
    _purity(ctx, x2, p2, wit, 'the caller array passed to reset_values')


ANGLES = (0, 30, 90, 180, 270, -90, 45.5, 360, -30.25, 123.4, 180.0, 90.0)
ANALYSED = ('both', 'both', 'ns', 'we', 'none', 'both')


def _seq_combine(x1, x2, dt, angles, analysed, extras=True):
    p1, p2 = np.array(x1), np.array(x2)
    return lambda: {'fn': 'combine', 'record': p1, 'record2': p2, 'container': 'ndarray:float64', 'dt': dt,
                    'dt_form': _dt_form(dt), 'angles': list(angles), 'analysed': analysed, 'extras': bool(extras)}


@_as_sequence(_seq_combine)
def drive_combine(ctx, eqsig, x1, x2, dt, angles, analysed, extras=True):
    """Multi-object histories: signal objects BUILT BY THE LIBRARY from objects that may already carry a memoised swtf.
    Two components (none / one / both analysed first) combined with combine_at_angle at several angles, each combination
    analysed through get_max_stockwell_freq (twice); then interp_to_approx_dt of an analysed object, a deep copy of an
    analysed object (analysed as is, then mutated), and Cluster members analysed, aligned with same_start and analysed
    again. The monitor judges every call against the values the object has at call entry."""
    import copy
    sw = eqsig.stockwell
    par = _par(len(x1))
    wit = _SEQ[-1]
    try:
        ns = eqsig.AccSignal(x1, dt)
        we = eqsig.AccSignal(x2, dt)
        if analysed in ('both', 'ns'):
            sw.get_max_stockwell_freq(ns)
        if analysed in ('both', 'we'):
            sw.get_max_stockwell_freq(we)
        for i, angle in enumerate(angles):
            comb = eqsig.combine_at_angle(ns, we, angle) if i % 2 == 0 else \
                eqsig.multiple.combine_at_angle(acc_sig_ns=ns, acc_sig_we=we, angle=angle)
            sw.get_max_stockwell_freq(comb)
            sw.get_max_stockwell_freq(comb)          # now on whatever the first call left on the object
        sw.get_max_stockwell_freq(ns)                # the components are still themselves
        sw.get_max_stockwell_freq(we)
        if extras:
            try:
                down = eqsig.interp_to_approx_dt(ns, 2 * float(dt))
            except Exception:   # noqa  (resampling is C14's business)
                ctx.observe('combine:interp_to_approx_dt-raised')
                down = None
            if down is not None and down.npts >= LEN_MIN:
                sw.get_max_stockwell_freq(down)
            dup = copy.deepcopy(we)                  # carries a copy of the memoised transform
            sw.get_max_stockwell_freq(dup)
            dup.reset_values(np.array(x1))
            sw.get_max_stockwell_freq(dup)           # must be the trace of x1
            sw.get_max_stockwell_freq(we)            # the original is untouched
            cl = eqsig.Cluster([np.array(x1), np.array(x2), np.array(x1 + x2)], float(dt))
            for j in range(3):
                sw.get_max_stockwell_freq(cl.signal_by_index(j))
            try:
                cl.same_start(start=0, end=0.25 * len(x1) * float(dt))
            except Exception:   # noqa  (C18's business)
                ctx.observe('combine:same_start-raised')
            for j in range(3):
                sw.get_max_stockwell_freq(cl.signal_by_index(j))
    except Exception as ex:   # noqa
        ctx.exception('asig.swtf==transform(values)[%s]' % par, wit(), ex)


# ---------------------------------------------------------------------- round 3: results depend on the arguments only
B_KINDS = ('same-shape', 'other-shape', 'same-shape', 'non-finite', 'rejected:scalar', 'other-shape', 'rejected:string',
           'same-shape', 'rejected:length-1', 'rejected:none')
REJECTED = {'rejected:scalar': 5.0, 'rejected:string': 'record', 'rejected:length-1': [1.0], 'rejected:none': None}


def _seq_aba(cont, cont2, dt, impl, bkind):
    rec, kind = np.array(cont), _kind(cont)
    rec2 = np.array(cont2) if cont2 is not None else np.zeros(0)
    dt = _dt_snap(dt)
    return lambda: _raw_wit('aba', rec, kind, record2=rec2, dt=dt, dt_form=_dt_form(dt), impl=impl, bkind=bkind)


def _through(ctx, eqsig, impl, c, dt, wit, par, judged):
    """One input through transform -> itransform, get_max_tifq_vals_freq and AccSignal -> get_max_stockwell_freq. judged: an
    exception refutes (in-domain record); otherwise the input is one the statement does not cover (counted)."""
    sw = eqsig.stockwell
    out = {}

    def call(clause, fn, *a):
        if judged:
            return _call(ctx, clause, wit, fn, *a)
        try:
            return fn(*a)
        except Exception:   # noqa
            ctx.observe('aba:out-of-domain-second-input-rejected')
            return None
    s = call('%s==definition[%s]' % (impl, par), getattr(sw, impl), c)
    out['transform'] = s
    if s is not None:
        out['itransform'] = call('inverse==record-mean-nyquist[%s]' % par, sw.itransform, s)
        out['tifq'] = call('maxfreq(tifq).is-frequency-of-column-max[%s]' % par, sw.get_max_tifq_vals_freq, s, dt)
    asig = call('maxfreq(asig).is-frequency-of-column-max[%s]' % par, eqsig.AccSignal, c, dt)
    if asig is not None:
        out['asig'] = call('maxfreq(asig).is-frequency-of-column-max[%s]' % par, sw.get_max_stockwell_freq, asig)
        out['swtf'] = getattr(asig, 'swtf', None)
    return out


def _bits(a):
    a = np.asarray(a)
    return (a.shape, a.dtype.str, a.tobytes())


def _same_again(ctx, prefix, first, third, rec, impl, wit):
    """The third round (after another input went through the same functions) against the first one. Transform and inverse:
    both satisfy the definition to RTOL, so they agree to 2 RTOL; the traces are functions of (array, dt) alone: identical
    whenever the arrays they were taken from are identical."""
    xe = O.even_part(rec)
    n_pts = len(xe)
    fac = _fac(rec)
    scales = {'transform': float(np.sum(np.abs(xe))), 'itransform': n_pts * float(np.max(np.abs(xe)))}
    for key in ('transform', 'itransform'):
        a, b = first.get(key), third.get(key)
        if a is None or b is None:
            continue
        name = impl if key == 'transform' else key
        ok, idx, e, al = tol.worst(np.asarray(b), np.asarray(a), scale=scales[key], rtol=2 * RTOL * fac)
        ctx.check(ok, '%s(%s)' % (prefix, name), wit,
                  '%s(A) after another input went through the same function differs from the first %s(A) (length %d): entry %s '
                  '|diff|=%.3g allowed %.3g' % (name, name, len(rec), idx, e, al))
    for key, src, name in (('tifq', 'transform', 'get_max_tifq_vals_freq'), ('asig', 'swtf', 'get_max_stockwell_freq')):
        a, b = first.get(key), third.get(key)
        sa, sb = first.get(src), third.get(src)
        if a is None or b is None or sa is None or sb is None:
            continue
        if _bits(sa) != _bits(sb):
            ctx.observe('aba:transforms-not-bitwise-equal-traces-not-compared')
            continue
        ctx.check(_bits(a) == _bits(b), '%s(%s)' % (prefix, name), wit,
                  '%s of a bitwise identical time-frequency array and the same dt differs between the first and the third call '
                  '(another input went through in between): %s' % (name, _first_change(b, np.asarray(a))))


@_as_sequence(_seq_aba)
def drive_aba(ctx, eqsig, cont, cont2, dt, impl, bkind):
    """f(A); f(B); f(A) for every function of the statement: the third round is judged online by the defining clauses and
    compared with the first. B: a record of the same shape, of another shape, a record with nan / inf or an input the
    library rejects (the raising call in the middle). With B of the same shape also ONE argument object whose contents are
    replaced between the calls (A, then B, then A again in the same buffer): a memo keyed on the identity of its argument
    returns the stale result there."""
    sw = eqsig.stockwell
    rec = np.array(cont)
    par = _par(len(rec))
    wit = _SEQ[-1]
    first = _through(ctx, eqsig, impl, cont, dt, wit, par, True)
    if bkind.startswith('rejected'):
        _through(ctx, eqsig, impl, REJECTED[bkind], dt, wit, par, False)
    else:
        ok_b = _intake(cont2)[2] is None
        _through(ctx, eqsig, impl, cont2, dt, wit, _par(len(cont2)), ok_b)
    third = _through(ctx, eqsig, impl, cont, dt, wit, par, True)
    _same_again(ctx, 'third-call==first-call', first, third, rec, impl, wit)
    _purity(ctx, cont, rec, wit, 'the record A')
    if bkind != 'same-shape' or rec.dtype.kind not in 'fiub':
        return
    # -- one argument object, contents replaced in place between the calls
    a64 = np.asarray(rec, dtype=float)
    b64 = np.asarray(np.array(cont2), dtype=float)
    f = getattr(sw, impl)
    clause = '%s==definition[%s]' % (impl, par)
    buf = a64.copy()
    s1 = _call(ctx, clause, wit, f, buf)
    buf[...] = b64
    s2 = _call(ctx, clause, wit, f, buf)             # judged online against the contents at call entry
    buf[...] = a64
    s3 = _call(ctx, clause, wit, f, buf)
    if s1 is None or s2 is None or s3 is None:
        return
    one, three = {'transform': s1}, {'transform': s3}
    cl_t = 'maxfreq(tifq).is-frequency-of-column-max[%s]' % par
    t = np.abs(s1)
    remember(t, s1, 'abs')
    one['tifq'] = _call(ctx, cl_t, wit, sw.get_max_tifq_vals_freq, t, dt)
    t[...] = np.abs(s2)
    remember(t, s2, 'abs')
    _call(ctx, cl_t, wit, sw.get_max_tifq_vals_freq, t, dt)
    t[...] = np.abs(s3)
    remember(t, s3, 'abs')
    three['tifq'] = _call(ctx, cl_t, wit, sw.get_max_tifq_vals_freq, t, dt)
    cl_i = 'inverse==record-mean-nyquist[%s]' % par
    st = np.array(s1)
    remember(st, s1, None)
    one['itransform'] = _call(ctx, cl_i, wit, sw.itransform, st)
    st[...] = s2
    remember(st, s2, None)
    _call(ctx, cl_i, wit, sw.itransform, st)
    st[...] = s3
    remember(st, s3, None)
    three['itransform'] = _call(ctx, cl_i, wit, sw.itransform, st)
    _same_again(ctx, 'refilled-argument.third==first', one, three, a64, impl, wit)


# ------------------------------------------------ round 3: object protocols, attribute assignment, refused operations
PROTOS = ('copy', 'deepcopy', 'pickle')
WARM = ('cold', 'swtf', 'spectra', 'motion', 'response', 'all')
OBJ_KINDS = ('AccSignal', 'AccSignal', 'Signal', 'AccSignal', 'Cluster-member', 'AccSignal', 'Cluster-whole', 'Signal')
ASSIGN_ATTRS = ('values', 'values', 'dt', 'npts', 'label', 'smooth_fa_freqs', 'smooth_fa_frequencies', 'response_times', 'time')
RAISERS = ('add_series-short', 'add_series-long', 'add_signal-dt', 'add_signal-str', 'butter-scalar', 'butter-3',
           'butter-above-nyquist', 'remove_poly-negative', 'reset-ragged', 'reset-scalar', 'reset-nan', 'reset-inf')
REBINDING_ONLY = ('reset', 'reset1', 'reset-list', 'reset-tuple', 'warm')     # what a shallow copy may be put through


def make_plan(rng, idx, n):
    """A JSON-able plan of one protocol history (the witness carries it)."""
    proto = PROTOS[idx % 3]
    ops = []
    for _ in range(5):
        who = 'oc'[int(rng.integers(2))]
        r = rng.random()
        if r < 0.3:
            op = REBINDING_ONLY[int(rng.integers(len(REBINDING_ONLY)))]
        elif r < 0.5 and proto != 'copy':
            op = 'mut:' + MUTATORS[int(rng.integers(len(MUTATORS)))]
        elif r < 0.75:
            op = 'assign:%s:%s:%d' % (ASSIGN_ATTRS[int(rng.integers(len(ASSIGN_ATTRS)))],
                                      ('list', 'tuple', 'ndarray')[int(rng.integers(3))], (1, 2, 3, 0)[int(rng.integers(4))])
        else:
            op = 'raise:' + RAISERS[int(rng.integers(len(RAISERS)))]
        ops.append([who, op])
    return {'proto': proto, 'level': (2, 4, 5)[(idx // 3) % 3], 'warm': WARM[(idx // 3) % len(WARM)],
            'obj': OBJ_KINDS[idx % len(OBJ_KINDS)], 'first': 'oc'[(idx // 2) % 2], 'read_first': bool((idx // 4) % 2),
            'ops': ops}


def _seq_protocols(cont, x2, dt, plan):
    rec, kind, p2, dt = np.array(cont), _kind(cont), np.array(x2), _dt_snap(dt)
    return lambda: _raw_wit('protocols', rec, kind, record2=p2, dt=dt, dt_form=_dt_form(dt), plan=plan)


def _form(vals, form):
    if form == 'list':
        return [float(v) for v in vals]
    if form == 'tuple':
        return tuple(float(v) for v in vals)
    return np.array(vals, dtype=float)


def _judged_read(ctx, sw, o, clauses, wit, kw=False):
    """get_max_stockwell_freq on the object (judged online by the monitor) and, driver side, the returned trace against the
    reference transform of the values the object had when it was called (its OWN current values; no cache is read)."""
    vals = _snapshot(getattr(o, 'values', None))
    rec, kind, skip = _intake(vals) if vals is not None else (None, None, 'unconvertible-input')
    try:
        r = sw.get_max_stockwell_freq(asig=o) if kw else sw.get_max_stockwell_freq(o)
    except Exception as ex:   # noqa
        if skip:
            ctx.observe('protocols:read-raised-on-out-of-domain-values(%s)' % skip)
        else:
            for cl in clauses:
                ctx.exception(cl, wit(), ex)
        return None
    if skip:
        ctx.observe('protocols:read-of-out-of-domain-values(%s)' % skip)
        return r
    ref, _ = _oracle(O.even_part(rec))
    probe = core.Ctx(PROP_ID, ctx.tier, 0, 0, 1)
    check_maxfreq(probe, 'asig', rec, kind, o.dt, np.abs(ref), r, wit, amp_is_reference=True)
    for cl in clauses:
        ctx.check(not probe.violations, cl, wit,
                  'get_max_stockwell_freq does not report the trace of the values the object has (length %d): %s'
                  % (len(rec), probe.violations[0]['msg'] if probe.violations else ''))
    return r


def _warm(ctx, sw, o, warm, dt, clauses, wit):
    """Fill the caches of the object by the kinds of read the classes offer (what they hold is other properties' business)."""
    import warnings
    names = []
    if warm in ('swtf', 'all'):
        _judged_read(ctx, sw, o, clauses, wit)
    if warm in ('spectra', 'all'):
        names += ['fa_spectrum', 'fa_frequencies', 'smooth_fa_spectrum']
    if warm in ('motion', 'all'):
        names += ['velocity', 'displacement', 'pga', 'pgv']
    if warm in ('response', 'all') and hasattr(o, 'response_times'):
        try:
            o.response_times = np.array([8.0, 20.0, 50.0]) * float(dt)      # periods tied to dt: no up-sampling of the record
            names += ['s_a', 's_d']
        except Exception:   # noqa
            ctx.observe('protocols:response_times-not-settable')
    with np.errstate(all='ignore'), warnings.catch_warnings():
        warnings.simplefilter('ignore')
        for name in names:
            if not hasattr(type(o), name):
                continue
            try:
                getattr(o, name)
            except Exception:   # noqa
                ctx.observe('protocols:read-of-%s-raised' % name)


def _assign(ctx, o, attr, form, k, x2):
    """Assignment through a public attribute name after construction, in the container forms of the constructor."""
    if attr == 'values':
        val = _form(x2 if k == 0 else x2[:k], form)
    elif attr in ('dt',):
        val = 2.0 * float(o.dt)
    elif attr == 'npts':
        val = max(4, len(x2) - 2)
    elif attr == 'label':
        val = 'relabelled'
    elif attr == 'time':
        val = _form(np.arange(len(x2)) * 0.5, form)
    else:
        val = _form(np.array([0.5, 2.0, 7.0])[:(k or 3)], form)
    try:
        setattr(o, attr, val)
        ctx.observe('assignment:%s-accepted-or-ignored' % attr)
    except Exception:   # noqa
        ctx.observe('assignment:%s-rejected' % attr)


def _refused(ctx, eqsig, o, which, x2, dt):
    """An operation the clean code rejects (or accepts silently: nan / inf). Returns the values to restore afterwards when the
    operation is known to leave values no record (0-d after reset_values(scalar), non-finite), else None."""
    n = len(x2)
    restore = None
    try:
        if which == 'add_series-short':
            o.add_series(x2[:n - 1])
        elif which == 'add_series-long':
            o.add_series(np.concatenate((x2, x2[:1])))
        elif which == 'add_signal-dt':
            o.add_signal(eqsig.AccSignal(x2, 2.0 * float(dt)))
        elif which == 'add_signal-str':
            o.add_signal('not a signal')
        elif which == 'butter-scalar':
            o.butter_pass(0.25 / float(dt))
        elif which == 'butter-3':
            o.butter_pass((0.1 / float(dt), 0.2 / float(dt), 0.3 / float(dt)))
        elif which == 'butter-above-nyquist':
            o.butter_pass((0.05 / float(dt), 0.75 / float(dt)))
        elif which == 'remove_poly-negative':
            o.remove_poly(-1)
        elif which == 'reset-ragged':
            o.reset_values([[1.0, 2.0], [3.0]])
        elif which == 'reset-scalar':
            restore = np.array(x2)
            o.reset_values(5.0)
        elif which in ('reset-nan', 'reset-inf'):
            restore = np.array(x2)
            y = np.array(x2, dtype=float)
            y[n // 2] = float('nan') if which == 'reset-nan' else float('inf')
            o.reset_values(y)
        else:
            raise KeyError(which)
        ctx.observe('refused-operation:%s-accepted' % which)
    except KeyError:
        raise
    except Exception:   # noqa
        ctx.observe('refused-operation:%s-raised' % which)
    return restore


@_as_sequence(_seq_protocols)
def drive_protocols(ctx, eqsig, cont, x2, dt, plan):
    """Python object protocols on signal objects and what the classes let a caller do afterwards. An object (AccSignal,
    Signal, member of a Cluster) is brought into a cache state (cold / Stockwell / spectra / motion / response spectra / all),
    copied by copy.copy, copy.deepcopy or a pickle round trip, then original and copy go through reads, rebinding resets (list /
    tuple / array), mutators, assignments through the public attribute names (1, 2, 3 entries or a whole record; list / tuple /
    array) and operations the library refuses (wrong lengths, other time step, bad cut-offs, ragged / scalar / nan / inf
    records), in a random order on either object. After every step the touched object is read, at the end both are: every
    get_max_stockwell_freq must report the trace of the values that object has at that moment (monitor clauses online plus
    the driver-side clauses named after the kind of step)."""
    import copy
    import pickle
    sw = eqsig.stockwell
    rec = np.array(cont)
    x2 = np.array(x2, dtype=float)
    wit = _SEQ[-1]
    proto = plan['proto']
    cl_p = 'protocols.trace-of-own-values[%s]' % proto
    try:
        holder = None
        if plan['obj'].startswith('Cluster'):
            holder = eqsig.Cluster([cont, x2], float(dt), stypes='acc' if plan['level'] == 4 else 'custom')
            o = holder.signal_by_index(0)
        elif plan['obj'] == 'Signal':
            o = eqsig.Signal(cont, dt)
        else:
            o = eqsig.AccSignal(cont, dt)
        _warm(ctx, sw, o, plan['warm'], dt, [cl_p], wit)
        src = holder if plan['obj'] == 'Cluster-whole' else o
        if proto == 'copy':
            dup = copy.copy(src)
        elif proto == 'deepcopy':
            dup = copy.deepcopy(src)
        else:
            dup = pickle.loads(pickle.dumps(src, protocol=plan['level']))
        c = dup.signal_by_index(0) if plan['obj'] == 'Cluster-whole' else dup
        if proto == 'copy' and plan['obj'] == 'Cluster-whole':
            # a shallow copy of the Cluster shares the member objects themselves: there is only one object to speak of
            ctx.observe('protocols:shallow-cluster-copy-shares-its-members')
        objs = {'o': o, 'c': c}
        order = [plan['first'], 'c' if plan['first'] == 'o' else 'o']
        rebound = set()
        if plan['read_first']:
            for who in order:
                _judged_read(ctx, sw, objs[who], [cl_p], wit)
        for i, (who, op) in enumerate(plan['ops']):
            obj = objs[who]
            clauses = [cl_p]
            restore = None
            if op == 'reset':
                obj.reset_values(np.array(x2))
                rebound.add(who)
            elif op == 'reset1':
                obj.reset_values(np.array(rec))
                rebound.add(who)
            elif op == 'reset-list':
                obj.reset_values([float(v) for v in x2])
                rebound.add(who)
            elif op == 'reset-tuple':
                obj.reset_values(tuple(float(v) for v in x2[::-1]))
                rebound.add(who)
            elif op == 'warm':
                _warm(ctx, sw, obj, WARM[1 + (i + len(rebound)) % 5], dt, [cl_p], wit)
            elif op.startswith('mut:'):
                try:
                    _mutate(obj, op[4:], x2, dt)
                except Exception:   # noqa
                    ctx.observe('protocols:mutator-%s-raised' % op[4:])
                    clauses.append('after-refused-operation.trace-of-own-values')
            elif op.startswith('assign:'):
                _, attr, form, k = op.split(':')
                _assign(ctx, obj, attr, form, int(k), x2)
                clauses.append('after-assignment.trace-of-own-values')
            elif op.startswith('raise:'):
                restore = _refused(ctx, eqsig, obj, op[6:], x2, dt)
                clauses.append('after-refused-operation.trace-of-own-values')
            else:
                raise ValueError(op)
            if proto == 'copy' and o is not c and rebound and np.shares_memory(np.asarray(o.values), np.asarray(c.values)):
                # shallow copies share the value buffer by definition; after a rebinding reset they must not. If they still
                # do, the reset was done in place: what the other object then shows is not ours to judge
                ctx.observe('protocols:shallow-copy-still-shares-values-after-reset')
                return
            _judged_read(ctx, sw, obj, clauses, wit, kw=len(op) % 2 == 0)
            if restore is not None:
                obj.reset_values(restore)
                rebound.add(who)
                _judged_read(ctx, sw, obj, [cl_p, 'after-refused-operation.trace-of-own-values'], wit)
        for who in reversed(order):
            _judged_read(ctx, sw, objs[who], [cl_p], wit)
            _judged_read(ctx, sw, objs[who], [cl_p], wit, kw=True)      # and on whatever the first read memoised
    except Exception as ex:   # noqa
        ctx.exception(cl_p, wit(), ex)
    _purity(ctx, cont, rec, wit, 'the record the objects were built from')


def drive_out_of_domain(ctx, eqsig, rng):
    """Forms outside the statement or rejected by the library: counted by the monitors / here, never judged."""
    sw = eqsig.stockwell
    for v, name in ((5.0, 'python-scalar'), (np.array(2.0), '0-d-array'), (np.ones(1), 'length-1')):
        for impl in IMPLS:
            try:
                getattr(sw, impl)(v)
                ctx.observe('out-of-domain:%s-accepted' % name)
            except Exception:   # noqa
                ctx.observe('out-of-domain:%s-rejected' % name)
    for n in (2, 3):
        for impl in IMPLS:
            try:
                getattr(sw, impl)(rng.normal(size=n))
            except Exception:   # noqa
                ctx.observe('out-of-domain:length-%d-rejected' % n)
    x = rng.normal(size=12)
    try:
        sw.transform(x, interp=True)
        sw.transform_w_scipy_fft(x, True)
        sw.transform(x + 1j * x)
    except Exception:   # noqa
        ctx.observe('out-of-domain:interp-or-complex-rejected')
    try:
        s = sw.transform(x)
        lst = np.abs(s).tolist()
        sw.get_max_tifq_vals_freq(lst, 0.01)
        ctx.observe('out-of-domain:nested-list-tifq-accepted')
    except Exception:   # noqa
        ctx.observe('out-of-domain:nested-list-tifq-rejected')


OBSERVABLES = ('values', 'dt', 'npts', 'label', 'time', 'fa_spectrum', 'fa_frequencies', 'smooth_fa_freqs', 'response_times',
               'pga', 'smooth_fa_frequencies', 'fa_freqs')


SETTINGS = ('dt', 'label', 'smooth_fa_freqs', 'smooth_fa_frequencies', 'response_times', 'fa_spectrum', 'fa_frequencies',
            'fa_freqs')


def _observables(asig):
    """Every public observable, read on a deep copy (reading on the object itself would fill its caches), plus the names of
    the attributes the object carries (the memoised swtf excepted: that one is allowed to appear)."""
    import copy
    d = copy.deepcopy(asig)
    d.__dict__.pop('swtf', None)
    out = {}
    for name in OBSERVABLES:
        try:
            out[name] = _snapshot(getattr(d, name))
        except Exception as ex:   # noqa
            out[name] = np.array('raised %s' % type(ex).__name__)
    out['attribute names'] = np.array(sorted(k for k in vars(asig) if k != 'swtf'))
    return out


def drive_object_purity(ctx, eqsig, cont, dt, wit, settings=0):
    """get_max_stockwell_freq on one object: every public observable unchanged (first call and call on the memoised swtf);
    the caller clobbers the returned trace in place and calls again (judged online).
    Round 5 (item 31): reads must not change settings. settings 1: smoothing frequencies and response periods given to the
    constructor, partly outside the band of the data (targets above the Nyquist frequency, periods below 2 dt); 2: the same
    through the setters (list / tuple) plus a Fourier spectrum on an explicitly requested grid (n not a power of two, shorter
    than the record every other time); 3: explicit grid only. Whatever the classes make of such settings is other
    properties' business: here they must be the same before and after the Stockwell reads."""
    sw = eqsig.stockwell
    dtf = float(dt)
    n = len(cont)
    above = [0.05 / dtf, 0.3 / dtf, 0.5 / dtf, 0.7 / dtf, 2.0 / dtf]        # Nyquist = 0.5 / dt
    below = [0.5 * dtf, 1.5 * dtf, 2.0 * dtf, 10.0 * dtf]                   # periods below / at 2 dt
    if settings == 1:
        asig = eqsig.AccSignal(cont, dt, smooth_fa_freqs=np.array(above), response_times=np.array(below))
    else:
        asig = eqsig.AccSignal(cont, dt)
    if settings == 2:
        asig.smooth_fa_freqs = above[1:] if n % 2 else tuple(above[:4])
        asig.response_times = tuple(below[:3]) if n % 2 else list(below)
    if settings in (2, 3):
        asig.gen_fa_spectrum(n=(n - 2 if (n // 2) % 2 else 2 * n + 6))
    before = _observables(asig)
    r = sw.get_max_stockwell_freq(asig)
    r2 = sw.get_max_stockwell_freq(asig)
    after = _observables(asig)
    changed = [k for k in before if not _same_bits(after[k], before[k])]
    ctx.check(not changed, 'object-unchanged(get_max_stockwell_freq)', wit,
              'public observables of the signal object changed by get_max_stockwell_freq: %s' % ', '.join(changed))
    if settings:
        lost = [k for k in changed if k in SETTINGS]
        ctx.check(not lost, 'settings-unchanged(get_max_stockwell_freq)', wit,
                  'user-given settings of the signal object (variant %d: smoothing frequencies / response periods outside the '
                  'band of the data, explicitly requested spectrum grid) are not what they were after get_max_stockwell_freq: %s'
                  % (settings, ', '.join('%s %s' % (k, _first_change(after[k], before[k])) for k in lost)))
    for arr in (r, r2):
        if isinstance(arr, np.ndarray) and arr.flags.writeable:
            arr[...] = -1.0            # the caller owns what was returned
    sw.get_max_stockwell_freq(asig)


def sinusoid(rng, length, k, amp=None):
    """Stationary sinusoid at harmonic k of the even-truncated length; random phase; amplitude 1, 10^U(-2,2) or 10^U(-12,12)."""
    n_pts = 2 * (length // 2)
    ph = rng.uniform(0, 2 * np.pi)
    if amp is None:
        r = rng.random()
        if r < 0.25:
            amp = 1.0
        elif r < 0.4:
            amp = 10.0 ** rng.uniform(-2, 2)
        elif r < 0.8:
            amp = 10.0 ** rng.uniform(-12, 12)
        elif r < 0.9:      # extreme but valid: every sample a finite double, squares / products of two of them overflow ...
            amp = 10.0 ** rng.uniform(155, 295)
        else:              # ... or underflow
            amp = 10.0 ** (-rng.uniform(165, 295))
    j = np.arange(length)
    return amp * np.sin(2 * np.pi * ((j * k) % n_pts) / n_pts + ph)


def sinusoid_container(rng, x, sel):
    """The sinusoid in one of the container forms (float32 loses nothing the statement needs; ints would quantise);
    extreme scales stay in float64 / list containers (they are not representable in float32)."""
    sel = sel % 10
    m = float(np.max(np.abs(x)))
    if sel == 4 and not (1e-30 < m < 1e30):
        sel = 5
    if sel < 4:
        return x
    if sel == 4:
        return x.astype(np.float32)
    if sel == 5:
        return [float(v) for v in x]
    if sel == 6:
        buf = np.zeros(2 * len(x))
        buf[::2] = x
        return buf[::2]
    if sel == 7:
        y = x.copy()
        y.flags.writeable = False
        return y
    if sel == 8:
        return np.array(x[::-1])[::-1]
    return tuple(float(v) for v in x)


def draw_dts(rng, idx, count, n_pts=None):
    """count time steps cycling deterministically through the nice decimals and the 1/k floor-trap list (so that every
    listed value meets many lengths), plus 1/k for random integer k, log-uniform draws over three ranges, and the scalar
    forms of scalar_form (Python int / bool, numpy float64 / float32 / int64 / int32 / bool_, 0-d arrays of float64 / float32 /
    int64, writeable and read-only)."""
    out = []
    for c in range(count):
        sel = c % 8
        if sel == 0:
            out.append(float(gen.NICE_DT[(idx + c // 8) % len(gen.NICE_DT)]))
        elif sel == 1:
            out.append(1.0 / gen.RECIP_K[(idx + c // 8) % len(gen.RECIP_K)])
        elif sel == 2:
            out.append(float(10.0 ** rng.uniform(-9, 3)))
        elif sel == 3:
            out.append(float(gen.NICE_DT[(3 * idx + 5 + c // 8) % len(gen.NICE_DT)]))
        elif sel == 4:
            out.append(1.0 / int(rng.integers(2, 1001)))
        elif sel == 5:
            out.append(gen.dt(rng, 'log'))
        elif sel == 6:
            # awkward for the frequency axis: dt/(dt/k) != k, (dt/k)*k != dt for k = N/2 voices or N samples
            if n_pts:
                out.append(gen.awkward_dt(rng, (n_pts // 2) if (idx + c // 8) % 2 else n_pts))
            else:
                out.append(float(10.0 ** rng.uniform(-4, 1)))
        else:
            out.append(scalar_form(rng, idx // 2 + idx // 24 + c // 8))
    return out


CLASSES_A = ['noise', 'quake', 'walk', 'chirp', 'impulse', 'plateau', 'beat', 'step', 'hat', 'alt', 'zeropad', 'intnoise',
             'sine', 'const', 'flat-ends', 'extreme-first', 'extreme-last', 'sign-change-end', 'offset', 'micro', 'macro',
             'ramp', 'one-sided', 'nyquist-mix', 'tail-heavy', 'single-changed', 'spike-range',
             'silent', 'last-only', 'positive-only', 'non-positive']
EXTREME_SCALE = ('micro', 'macro', 'offset', 'spike-range')
NARROW = ('int32', 'int16', 'int8', 'uint8', 'uint16')


def build_items(tier):
    """Deterministic work list (kind, params), ordered by decreasing cost so that round-robin sharding balances."""
    items = []
    quick = tier == 'quick'
    # -- sinusoids at sampled large lengths: even N and an odd partner (N+1, or N-1 at the top of the range)
    if quick:
        big = sorted(set(list(range(280, 1025, 31)) + [512, 768, 1000, 1022, 1024]))
    else:
        big = list(range(522, 1025, 2))                # EVERY even N above the sin-everyN block
    for n in big:
        items.append(('sin-sampled', (n,)))
        items.append(('sin-sampled', (n + 1 if n < LEN_MAX else n - 1,)))
    # -- definition at lengths above 64: around every power of two, a few others, random ones
    if quick:
        fixed = [65, 66, 96, 97, 100, 101, 127, 128, 129, 130, 191, 192, 200, 201, 255, 256, 257]
        single = [511, 512, 513, 1023, 1024]
        n_random = 32
    else:
        fixed = [65, 66, 100, 101, 127, 128, 129, 255, 256, 257, 300, 301, 383, 384, 500, 501, 511, 512, 513, 640, 641,
                 767, 768, 999, 1000, 1001, 1021, 1022, 1023, 1024]
        single = []
        n_random = 60
    for n in fixed:
        for c in range(2):
            items.append(('def', (n, c)))
    for i, n in enumerate(single):
        items.append(('def', (n, i)))
    for c in range(n_random):
        items.append(('def', (None, c)))               # random length 65..256 (quick) / 65..1024 (thorough)
    # -- every harmonic for selected N (and the odd length N+1)
    all_k_n = [16, 32, 64, 100, 128] if quick else [16, 32, 50, 64, 72, 100, 128, 150, 200, 256, 300, 400, 512, 640, 750, 1000]
    for n in all_k_n:
        lo, hi = O.harmonic_range(n)
        for k in range(lo, hi + 1):
            items.append(('sin-allk', (n, k)))
            items.append(('sin-allk', (n + 1, k)))
    # -- every even N and the odd N+1, harmonics {2, kmax, random}, back-to-back pair and one object history
    top = 260 if quick else 520
    for n in range(16, top + 1, 2):
        items.append(('sin-everyN', (n,)))
        items.append(('sin-everyN', (n + 1,)))
    # -- definition at every length 4..64, every record class (thorough: twice)
    reps = len(CLASSES_A) * (1 if quick else 2)
    for n in range(4, 65):
        for c in range(reps):
            items.append(('def', (n, c)))

    def cost(it):
        kind, p = it
        n = p[0] if p[0] is not None else (160 if quick else 550)
        return float(n) ** 3 * {'def': 4.0, 'sin-everyN': 4.0}.get(kind, 1.0)
    items.sort(key=cost, reverse=True)
    return items


def make_record(rng, n, cls):
    """gen.record plus the classes of the audit list (plateaus at the ends, extreme at the first/last sample, sign change at
    the last step, small signal on a large offset, micro / macro amplitudes)."""
    if cls in gen.RECORD_CLASSES:
        amp = 10.0 ** rng.uniform(-12, 12) if rng.random() < 0.15 else None
        x, _ = gen.record(rng, n, cls=cls, amp=amp)
        return x
    x = rng.normal(size=n)
    if cls == 'flat-ends':
        a = int(rng.integers(1, max(2, n // 3 + 1)))
        b = int(rng.integers(1, max(2, n // 3 + 1)))
        x[:a] = x[a - 1]
        x[n - b:] = x[n - b]
    elif cls == 'extreme-first':
        x[0] = 3.0 * np.max(np.abs(x)) * rng.choice([-1.0, 1.0])
    elif cls == 'extreme-last':
        x[-1] = 3.0 * np.max(np.abs(x)) * rng.choice([-1.0, 1.0])
    elif cls == 'sign-change-end':
        x[-1] = -np.sign(x[-2]) * (abs(x[-1]) + 0.1)
    elif cls == 'offset':
        x = x * 10.0 ** rng.uniform(-6, 0) + rng.choice([-1.0, 1.0]) * 10.0 ** rng.uniform(0, 6)
    elif cls == 'micro':
        x = x * 10.0 ** rng.uniform(-12, -9)
    elif cls == 'macro':
        x = x * 10.0 ** rng.uniform(9, 12)
    elif cls == 'ramp':                 # monotone / trend dominated
        x = np.cumsum(np.abs(x)) * rng.choice([-1.0, 1.0]) + 0.01 * rng.normal(size=n) * (rng.random() < 0.5)
    elif cls == 'one-sided':            # all the action at negative values, large negative mean
        x = -np.abs(x) - rng.uniform(0, 3)
    elif cls == 'nyquist-mix':          # energy exactly at the Nyquist frequency on top of something else
        x = x * rng.choice([0.0, 0.01, 1.0]) + 10.0 ** rng.uniform(0, 3) * np.where(np.arange(n) % 2 == 0, 1.0, -1.0)
    elif cls == 'tail-heavy':           # exact zeros, all the action in the last 1/8 (at least 2 samples)
        m = max(2, n // 8)
        x[:n - m] = 0.0
    elif cls == 'single-changed':       # a constant with one sample changed
        c = float(rng.choice([0.0, 1.0, -2.5]))
        x = np.full(n, c)
        x[int(rng.integers(n))] += rng.choice([-1.0, 1.0]) * 10.0 ** rng.uniform(-3, 1)
    elif cls == 'spike-range':          # one sample 1e3..1e12 times larger than everything else
        x[int(rng.integers(n))] = rng.choice([-1.0, 1.0]) * 10.0 ** rng.uniform(3, 12)
    elif cls == 'silent':               # a dead channel: every sample zero (+0.0 or -0.0) -- valid input, the transform is zero
        x = np.zeros(n) if rng.random() < 0.7 else -np.zeros(n)
    elif cls == 'last-only':            # pre-event padding: only the last sample is non-zero (odd n: the even part is silent)
        x = np.zeros(n)
        x[-1] = rng.choice([-1.0, 1.0]) * 10.0 ** rng.uniform(-3, 3)
    elif cls == 'positive-only':        # strictly one-signed: no zero, no sign change
        x = np.abs(x) + 10.0 ** rng.uniform(-3, 1)
    elif cls == 'non-positive':         # one-signed with exact zeros: max(x) == 0 although the record is not silent
        x = -np.abs(x) - 1e-3
        x[rng.random(n) < 0.3] = 0.0
        x[int(rng.integers(n))] = 0.0
        if not np.any(x):
            x[0] = -1.0
    else:
        raise ValueError(cls)
    return x


def to_container(rng, x, sel):
    """(container, short name). sel cycles through every dtype / container / layout form of the audit list."""
    sel = sel % 23
    if sel in (0, 1, 2, 3, 4, 5):
        return x, 'f64'
    if sel in (20, 21, 22):
        # round 5 (item 29): bool-dtype records (on/off channel, rectangular pulses). The library casts kind 'b' to float
        # on purpose; NumPy itself adds bools with OR and refuses to subtract them
        lo, hi = float(np.min(x)), float(np.max(x))
        b = (x > np.median(x)) if hi > lo else (x != 0)
        if sel == 20:
            return b, 'bool'
        if sel == 21:
            return [bool(v) for v in b], 'list-bool'
        b = np.array(b)
        b.flags.writeable = False
        return b, 'bool-readonly'
    if sel == 6:
        return [float(v) for v in x], 'list'
    if sel == 7:
        return tuple(float(v) for v in x), 'tuple'
    if sel == 8:
        return x.astype(np.float32), 'f32'
    if sel == 9:       # list of Python ints
        return [int(v) for v in np.round(_to_range(x, 1000.0))], 'list-int'
    if sel == 10:      # mixed list: ints at the even positions
        y = _to_range(x, 50.0)
        return [int(round(v)) if i % 2 == 0 else float(v) for i, v in enumerate(y)], 'list-mixed'
    if sel == 11:
        return np.round(_to_range(x, 2.0 ** 40)).astype(np.int64), 'i64'
    if sel in (12, 13, 14):
        dtp = np.dtype(NARROW[int(rng.integers(len(NARROW)))])
        info = np.iinfo(dtp)
        if info.min == 0:
            lo, hi = float(np.min(x)), float(np.max(x))
            y = (x - lo) / (hi - lo) * info.max if hi > lo else np.full(len(x), float(info.max))
        else:
            y = _to_range(x, float(info.max))
        return np.clip(np.round(y), info.min, info.max).astype(dtp), str(dtp)      # fills the dtype's range
    if sel == 15:
        buf = np.zeros(2 * len(x))
        buf[::2] = x
        return buf[::2], 'f64-strided'
    if sel == 16:
        return np.array(x[::-1])[::-1], 'f64-reversed'
    if sel == 17:
        y = x.copy()
        y.flags.writeable = False
        return y, 'f64-readonly'
    if sel == 18:
        y = x.astype(np.float32)
        y.flags.writeable = False
        return y, 'f32-readonly'
    buf = np.zeros(3 * len(x), dtype=np.int16)
    buf[::3] = np.round(_to_range(x, 32000.0)).astype(np.int16)
    return buf[::3], 'i16-strided'


def _to_range(x, top):
    m = float(np.max(np.abs(x)))
    return x / m * top if m > 0 else x * 0.0


def run_item(ctx, eqsig, rng, idx, item):
    kind, p = item
    quick = ctx.tier == 'quick'
    if kind == 'def':
        n, c = p
        if n is None:
            n = int(rng.integers(65, (257 if quick else 1025)))
        cls = CLASSES_A[c % len(CLASSES_A)]
        x = make_record(rng, n, cls)
        cont, ck = to_container(rng, x, idx + c // len(CLASSES_A))
        if idx % 6 == 1:      # numerically special but valid scales (wave 5): float64 / list containers only
            x, suffix = gen.special_scale(rng, x)
            cls += suffix
            cont, ck = (x, 'f64') if idx % 12 == 1 else ([float(v) for v in x], 'list')
        elif cls in EXTREME_SCALE and idx % 4 == 0:       # (15) float32 x extreme scale / dynamic range, every run
            cont, ck = x.astype(np.float32), 'f32'
        if cls in ('silent', 'last-only') and np.asarray(cont).dtype.kind == 'u':
            udt = np.asarray(cont).dtype      # the affine map onto an unsigned range would turn the zeros into counts
            cont = np.where(x != 0, np.iinfo(udt).max, 0).astype(udt)
        if cls in ('silent', 'last-only') and ck.startswith('bool'):      # the threshold would lose a negative last sample
            cont = (x != 0)
            cont.flags.writeable = ck != 'bool-readonly'
        elif cls in ('silent', 'last-only') and ck == 'list-bool':
            cont = [bool(v) for v in x != 0]
        dt = draw_dts(rng, idx, 8, 2 * (n // 2))[idx % 8]
        rec = np.array(cont)
        ctx.case(core.digest(rec, ck, float(dt), 'def'), nontrivial=len(set(rec.tolist())) > 1,
                 cls='def-%s-%s-%s' % (cls, ck, _par(n)),
                 sample={'fn': 'transform+transform_w_scipy_fft+itransform+get_max_tifq_vals_freq, then a second record',
                         'n': n, 'class': cls, 'container': ck, 'dt': float(dt), 'head': rec[:6]})
        drive_record(ctx, eqsig, cont, _fresh(dt), idx)
        ycls = ['noise', 'quake', 'walk', 'chirp'][int(rng.integers(4))]
        y, _ = gen.record(rng, n, cls=ycls)
        if idx % 3 == 0 or idx % 12 == 1:
            y = y / float(np.max(np.abs(y)) or 1.0) * float(np.max(np.abs(rec.astype(float))) or 1.0)   # scale of the first record
        drive_back_to_back(ctx, eqsig, cont, y, _fresh(dt), TIFQ_FORMS[idx % len(TIFQ_FORMS)])
        # (25) f(A); f(B); f(A): B of the same shape / another shape / with nan or inf / an input the library rejects
        bkind = B_KINDS[(idx + c) % len(B_KINDS)]
        b = None
        if bkind == 'same-shape':
            b = y
        elif bkind == 'other-shape':
            m = [n - 1, n + 1, n // 2 + 2, n + 2, 2 * n - 3][int(rng.integers(5))]
            m = min(max(m, LEN_MIN), LEN_MAX)
            if m == n:
                m = n - 1 if n > LEN_MIN else n + 1
            b = np.resize(y, m) * (1.0 + 0.25 * np.arange(m) / m)
        elif bkind == 'non-finite':
            b = y.copy()
            b[int(rng.integers(n))] = [float('nan'), float('inf'), -float('inf')][int(rng.integers(3))]
        drive_aba(ctx, eqsig, cont, b, _fresh(dt), IMPLS[(idx // 2) % 2], bkind)
        # (22, 23, 24) object protocols, attribute assignment, refused operations: on every record class and length
        if (c + n) % 8 == 3:
            plan = make_plan(rng, idx + c, n)
            ctx.case(core.digest(rec, y, 'protocols', plan), nontrivial=len(set(rec.tolist())) > 1,
                     cls='protocols-%s-%s-%s' % (plan['proto'], plan['warm'], plan['obj']))
            drive_protocols(ctx, eqsig, cont, y, _fresh(dt), plan)
        # linearity on float64 records: every second case up to length 64, every case above
        if n <= 64 and c % 2 == 0 or n > 64:
            xf = np.asarray(rec, dtype=float)
            ab = [(2.0, -0.5), (1.0, 1.0), (float(rng.normal()), float(rng.normal())), (1024.0, 0.0),
                  (float(10.0 ** rng.uniform(-3, 3)), -float(10.0 ** rng.uniform(-3, 3))), (1.0, -1.0)][int(rng.integers(6))]
            y2 = y if idx % 2 else y * float(np.max(np.abs(xf)) or 1.0)
            if ab == (1.0, -1.0) and np.all(np.abs(xf) < 1e150):
                y2 = xf.copy()            # x - x: the combination is a silent record
            drive_linearity(ctx, eqsig, IMPLS[(idx // 3) % 2], xf, y2, ab[0], ab[1])
        return
    # sinusoid items
    if kind == 'sin-allk':
        length, k = p
        ks = [k]
        ndt = 2 if quick else 3
    elif kind == 'sin-everyN':
        length = p[0]
        lo, hi = O.harmonic_range(2 * (length // 2))
        ks = [lo, hi, int(rng.integers(lo, hi + 1))]
        ndt = 8
    else:
        length = p[0]
        lo, hi = O.harmonic_range(2 * (length // 2))
        ks = [[lo, hi, int(rng.integers(lo, hi + 1))][idx % 3]]
        ndt = 4
    xs = []
    for r, k in enumerate(ks):
        x = sinusoid(rng, length, k)
        xs.append(x)
        cont = sinusoid_container(rng, x, idx + 3 * r)
        dts = draw_dts(rng, idx * 3 + r, ndt, 2 * (length // 2))
        if ndt < 7:      # short lists never reach the awkward slot: put one in
            dts[-1] = gen.awkward_dt(rng, (length // 2) if r % 2 else 2 * (length // 2))
            if idx % 3 == 0:                 # ... nor the scalar-form slot (round 5, item 28)
                dts[0] = scalar_form(rng, idx // 3)
        settings = (idx + r) % 4
        impl = IMPLS[r % 2] if kind == 'sin-everyN' else (IMPLS[0] if idx % 3 else IMPLS[1])   # tifq path only
        tform = TIFQ_FORMS[(idx + r) % len(TIFQ_FORMS)]
        ctx.case(core.digest(x, [float(d) for d in dts], [_dt_form(d) for d in dts], impl, tform, settings), nontrivial=True,
                 cls='%s-%s-%s' % (kind, _kind(cont).replace('ndarray:', ''), _par(length)),
                 sample={'fn': 'get_max_stockwell_freq(AccSignal)+get_max_tifq_vals_freq', 'n': length, 'harmonic': k,
                         'dts': [float(d) for d in dts], 'dt_forms': [_dt_form(d) for d in dts], 'impl': impl,
                         'tifq_form': tform, 'settings': settings, 'head': x[:6]})
        drive_sinusoid(ctx, eqsig, cont, [_fresh(d) for d in dts], impl, tform, settings)
    if kind == 'sin-everyN':
        dts = draw_dts(rng, idx, 8, 2 * (length // 2))
        # two sinusoids of the same length back to back (micro amplitude first every third time), then one object history
        first = xs[0] if idx % 3 else sinusoid(rng, length, ks[0], amp=10.0 ** rng.uniform(-12, -9))
        drive_back_to_back(ctx, eqsig, first, xs[1], _fresh(dts[idx % 8]), TIFQ_FORMS[(idx // 2) % len(TIFQ_FORMS)])
        order = [['repeat', 'twin', 'read', 'clone', 'preset'][int(i)] for i in rng.permutation(5)]
        order += [order[int(rng.integers(5))]]
        ctx.case(core.digest(xs[2], xs[1], 'history', order), nontrivial=True, cls='history-%s' % _par(length))
        # multi-object history: an on-grid sinusoid pair (two of three items) or a random pair, 4 angles
        if idx % 3 == 2:
            c1, _ = gen.record(rng, length, cls=['noise', 'quake', 'walk', 'chirp'][int(rng.integers(4))])
            c2, _ = gen.record(rng, length, cls=['noise', 'quake', 'beat', 'sine'][int(rng.integers(4))])
        else:
            c1, c2 = xs[0].copy(), xs[1].copy()
            if ks[0] == ks[1]:
                c2 = sinusoid(rng, length, ks[2])
        angles = [ANGLES[(idx + 3 * j) % len(ANGLES)] for j in range(4)]
        if idx % 2 == 0:
            angles[int(rng.integers(4))] = float(rng.uniform(-360, 360))
        analysed = ANALYSED[idx % len(ANALYSED)]
        ctx.case(core.digest(c1, c2, 'combine', angles, analysed), nontrivial=True, cls='combine-%s-%s' % (analysed, _par(length)),
                 sample={'fn': 'combine_at_angle+get_max_stockwell_freq', 'n': length, 'angles': angles, 'analysed': analysed})
        drive_combine(ctx, eqsig, c1, c2, float(dts[(idx + 3) % 8]), angles, analysed)
        plan = make_plan(rng, idx, length)
        ctx.case(core.digest(c1, c2, 'protocols', plan), nontrivial=True,
                 cls='protocols-%s-%s-%s' % (plan['proto'], plan['warm'], plan['obj']),
                 sample={'fn': 'copy/deepcopy/pickle + reads, resets, mutators, assignments, refused operations', 'n': length,
                         'plan': plan})
        drive_protocols(ctx, eqsig, c1, c2, _fresh(dts[(idx + 4) % 8]), plan)
        muts = [MUTATORS[int(i)] for i in rng.permutation(len(MUTATORS))[:3]]
        drive_history(ctx, eqsig, xs[2].copy(), xs[1].copy(), _fresh(dts[(idx + 1) % 8]), _fresh(dts[(idx + 2) % 8]), order, muts)


def oracle_selfcheck(ctx, rng):
    """The vectorised reference against the literal scalar triple loop (short records, both parities)."""
    for n in range(4, 15):
        if (n - 4) % ctx.nshards != ctx.shard:
            continue
        x = rng.normal(size=n)
        a, _ = O.s_transform_conj(x)
        b = O.s_transform_conj_scalar(x)
        ok, idx, e, al = tol.worst(a, b, scale=float(np.sum(np.abs(x))), rtol=1e-14)
        ctx.check(ok, 'oracle.vectorised==scalar', lambda: {'fn': 'oracle', 'record': x},
                  'reference implementations disagree at %s by %.3g' % (idx, e))


def run_shard(ctx):
    eqsig = core.import_eqsig()
    install(ctx)
    rng = ctx.rng
    oracle_selfcheck(ctx, rng)
    if ctx.shard < 2:
        drive_out_of_domain(ctx, eqsig, rng)
    items = build_items(ctx.tier)
    for idx in core.split_range(len(items), ctx.shard, ctx.nshards):
        if ctx.out_of_time():
            ctx.observe('items-skipped-out-of-time')
            continue
        run_item(ctx, eqsig, rng, idx, items[idx])
    ctx.note('work_items_total', len(items))
    ctx.note('monitored_calls', dict(attach.CALLS))


# ------------------------------------------------------------------------------------------------------ replay
def replay(w):
    """Re-execute one witness against the current tree; return the list of violation messages."""
    eqsig = core.import_eqsig()
    ctx = core.Ctx(PROP_ID, 'quick', 0, 0, 1)
    install(ctx)
    sw = eqsig.stockwell
    fn = w.get('fn')
    kind = w.get('container', 'ndarray:float64')
    rec = np.asarray(w['record'])
    if fn == 'oracle':
        a, _ = O.s_transform_conj(rec)
        b = O.s_transform_conj_scalar(rec)
        ok, idx, e, al = tol.worst(a, b, scale=float(np.sum(np.abs(rec))), rtol=1e-14)
        return [] if ok else ['oracle.vectorised==scalar: %s %.3g' % (idx, e)]
    dt = _dt_build(w['dt'], w.get('dt_form')) if 'dt' in w else None
    try:
        if fn == 'linearity':
            drive_linearity(ctx, eqsig, w['impl'], np.asarray(rec, dtype=float), np.asarray(w['record2'], dtype=float),
                            w['a'], w['b'])
        elif fn in IMPLS:
            kw = w.get('kw') or []
            cont = _container(rec, kind)
            f = getattr(sw, fn)
            if 'acc' in kw:
                f(acc=cont, **({'interp': False} if 'interp' in kw else {}))
            elif 'interp' in kw:
                f(cont, interp=False)
            else:
                f(cont)
        elif fn == 'itransform':
            s = getattr(sw, w.get('impl', 'transform'))(_container(rec, kind))
            t = derive(s, w.get('derived'))
            remember(t, s, w.get('derived'))
            sw.itransform(t)
        elif fn == 'get_max_stockwell_freq':
            asig = eqsig.AccSignal(_container(rec, kind), dt)
            if w.get('preset_swtf'):
                caller_attach(asig, sw.transform(asig.values))
            sw.get_max_stockwell_freq(asig)
        elif fn == 'get_max_tifq_vals_freq':
            s = getattr(sw, w.get('impl', 'transform'))(_container(rec, kind))
            t = derive(s, w.get('derived'))
            remember(t, s, w.get('derived'))
            sw.get_max_tifq_vals_freq(t, dt)
        elif fn == 'back-to-back':
            drive_back_to_back(ctx, eqsig, _container(rec, kind),
                               _container(w['record2'], w.get('container2', 'ndarray:float64')), dt, w.get('tform'))
        elif fn == 'record-sequence':
            drive_record(ctx, eqsig, _container(rec, kind), dt if dt is not None else 0.01, int(w.get('form', 0)))
        elif fn == 'sinusoid-sequence':
            dts = w.get('dts', [0.01])
            forms = w.get('dt_forms') or [None] * len(dts)
            drive_sinusoid(ctx, eqsig, _container(rec, kind), [_dt_build(d, f) for d, f in zip(dts, forms)],
                           w.get('impl', 'transform'), w.get('tform'), int(w.get('settings', 0)))
        elif fn == 'combine':
            drive_combine(ctx, eqsig, np.array(rec, dtype=float), np.array(w['record2'], dtype=float), dt, w.get('angles', [180]),
                          w.get('analysed', 'both'), w.get('extras', True))
        elif fn == 'aba':
            b = None if str(w.get('bkind', '')).startswith('rejected') else np.array(w['record2'], dtype=float)
            drive_aba(ctx, eqsig, _container(rec, kind), b, dt, w.get('impl', 'transform'), w.get('bkind', 'same-shape'))
        elif fn == 'protocols':
            drive_protocols(ctx, eqsig, _container(rec, kind), np.array(w['record2'], dtype=float), dt, w['plan'])
        elif fn == 'history':
            drive_history(ctx, eqsig, np.array(rec, dtype=float), np.array(w['record2'], dtype=float), dt,
                          _dt_build(w.get('dt2', 0.01), w.get('dt2_form')), w.get('order', []), w.get('muts', []))
        else:
            return ['unknown witness kind %r' % fn]
    except Exception as ex:   # an exception on the recorded in-domain input still refutes
        ctx.exception('replay', w, ex)
    return ['%s: %s' % (v['clause'], v['msg']) for v in ctx.violations]
