"""C15 - Stockwell transform: definition, Fourier marginal, exact inverse, dominant frequency.

Monitors (post-conditions on every execution of the real functions, wherever the call comes from):
  stockwell.transform / transform_w_scipy_fft   shape; every cell against the defining triple sum (oracles/stransform.py,
                                                direct sums, no FFT); row sums against the direct DFT; the scipy variant
                                                additionally against the numpy variant on the same record
  stockwell.itransform                          against record - mean - Nyquist component (record known from the
                                                provenance registry filled by the transform monitors)
  stockwell.get_max_stockwell_freq / get_max_tifq_vals_freq
                                                every entry is the grid frequency n/(N dt) of a row attaining the column
                                                maximum; for an on-grid sinusoid (recognised by the DFT oracle) inside
                                                [2nd harmonic, 3/4 Nyquist] the trace equals k/(N dt) on the middle half
Driver-side relation between executions: linearity T(a x + b y) = a T(x) + b T(y).
Every clause name carries the parity of the record length ([even]/[odd]; odd lengths exercise the truncation).
"""
import collections
import math

import numpy as np

from vf import attach, core, gen, tol
from vf.oracles import stransform as O

PROP_ID = 'C15'
TECHNIQUE = ('runtime post-condition monitors on transform / transform_w_scipy_fft / itransform / get_max_stockwell_freq / '
             'get_max_tifq_vals_freq with a direct-sum (no FFT) reference S-transform and DFT; driver-side linearity relation')
RULE = ('cases = (record, container, implementation | dt) calls of the real functions. Definition part: EVERY length 4..64 x '
        'all 14 record classes (noise, ground-motion windows, walks, chirps, impulses, steps, plateaus, constants, ...; '
        'float64/float32/int64/list/tuple containers; thorough: twice) plus fixed and random lengths up to 256 (quick) / 1024 '
        '(thorough); each case runs both implementations, the inverse of one of them, the dominant-frequency helper on the '
        'other and (every second case) a linear combination with a second record. Sinusoid part: EVERY on-grid harmonic '
        '2 <= k <= 0.75 N/2 for N in {16,32,64,100,128} (thorough: 14 values of N up to 640) and harmonics '
        '{2, k_max, random} for EVERY even N in 16..260 (thorough: 16..520) -- each N also as the odd length N+1 -- plus one '
        'harmonic for 29 sampled N in 280..1024 (quick) / EVERY even N in 522..1024 (thorough) and an odd partner length; '
        'random phase and amplitude; each sinusoid is transformed, inverted and driven through '
        'get_max_stockwell_freq(AccSignal(record, dt)) and get_max_tifq_vals_freq(transform(record) or its modulus, dt) for '
        '2..8 dt per record (nice decimals and the 1/k floor-trap list cycled deterministically against the lengths, 1/k for '
        'random integer k <= 1000, log-uniform over [1e-4, 10] and [1e-3, 1]). distinct = digest(record, options); '
        'non-trivial = record with at least two distinct values.')
ASSUMPTIONS = ['real, finite records of length 4..1024 (complex input, shorter/longer records are counted, not judged)',
               'the Gaussian window of width 1/f is periodised once: m runs over the alias representatives -(N/2-1)..N/2',
               'float32 records are judged with the tolerance scaled by eps(float32)/eps(float64) (numpy keeps the '
               'precision of the input in the forward FFT)',
               '"middle half" = samples ceil(N/4) .. floor(3N/4)-1 of the even-truncated record of length N',
               'an "on-grid sinusoid" is a record whose direct DFT vanishes (1e-9 relative, 2-norm) outside bins k and N-k',
               'oracle vf/oracles/stransform.py is correct (vectorised direct sums, cross-checked in every run against the '
               'literal scalar triple loop on short records)']
MIN_EVALS = {
    'quick': {
        'transform==definition[even]': 2200, 'transform==definition[odd]': 2200,
        'transform_w_scipy_fft==definition[even]': 450, 'transform_w_scipy_fft==definition[odd]': 450,
        'implementations-agree[even]': 450, 'implementations-agree[odd]': 450,
        'shape==(n/2,n)[even]': 2700, 'shape==(n/2,n)[odd]': 2700,
        'row-sum==conj(X_n)[even]': 2700, 'row-sum==conj(X_n)[odd]': 2700,
        'linearity[even]': 120, 'linearity[odd]': 120,
        'inverse==record-mean-nyquist[even]': 480, 'inverse==record-mean-nyquist[odd]': 480,
        'maxfreq(asig)==f.middle-half[even]': 1600, 'maxfreq(asig)==f.middle-half[odd]': 1600,
        'maxfreq(tifq)==f.middle-half[even]': 1600, 'maxfreq(tifq)==f.middle-half[odd]': 1600,
        'maxfreq(asig).is-frequency-of-column-max[even]': 1600, 'maxfreq(asig).is-frequency-of-column-max[odd]': 1600,
        'maxfreq(tifq).is-frequency-of-column-max[even]': 1800, 'maxfreq(tifq).is-frequency-of-column-max[odd]': 1800,
        'oracle.vectorised==scalar': 8,
    },
    'thorough': {
        'transform==definition[even]': 6500, 'transform==definition[odd]': 6500,
        'transform_w_scipy_fft==definition[even]': 1000, 'transform_w_scipy_fft==definition[odd]': 1000,
        'implementations-agree[even]': 1000, 'implementations-agree[odd]': 1000,
        'shape==(n/2,n)[even]': 7500, 'shape==(n/2,n)[odd]': 7500,
        'row-sum==conj(X_n)[even]': 7500, 'row-sum==conj(X_n)[odd]': 7500,
        'linearity[even]': 230, 'linearity[odd]': 230,
        'inverse==record-mean-nyquist[even]': 1400, 'inverse==record-mean-nyquist[odd]': 1400,
        'maxfreq(asig)==f.middle-half[even]': 5000, 'maxfreq(asig)==f.middle-half[odd]': 5000,
        'maxfreq(tifq)==f.middle-half[even]': 5000, 'maxfreq(tifq)==f.middle-half[odd]': 5000,
        'maxfreq(asig).is-frequency-of-column-max[even]': 5000, 'maxfreq(asig).is-frequency-of-column-max[odd]': 5000,
        'maxfreq(tifq).is-frequency-of-column-max[even]': 5500, 'maxfreq(tifq).is-frequency-of-column-max[odd]': 5500,
        'oracle.vectorised==scalar': 8,
    },
}

CTX = None
RTOL = 1e-12           # DESIGN.md C15 (d): per cell <= 1e-12 * sum|x|; inverse <= 1e-12 * N * max|x|
RTOL_FREQ = 1e-12      # relative tolerance of a reported frequency against k/(N dt)
LEN_MIN, LEN_MAX = 4, 1024
IMPLS = ('transform', 'transform_w_scipy_fft')


def n_shards(tier):
    return 16


# -------------------------------------------------------------------------------------------- provenance + caches
class _Registry(object):
    """Which record a returned time-frequency array came from (by object identity; the array is kept alive so the id
    cannot be reused)."""

    def __init__(self, cap):
        self.cap = cap
        self.d = collections.OrderedDict()

    def put(self, arr, info):
        self.d[id(arr)] = (arr, info)
        self.d.move_to_end(id(arr))
        while len(self.d) > self.cap:
            self.d.popitem(last=False)

    def get(self, arr):
        e = self.d.get(id(arr))
        if e is not None and e[0] is arr:
            self.d.move_to_end(id(arr))     # least-recently-USED eviction: an array still being worked with stays
            return e[1]
        return None


REG = _Registry(8)
_ORACLE_CACHE = collections.OrderedDict()     # digest(even part) -> (conj S reference, H)
_HARMONIC_CACHE = collections.OrderedDict()   # digest(even part) -> k or None


def _oracle(xe):
    key = core.digest(xe)
    hit = _ORACLE_CACHE.get(key)
    if hit is None:
        hit = O.s_transform_conj(xe)
        _ORACLE_CACHE[key] = hit
        while len(_ORACLE_CACHE) > 3:
            _ORACLE_CACHE.popitem(last=False)
    else:
        _ORACLE_CACHE.move_to_end(key)
    return hit


def _harmonic(xe):
    key = core.digest(xe)
    if key not in _HARMONIC_CACHE:
        _HARMONIC_CACHE[key] = O.on_grid_harmonic(xe)
        while len(_HARMONIC_CACHE) > 256:
            _HARMONIC_CACHE.popitem(last=False)
    return _HARMONIC_CACHE[key]


def remember(arr, source):
    """Driver-side provenance: arr was derived (e.g. modulus) from the monitored transform result `source`."""
    info = REG.get(source)
    if info is not None:
        d = dict(info)
        d['derived'] = 'abs'
        REG.put(arr, d)


# ------------------------------------------------------------------------------------------------ record intake
def _kind(acc):
    if isinstance(acc, np.ndarray):
        return 'ndarray:%s' % acc.dtype
    return type(acc).__name__


def _intake(acc):
    """(private copy of the record as passed, container kind, reason-not-judged or None)."""
    kind = _kind(acc)
    try:
        a = np.array(acc)
    except Exception:
        return None, kind, 'unconvertible-input'
    if a.ndim != 1:
        return a, kind, 'not-1d-input'
    if a.dtype.kind == 'c':
        return a, kind, 'complex-input'
    if a.dtype.kind not in 'fiub':
        return a, kind, 'non-numeric-input'
    if len(a) < LEN_MIN or len(a) > LEN_MAX:
        return a, kind, 'length-outside-4..1024'
    if not np.all(np.isfinite(a.astype(float))):
        return a, kind, 'non-finite-input'
    return a, kind, None


def _fac(a):
    """Tolerance multiplier for reduced-precision float input."""
    if a.dtype.kind == 'f' and a.dtype.itemsize < 8:
        return float(np.finfo(a.dtype).eps / np.finfo(float).eps)
    return 1.0


def _par(n):
    return 'odd' if n % 2 else 'even'


def _wit(fn, rec, kind, **kw):
    d = {'fn': fn, 'record': np.asarray(rec), 'container': kind}
    d.update(kw)
    return d


def _container(rec, kind):
    """Rebuild the container a witness describes."""
    a = np.asarray(rec)
    if kind == 'list':
        return a.tolist()
    if kind == 'tuple':
        return tuple(a.tolist())
    if kind.startswith('ndarray:'):
        return np.array(a, dtype=kind.split(':', 1)[1])
    return np.array(a)


# ------------------------------------------------------------------------------------------------------ monitors
def check_transform(ctx, impl, rec, kind, result):
    """Post-condition of one execution of `impl` on the (pre-call copy of the) record."""
    n = len(rec)
    par = _par(n)
    n_pts = 2 * (n // 2)
    xe = O.even_part(rec)
    scale = float(np.sum(np.abs(xe)))
    fac = _fac(rec)
    res = np.asarray(result)
    shape_ok = res.ndim == 2 and res.shape == (n_pts // 2, n_pts) and res.dtype.kind == 'c'
    ctx.check(shape_ok, 'shape==(n/2,n)[%s]' % par, lambda: _wit(impl, rec, kind),
              '%s(record of length %d) returned %s array of shape %s, expected complex (%d, %d)'
              % (impl, n, res.dtype, res.shape, n_pts // 2, n_pts))
    if not shape_ok:
        return False
    ref, h = _oracle(xe)
    ok, idx, e, a = tol.worst(res, ref, scale=scale, rtol=RTOL * fac)
    ctx.check(ok, '%s==definition[%s]' % (impl, par), lambda: _wit(impl, rec, kind, worst_cell=list(idx or ())),
              '%s(len %d): cell %s (voice n=%s, time j=%s) is %r, conj of the defining sum is %r; |diff|=%.3g allowed %.3g'
              % (impl, n, idx, (n_pts // 2 - idx[0]) if idx else None, idx[1] if idx else None,
                 complex(res[idx]) if idx else None, complex(ref[idx]) if idx else None, e, a))
    rows = res.sum(axis=1)
    mg = O.marginal(h)
    ok2, idx2, e2, a2 = tol.worst(rows, mg, scale=n_pts * scale, rtol=RTOL * fac)
    ctx.check(ok2, 'row-sum==conj(X_n)[%s]' % par, lambda: _wit(impl, rec, kind),
              '%s(len %d): sum over time of row %s (voice n=%s) is %r, conj Fourier coefficient is %r; |diff|=%.3g allowed %.3g'
              % (impl, n, idx2, (n_pts // 2 - idx2[0]) if idx2 else None, complex(rows[idx2]) if idx2 else None,
                 complex(mg[idx2]) if idx2 else None, e2, a2))
    return True


def _pre_transform(args, kwargs):
    acc = args[0] if args else kwargs.get('acc')
    return _intake(acc)


def _post_transform_factory(impl):
    def post(args, kwargs, result, pre):
        ctx = CTX
        rec, kind, skip = pre
        if skip:
            ctx.observe('%s:%s' % (impl, skip))
            return
        if not check_transform(ctx, impl, rec, kind, result):
            return
        REG.put(result, {'record': rec, 'kind': kind, 'impl': impl, 'derived': None})
        if impl == 'transform_w_scipy_fft':
            import eqsig
            par = _par(len(rec))
            try:
                with attach.paused():
                    other = eqsig.stockwell.transform(_container(rec, kind))
            except Exception as ex:
                ctx.exception('implementations-agree[%s]' % par, _wit('transform', rec, kind), ex)
                return
            scale = float(np.sum(np.abs(O.even_part(rec))))
            ok, idx, e, a = tol.worst(np.asarray(result), np.asarray(other), scale=scale, rtol=RTOL * _fac(rec))
            ctx.check(ok, 'implementations-agree[%s]' % par, lambda: _wit(impl, rec, kind),
                      'transform and transform_w_scipy_fft differ on a record of length %d: cell %s |diff|=%.3g allowed %.3g'
                      % (len(rec), idx, e, a))
    return post


def _post_itransform(args, kwargs, result, pre):
    ctx = CTX
    stock = args[0] if args else kwargs.get('stock')
    info = REG.get(stock)
    if info is None or info.get('derived'):
        ctx.observe('itransform:input-not-a-monitored-transform')
        return
    rec, kind = info['record'], info['kind']
    n = len(rec)
    par = _par(n)
    n_pts = 2 * (n // 2)
    target = O.inverse_target(rec)
    peak = float(np.max(np.abs(O.even_part(rec))))
    res = np.asarray(result)
    ok = res.shape == (n_pts,) and res.dtype.kind == 'f'
    e = a = float('nan')
    idx = None
    if ok:
        ok, idx, e, a = tol.worst(res, target, scale=n_pts * peak, rtol=RTOL * _fac(rec))
    ctx.check(ok, 'inverse==record-mean-nyquist[%s]' % par, lambda: _wit('itransform', rec, kind, impl=info['impl']),
              'itransform(%s(record of length %d)) has shape %s dtype %s; worst sample %s |diff|=%.3g allowed %.3g '
              '(target = record - mean - Nyquist component)' % (info['impl'], n, res.shape, res.dtype, idx, e, a))


def check_maxfreq(ctx, via, rec, kind, dt, tifq, result, wit):
    n = len(rec)
    par = _par(n)
    n_pts = 2 * (n // 2)
    try:
        dtf = float(dt)
    except Exception:
        dtf = float('nan')
    if not (dtf > 0 and math.isfinite(dtf)):
        ctx.observe('maxfreq(%s):dt-not-positive-finite' % via)
        return
    res = np.asarray(result)
    amp = np.abs(np.asarray(tifq))
    # (1) every entry is the grid frequency n/(N dt), n in 1..N/2, of a row that attains the column maximum
    ok = res.shape == (n_pts,) and res.dtype.kind in 'fiu' and bool(np.all(np.isfinite(res)))
    why = 'shape %s dtype %s' % (res.shape, res.dtype)
    if ok:
        nn = res.astype(float) * n_pts * dtf
        r = np.rint(nn)
        on_grid = (np.abs(nn - r) <= 1e-9 * np.maximum(1.0, np.abs(r))) & (r >= 1) & (r <= n_pts // 2)
        if not np.all(on_grid):
            j = int(np.argmin(on_grid))
            ok = False
            why = 'entry %d = %r is not a grid frequency n/(N dt), n in 1..%d (N=%d, dt=%r; n would be %r)' \
                  % (j, float(res[j]), n_pts // 2, n_pts, dtf, float(nn[j]))
        else:
            rows = (n_pts // 2 - r).astype(int)
            cols = np.arange(n_pts)
            picked = amp[rows, cols]
            colmax = amp.max(axis=0)
            good = picked >= colmax * (1 - 1e-12)
            if not np.all(good):
                j = int(np.argmin(good))
                ok = False
                why = ('entry %d = %r is the frequency of voice n=%d whose modulus %.6g is below the column maximum %.6g '
                       '(voice n=%d)' % (j, float(res[j]), int(r[j]), float(picked[j]), float(colmax[j]),
                                         n_pts // 2 - int(np.argmax(amp[:, j]))))
    ctx.check(ok, 'maxfreq(%s).is-frequency-of-column-max[%s]' % (via, par), wit,
              'dominant-frequency trace (len %d, dt=%r): %s' % (n, dtf, why))
    # (2) on-grid sinusoid inside [2nd harmonic, 3/4 Nyquist]: trace == k/(N dt) on the middle half
    k = _harmonic(O.even_part(rec))
    lo, hi = O.harmonic_range(n_pts)
    if k is None or not (lo <= k <= hi):
        ctx.observe('maxfreq(%s):record-not-an-in-range-on-grid-sinusoid' % via)
        return
    f = k / (n_pts * dtf)
    a, b = -(-n_pts // 4), (3 * n_pts) // 4
    ok = res.shape == (n_pts,) and res.dtype.kind in 'fiu'
    why = 'shape %s' % (res.shape,)
    if ok:
        mid = res[a:b].astype(float)
        with np.errstate(invalid='ignore'):
            bad = ~(np.abs(mid - f) <= RTOL_FREQ * f)
        if np.any(bad):
            j = int(np.argmax(bad))
            ok = False
            why = 'sample %d reports %r (%d of %d middle-half samples differ)' % (a + j, float(mid[j]), int(bad.sum()), b - a)
    ctx.check(ok, 'maxfreq(%s)==f.middle-half[%s]' % (via, par), wit,
              'sinusoid at harmonic k=%d of N=%d (record length %d), dt=%r, f=k/(N dt)=%r: %s' % (k, n_pts, n, dtf, f, why))


def _pre_maxfreq_asig(args, kwargs):
    asig = args[0] if args else kwargs.get('asig')
    return hasattr(asig, 'swtf')


def _post_maxfreq_asig(args, kwargs, result, had_swtf):
    ctx = CTX
    asig = args[0] if args else kwargs.get('asig')
    rec, kind, skip = _intake(asig.values)
    if skip:
        ctx.observe('maxfreq(asig):%s' % skip)
        return
    swtf = getattr(asig, 'swtf', None)
    info = REG.get(swtf)
    if info is None or info.get('derived') or core.digest(O.even_part(info['record'])) != core.digest(O.even_part(rec)):
        # a time-frequency array attached by the caller that is not a monitored transform of asig.values
        ctx.observe('maxfreq(asig):swtf-not-a-monitored-transform-of-values')
        return
    dt = asig.dt
    check_maxfreq(ctx, 'asig', rec, kind, dt, swtf, result,
                  lambda: _wit('get_max_stockwell_freq', rec, kind, dt=dt, preset_swtf=bool(had_swtf)))


def _post_maxfreq_tifq(args, kwargs, result, pre):
    ctx = CTX
    tifq = args[0] if args else kwargs.get('tifq_values')
    dt = args[1] if len(args) > 1 else kwargs.get('dt')
    info = REG.get(tifq)
    if info is None:
        ctx.observe('maxfreq(tifq):input-of-unknown-provenance')
        return
    rec, kind = info['record'], info['kind']
    check_maxfreq(ctx, 'tifq', rec, kind, dt, tifq, result,
                  lambda: _wit('get_max_tifq_vals_freq', rec, kind, dt=dt, impl=info['impl'], derived=info.get('derived')))


def install(ctx):
    """Attach the C15 monitors to the imported eqsig (idempotent per process)."""
    global CTX
    CTX = ctx
    import eqsig
    sw = eqsig.stockwell
    if getattr(sw.transform, '__vf_c15__', False):
        return
    for impl in IMPLS:
        w = attach.wrap(sw, impl, _post_transform_factory(impl), pre=_pre_transform)
        w.__vf_c15__ = True
    attach.wrap(sw, 'itransform', _post_itransform)
    attach.wrap(sw, 'get_max_stockwell_freq', _post_maxfreq_asig, pre=_pre_maxfreq_asig)
    attach.wrap(sw, 'get_max_tifq_vals_freq', _post_maxfreq_tifq)


# ------------------------------------------------------------------------------------------------------ driver
def _call(ctx, clause, wit, fn, *a):
    """Call a real function; an exception on in-domain input is a violation of `clause`."""
    try:
        return fn(*a)
    except Exception as ex:   # noqa
        ctx.exception(clause, wit() if callable(wit) else wit, ex)
        return None


def drive_linearity(ctx, eqsig, impl, x, y, a, b):
    """T(a x + b y) == a T(x) + b T(y), all three through the monitored function."""
    sw = eqsig.stockwell
    f = getattr(sw, impl)
    par = _par(len(x))
    clause = 'linearity[%s]' % par
    wit = lambda: {'fn': 'linearity', 'impl': impl, 'record': np.asarray(x), 'record2': np.asarray(y), 'a': a, 'b': b,  # noqa
                   'container': _kind(x)}
    z = a * x + b * y
    sx = _call(ctx, clause, wit, f, x.copy())
    sy = _call(ctx, clause, wit, f, y.copy())
    sz = _call(ctx, clause, wit, f, z.copy())
    if sx is None or sy is None or sz is None:
        return
    scale = abs(a) * float(np.sum(np.abs(O.even_part(x)))) + abs(b) * float(np.sum(np.abs(O.even_part(y))))
    ok, idx, e, al = tol.worst(np.asarray(sz), a * np.asarray(sx) + b * np.asarray(sy), scale=scale, rtol=RTOL)
    ctx.check(ok, clause, wit, '%s(a x + b y) != a %s(x) + b %s(y) for a=%r b=%r, length %d: cell %s |diff|=%.3g allowed %.3g'
              % (impl, impl, impl, a, b, len(x), idx, e, al))


def drive_record(ctx, eqsig, cont, dt, impl_for_inverse, use_abs):
    """Both implementations, the inverse of one of them, the dominant-frequency helper on one of them."""
    sw = eqsig.stockwell
    kind = _kind(cont)
    rec = np.array(cont)
    par = _par(len(rec))

    def fresh():
        return _container(rec, kind)
    s1 = _call(ctx, 'transform==definition[%s]' % par, lambda: _wit('transform', rec, kind), sw.transform, fresh())
    s2 = _call(ctx, 'transform_w_scipy_fft==definition[%s]' % par, lambda: _wit('transform_w_scipy_fft', rec, kind),
               sw.transform_w_scipy_fft, fresh())
    s = s1 if impl_for_inverse == 'transform' else s2
    if s is None:
        return
    _call(ctx, 'inverse==record-mean-nyquist[%s]' % par, lambda: _wit('itransform', rec, kind, impl=impl_for_inverse),
          sw.itransform, s)
    other = s2 if s is s1 else s1
    if other is not None:
        t = other
        if use_abs:
            t = np.abs(other)
            remember(t, other)
        _call(ctx, 'maxfreq(tifq).is-frequency-of-column-max[%s]' % par,
              lambda: _wit('get_max_tifq_vals_freq', rec, kind, dt=dt, impl=IMPLS[0] if other is s1 else IMPLS[1],
                           derived='abs' if use_abs else None), sw.get_max_tifq_vals_freq, t, dt)


def drive_sinusoid(ctx, eqsig, x, dts, impl, use_abs, as_list=False):
    """One sinusoid record through get_max_stockwell_freq(AccSignal) and get_max_tifq_vals_freq for every dt."""
    sw = eqsig.stockwell
    par = _par(len(x))
    kind = _kind(x)
    s = _call(ctx, '%s==definition[%s]' % (impl, par), lambda: _wit(impl, x, kind), getattr(sw, impl), x.copy())
    t = s
    if s is not None:
        _call(ctx, 'inverse==record-mean-nyquist[%s]' % par, lambda: _wit('itransform', x, kind, impl=impl), sw.itransform, s)
    if s is not None and use_abs:
        t = np.abs(s)
        remember(t, s)
    for dt in dts:
        wit = lambda: _wit('get_max_stockwell_freq', x, kind, dt=dt, preset_swtf=False)  # noqa
        try:
            asig = eqsig.AccSignal(x.tolist() if as_list else x.copy(), dt)
            sw.get_max_stockwell_freq(asig)
        except Exception as ex:
            ctx.exception('maxfreq(asig)==f.middle-half[%s]' % par, wit(), ex)
        if t is not None:
            _call(ctx, 'maxfreq(tifq)==f.middle-half[%s]' % par,
                  lambda: _wit('get_max_tifq_vals_freq', x, kind, dt=dt, impl=impl, derived='abs' if use_abs else None),
                  sw.get_max_tifq_vals_freq, t, dt)


def sinusoid(rng, length, k):
    """Stationary sinusoid at harmonic k of the even-truncated length; random phase, amplitude 10^U(-2,2) or 1."""
    n_pts = 2 * (length // 2)
    ph = rng.uniform(0, 2 * np.pi)
    amp = 1.0 if rng.random() < 0.5 else 10.0 ** rng.uniform(-2, 2)
    j = np.arange(length)
    return amp * np.sin(2 * np.pi * ((j * k) % n_pts) / n_pts + ph)


def draw_dts(rng, idx, count):
    """count time steps cycling deterministically through the nice decimals and the 1/k floor-trap list (so that every
    listed value meets many lengths), plus 1/k for random integer k and log-uniform draws."""
    out = []
    for c in range(count):
        sel = c % 6
        if sel == 0:
            out.append(float(gen.NICE_DT[(idx + c // 6) % len(gen.NICE_DT)]))
        elif sel == 1:
            out.append(1.0 / gen.RECIP_K[(idx + c // 6) % len(gen.RECIP_K)])
        elif sel == 2:
            out.append(float(10.0 ** rng.uniform(-4, 1)))
        elif sel == 3:
            out.append(float(gen.NICE_DT[(3 * idx + 5 + c // 6) % len(gen.NICE_DT)]))
        elif sel == 4:
            out.append(1.0 / int(rng.integers(2, 1001)))
        else:
            out.append(gen.dt(rng, 'log'))
    return out


CLASSES_A = ['noise', 'quake', 'walk', 'chirp', 'impulse', 'plateau', 'beat', 'step', 'hat', 'alt', 'zeropad', 'intnoise',
             'sine', 'const']


def build_items(tier):
    """Deterministic work list (kind, params), ordered by decreasing cost so that round-robin sharding balances."""
    items = []
    quick = tier == 'quick'
    # -- sinusoids at sampled large lengths: even N and an odd partner (N+1, or N-1 at the top of the range)
    if quick:
        big = sorted(set(list(range(280, 1025, 31)) + [512, 768, 1000, 1022, 1024]))
    else:
        big = list(range(522, 1025, 2))                # EVERY even N above the sin-everyN block
    for n in big:
        items.append(('sin-sampled', (n,)))
        items.append(('sin-sampled', (n + 1 if n < LEN_MAX else n - 1,)))
    # -- definition at sampled lengths above 64
    if quick:
        fixed = [65, 66, 96, 97, 100, 101, 127, 128, 129, 130, 191, 192, 200, 201, 255, 256]
        n_random = 32
    else:
        fixed = [65, 66, 100, 101, 127, 128, 129, 255, 256, 257, 300, 301, 383, 384, 500, 501, 511, 512, 513, 640, 641,
                 767, 768, 999, 1000, 1001, 1021, 1022, 1023, 1024]
        n_random = 40
    for n in fixed:
        for c in range(2):
            items.append(('def', (n, c)))
    for c in range(n_random):
        items.append(('def', (None, c)))               # random length 65..256 (quick) / 65..1024 (thorough)
    # -- every harmonic for selected N (and the odd length N+1)
    all_k_n = [16, 32, 64, 100, 128] if quick else [16, 32, 50, 64, 72, 100, 128, 150, 200, 256, 300, 400, 512, 640]
    for n in all_k_n:
        lo, hi = O.harmonic_range(n)
        for k in range(lo, hi + 1):
            items.append(('sin-allk', (n, k)))
            items.append(('sin-allk', (n + 1, k)))
    # -- every even N and the odd N+1, harmonics {2, kmax, random}
    top = 260 if quick else 520
    for n in range(16, top + 1, 2):
        items.append(('sin-everyN', (n,)))
        items.append(('sin-everyN', (n + 1,)))
    # -- definition at every length 4..64, every record class (thorough: twice)
    reps = len(CLASSES_A) * (1 if quick else 2)
    for n in range(4, 65):
        for c in range(reps):
            items.append(('def', (n, c)))

    def cost(it):
        kind, p = it
        n = p[0] if p[0] is not None else (160 if quick else 550)
        return float(n) ** 3 * {'def': 3.0, 'sin-everyN': 3.0}.get(kind, 1.0)
    items.sort(key=cost, reverse=True)
    return items


def _record_for(rng, n, c):
    cls = CLASSES_A[c % len(CLASSES_A)]
    x, cls = gen.record(rng, n, cls=cls)
    # container: mostly float64 arrays; the others take turns
    r = rng.random()
    if r < 0.55:
        cont, ck = x, 'f64'
    elif r < 0.7:
        cont, ck = [float(v) for v in x], 'list'
    elif r < 0.8:
        cont, ck = tuple(float(v) for v in x), 'tuple'
    elif r < 0.9:
        cont, ck = x.astype(np.float32), 'f32'
    else:
        if np.all(x == np.round(x)) and np.max(np.abs(x)) < 2 ** 53:
            cont, ck = x.astype(np.int64), 'i64'
        else:
            cont, ck = x, 'f64'
    return cont, cls, ck


def run_item(ctx, eqsig, rng, idx, item):
    kind, p = item
    quick = ctx.tier == 'quick'
    if kind == 'def':
        n, c = p
        if n is None:
            n = int(rng.integers(65, (257 if quick else 1025)))
        cont, cls, ck = _record_for(rng, n, c)
        dt = gen.dt(rng)
        impl_inv = IMPLS[(idx + c) % 2]
        use_abs = bool((idx // 2 + c) % 2)
        rec = np.array(cont)
        ctx.case(core.digest(rec, ck, dt, 'def'), nontrivial=len(set(rec.tolist())) > 1, cls='def-%s-%s-%s' % (cls, ck, _par(n)),
                 sample={'fn': 'transform+transform_w_scipy_fft+itransform+get_max_tifq_vals_freq', 'n': n, 'class': cls,
                         'container': ck, 'dt': dt, 'head': rec[:6]})
        drive_record(ctx, eqsig, cont, dt, impl_inv, use_abs)
        # linearity on float64 records: every case up to length 64, every second one above
        if n <= 64 and c % 2 == 0 or n > 64:
            x = np.asarray(rec, dtype=float)
            y, _ = gen.record(rng, n, cls=['noise', 'quake', 'walk', 'chirp'][int(rng.integers(4))])
            ab = [(2.0, -0.5), (1.0, 1.0), (float(rng.normal()), float(rng.normal())), (1024.0, 0.0),
                  (float(10.0 ** rng.uniform(-3, 3)), -float(10.0 ** rng.uniform(-3, 3)))][int(rng.integers(5))]
            drive_linearity(ctx, eqsig, IMPLS[(idx // 3) % 2], x, y, ab[0], ab[1])
        return
    # sinusoid items
    if kind == 'sin-allk':
        length, k = p
        ks = [k]
        ndt = 2 if quick else 3
    elif kind == 'sin-everyN':
        length = p[0]
        lo, hi = O.harmonic_range(2 * (length // 2))
        ks = [lo, hi, int(rng.integers(lo, hi + 1))]
        ndt = 8
    else:
        length = p[0]
        lo, hi = O.harmonic_range(2 * (length // 2))
        ks = [[lo, hi, int(rng.integers(lo, hi + 1))][idx % 3]]
        ndt = 4
    for r, k in enumerate(ks):
        x = sinusoid(rng, length, k)
        dts = draw_dts(rng, idx * 3 + r, ndt)
        impl = IMPLS[r % 2] if kind == 'sin-everyN' else (IMPLS[0] if idx % 3 else IMPLS[1])   # tifq path only
        use_abs = bool((idx + r) % 2)
        ctx.case(core.digest(x, dts, impl, use_abs), nontrivial=True, cls='%s-%s' % (kind, _par(length)),
                 sample={'fn': 'get_max_stockwell_freq(AccSignal)+get_max_tifq_vals_freq', 'n': length, 'harmonic': k,
                         'dts': dts, 'impl': impl, 'modulus': use_abs, 'head': x[:6]})
        drive_sinusoid(ctx, eqsig, x, dts, impl, use_abs, as_list=bool((idx + r) % 5 == 0))


def oracle_selfcheck(ctx, rng):
    """The vectorised reference against the literal scalar triple loop (short records, both parities)."""
    for n in range(4, 15):
        if (n - 4) % ctx.nshards != ctx.shard:
            continue
        x = rng.normal(size=n)
        a, _ = O.s_transform_conj(x)
        b = O.s_transform_conj_scalar(x)
        ok, idx, e, al = tol.worst(a, b, scale=float(np.sum(np.abs(x))), rtol=1e-14)
        ctx.check(ok, 'oracle.vectorised==scalar', lambda: {'fn': 'oracle', 'record': x},
                  'reference implementations disagree at %s by %.3g' % (idx, e))


def run_shard(ctx):
    eqsig = core.import_eqsig()
    install(ctx)
    rng = ctx.rng
    oracle_selfcheck(ctx, rng)
    items = build_items(ctx.tier)
    for idx in core.split_range(len(items), ctx.shard, ctx.nshards):
        if ctx.out_of_time():
            ctx.observe('items-skipped-out-of-time')
            continue
        run_item(ctx, eqsig, rng, idx, items[idx])
    ctx.note('work_items_total', len(items))
    ctx.note('monitored_calls', dict(attach.CALLS))


# ------------------------------------------------------------------------------------------------------ replay
def replay(w):
    """Re-execute one witness against the current tree; return the list of violation messages."""
    eqsig = core.import_eqsig()
    ctx = core.Ctx(PROP_ID, 'quick', 0, 0, 1)
    install(ctx)
    sw = eqsig.stockwell
    fn = w.get('fn')
    kind = w.get('container', 'ndarray:float64')
    rec = np.asarray(w['record'])
    if fn == 'oracle':
        a, _ = O.s_transform_conj(rec)
        b = O.s_transform_conj_scalar(rec)
        ok, idx, e, al = tol.worst(a, b, scale=float(np.sum(np.abs(rec))), rtol=1e-14)
        return [] if ok else ['oracle.vectorised==scalar: %s %.3g' % (idx, e)]
    try:
        if fn == 'linearity':
            drive_linearity(ctx, eqsig, w['impl'], np.asarray(rec, dtype=float), np.asarray(w['record2'], dtype=float),
                            w['a'], w['b'])
        elif fn in IMPLS:
            getattr(sw, fn)(_container(rec, kind))
        elif fn == 'itransform':
            s = getattr(sw, w.get('impl', 'transform'))(_container(rec, kind))
            sw.itransform(s)
        elif fn == 'get_max_stockwell_freq':
            asig = eqsig.AccSignal(_container(rec, kind), w['dt'])
            sw.get_max_stockwell_freq(asig)
        elif fn == 'get_max_tifq_vals_freq':
            s = getattr(sw, w.get('impl', 'transform'))(_container(rec, kind))
            t = s
            if w.get('derived') == 'abs':
                t = np.abs(s)
                remember(t, s)
            sw.get_max_tifq_vals_freq(t, w['dt'])
        else:
            return ['unknown witness kind %r' % fn]
    except Exception as ex:   # an exception on the recorded in-domain input still refutes
        ctx.exception('replay', w, ex)
    return ['%s: %s' % (v['clause'], v['msg']) for v in ctx.violations]
