"""C06 - Fourier amplitude spectrum = dt x DFT of the zero-padded record, on the stated grid.

Monitors (post-conditions on every execution, wherever the call comes from):
  Signal.gen_fa_spectrum, the lazy properties Signal.fa_spectrum / Signal.fa_freqs, generate_fa_spectrum,
  calc_fa_spectrum   -> number of bins, every bin against the direct-sum DFT oracle, frequency grid, Parseval;
  (a lazy read whose object's values changed since its spectrum was last generated is judged against the CURRENT
  values under the clauses lazy-after-mutation.*; the workload drives read -> public mutator(s) -> read histories);
  fas2values / fas2signal -> length, real-valuedness, forward spectrum of the result equals the given bins, the
                             spectrum array passed in is bit-for-bit unchanged (it may be an object's cached spectrum);
  im.max_fa_period   -> the reported period is that of a largest-amplitude bin.
Every monitored call is judged against a snapshot of the record taken at call entry, and the record must be bit-for-bit
unchanged afterwards (argument-unchanged[record]).
Relations between executions (checked by the driver on the returned values): object == array level, linearity,
trailing zeros that keep N, round trip record -> spectrum -> inverse helper, results held from a first record intact
after a second record of the same shape went through the same paths (back-to-back.first-result-intact).
Round 3 (checklist items 22-27): histories with copy.copy / copy.deepcopy / pickle round trips in every cache state
(copy-protocol.*), assignment through every public attribute name (after-assignment.*), operations that raise or that
silently make the record non-finite (after-raise.*, non-finite-record.spectrum-of-current-values), f(A); f(B); f(A) at
non-default options with B of the same and of another shape (aba.third==first, bit for bit).
Round 4: explicit gen_fa_spectrum(p2_plus | n) -> reads / analysis calls of OTHER derived quantities -> spectrum reads, judged
by the driver on the N it asked for (after-readers.*): a reader that silently regenerates the default spectrum passes every
monitor, because the monitors see a correct explicit default generation.
Round 5 (checklist items 28-33): every scalar form of dt / n / p2_plus / n_pad incl. MUTABLE 0-d arrays (judged on the value at
call entry; argument-unchanged[0-d scalar]), on/off records of bool dtype, user-given settings outside the band of the data
(settings-unchanged-by-spectrum-calls), results overwritten by the caller before the call is repeated
(result-owned.repeat-after-overwrite==first).
"""
import copy
import pickle
import weakref

import numpy as np

from vf import attach, core, gen, tol
from vf.oracles import dft as O

PROP_ID = 'C06'
TECHNIQUE = ('runtime post-condition monitors against a direct-sum DFT oracle (no FFT); trace relations for linearity, '
             'trailing zeros, Parseval, object/array agreement and the inverse round trip')
RTOL_BIN = 1e-10       # per bin, relative to dt*sum|x|   (DESIGN 5/C06 (d))
RTOL_FREQ = 1e-13      # per frequency, relative to the frequency itself
RTOL_TIE = 1e-12       # amplitude tie for the dominant period
RTOL_PARSEVAL = 1e-9   # relative to dt*sum x^2 (all terms non-negative)
RTOL_INV = 1e-10       # inverse helper, relative to max|x| (round trip) / to the bound 2*sum|fas|/(N*dt) (real part)
FULL_N = 4096          # every bin is compared up to this N; above it a deterministic sample of N_SAMPLED bins
N_SAMPLED = 256        # (64 bins above N = 32768: the few long records past 2**16)
# single-precision class: numpy transforms a float32 record in float32 (result complex64) and a np.float32 dt makes N*dt a
# float32 product; such inputs are judged with tolerances of that precision class instead of being skipped
LOOSE = {'bin': 1e-5, 'freq': 1e-6, 'parseval': 1e-4, 'inv': 1e-5}
TIGHT = {'bin': RTOL_BIN, 'freq': RTOL_FREQ, 'parseval': RTOL_PARSEVAL, 'inv': RTOL_INV}

RULE = ('case = (record, dt, Signal|AccSignal, p2_plus, explicit n); each case runs the lazy default spectrum, '
        'gen_fa_spectrum(p2_plus), gen_fa_spectrum(n), [gen_fa_spectrum(p2_plus, n) together], generate_fa_spectrum(n_pad '
        'True/False), calc_fa_spectrum() / (p2_plus) / (n), fas2values, fas2signal and max_fa_period through the public '
        'names; relation cases add a second record (linearity), trailing zeros, or a second record of the same shape '
        'processed back to back while the first results are held, or the two-function sequence record -> spectrum -> '
        'fas2signal -> the returned (complex-valued) Signal/AccSignal asked for fa_spectrum / fa_freqs / max_fa_period / '
        'gen_fa_spectrum(p2_plus) / (n) and the array-level functions. Lengths: EVERY npts 2..130 (x4 quick, x12 thorough; '
        'explicit n cycles through npts, npts+1, next odd, next even, next pow2, random), every 2^e-1, 2^e, 2^e+1 up to 2048 '
        '(thorough 4096), log-uniform random lengths up to 2048 (thorough 4096), 4 (thorough 32) records just past 2**16. '
        'Record forms: float64, float32, int64, int32/int16/int8/uint8/uint16 filling the dtype range, lists/tuples of '
        'floats, of ints, mixed, strided / reversed views, read-only arrays; amplitudes 1e-12..1e12, 1e-3 signal on a 1e6 '
        'offset, extreme at the first/last sample, flat ends; dt: vf/gen.py classes, decades 1e-9..1e3, int, np.float64, '
        'np.float32, gen.awkward_dt; record shapes one-sided, monotone, tail-heavy, one changed sample, added Nyquist '
        'component, one sample 1e3..1e12 times the others, exact zeros inside; lengths 2^k-1, 2^k, 2^k+1 for k up to 17 '
        '(sampled bins); extreme but valid scales (gen.record(extreme=True), gen.special_scale: |x| 1e-300..1e-165 or '
        '1e155..1e300, 1e-150 next to 1e150 in one record, ripple on a baseline, counts above 2**24) in float64/list form '
        'with an ordinary dt; explicit n with a prime factor > 11 (46, 1018, 4684, ...) '
        '; explicit n also at and next to the powers of two above npts; integer options as int / np.int64 / np.int32, passed by keyword, positionally, or all-keyword; the '
        'spectrum handed to the inverse helpers as the object\'s own array, a caller array, list, tuple, read-only, '
        'strided view or complex64, the same object to 2-3 consecutive calls. '
        'distinct = digest(values, container, dt, class, options); non-trivial = record not identically zero. '
        'Object histories (Signal and AccSignal, optionally twin objects built from one caller array / from each other\'s '
        'values / reset to one array): steps in random order with repeats - reads of fa_spectrum / fa_freqs / '
        'fa_frequencies / max_fa_period, explicit gen_fa_spectrum(p2_plus|n), generate_/calc_fa_spectrum on the object, '
        'ONE or TWO public mutators (every mutator kind is the first one of a history in turn: reset_values '
        'same/shorter/longer, add_constant, add_series (also the object\'s own values), add_signal (also itself), '
        'butter_pass band/low/high with list/tuple/array cut-offs, remove_average, remove_poly 0..3, running_average; '
        'AccSignal also remove_rolling_average velocity/acceleration, rebase_displacement, set_zero_residual_velocity '
        'None/(t0,t1)/(t0,None), set_zero_residual_displacement, set_zero_residual_displacement_and_velocity '
        'None/(t0,t1)/(t0,None), correct_me), interaction steps fas2values / fas2signal(stype signal|acc) on the very '
        'array sig.fa_spectrum returns (record with a clearly non-zero mean) - each followed by reads under the lazy '
        'monitor; records >= 64 samples for filters and baseline corrections. '
        'Round 3: (22) histories on a Signal / AccSignal / eqsig.Cluster member: cache state cold | spectrum read | smoothed '
        'spectrum | velocity+displacement | peaks | response spectra | Stockwell memo | all of them (optionally after '
        'gen_fa_spectrum with non-default options) -> copy.copy | copy.deepcopy | pickle round trip (default and explicit '
        'protocols) -> reads, explicit regenerations, array-level calls and mutators on the copy AND on the original, copy '
        'first or original first (after copy.copy only the rebinding operations reset_values / add_constant; in-place '
        'corrections rebase_displacement, remove_rolling_average, set_zero_residual_* after deepcopy / pickle); (23) setattr '
        'through values, dt, npts, time, label, smooth_fa_freqs, smooth_fa_frequencies, response_times, fa_spectrum, fa_freqs, '
        'smooth_freq_range, smooth_freq_points, ccbox with list / tuple / ndarray values of 1, 2, 3, npts/2, npts, npts+1, '
        '2 npts+3 entries on a cold or warm object, then every entry point in random order, then a mutator and reads; (24) one '
        'or two refused operations (add_series longer / shorter, add_signal other dt / other length / not a signal, butter_pass '
        'with 3 corners / scalar / reversed / above Nyquist / (None, None) / record too short, reset_values ragged, remove_poly '
        '-1, remove_average / running_average / add_constant with a string, add_constant of the wrong shape, gen_fa_spectrum with n = 0 / negative / float or a string p2_plus, AccSignal '
        'remove_rolling_average too high, set_zero_residual_* with an unsupported timezone) or a silently accepted non-finite '
        'update (reset_values / add_constant / add_series with NaN or inf), then every entry point, then a reset to a finite '
        'record and reads; (25) f(A); f(B); f(A) for six of the eleven entry points per case at p2_plus 1..3 and an explicit n, '
        'B of the same / shorter / longer / half / double / +1 length and the same or another dt; (26) butter_pass corners '
        'within 1 % of the Nyquist frequency and below 1e-3 of it, explicit n 17..64 times the record length; (27) silent '
        '(all-zero) and strictly positive records in every container form, tuples for reset_values. '
        'Round 4 (readers): Signal / AccSignal / Cluster member / two objects on one caller array, npts 2..724 in every container '
        'form: [optional read or smoothed spectrum on the default grid] -> gen_fa_spectrum(p2_plus 1..3 | explicit n of every '
        'class | both | defaults as control; int / np.int64 / np.int32; optionally two generations, the last one counts) -> 1..4 '
        'reads / analysis calls that do not change the record, every one of them first in turn: smooth_fa_spectrum, '
        'gen_/generate_smooth_fa_spectrum (default, own frequencies, band), new smoothing frequencies through every setter + read, '
        'im.calc_bandwidth_freqs / f_min / f_max, get_sig_freq_range, custom smoothing matrix, array-level smoothing, '
        'fa_spectrum_abs, time / npts / values, section average, Stockwell (plot_stock memo, transform, max frequency), '
        'array-level generate_/calc_fa_spectrum, deepcopy / pickle copy analysed with other options, Fourier moments / Boore '
        'bandwidth, fas2values of the own spectrum; AccSignal also velocity, displacement, peaks, response spectra / series, '
        'cumulative / duration / all motion stats, every eqsig.im duration / intensity / period function -> fa_spectrum / '
        'fa_freqs / fa_frequencies / max_fa_period in random order (also between the readers), judged on the N the driver asked for. '
        'Round 5: (28) dt as float / int / np.float64 / np.float32 / np.int64 / np.int32 / 0-d float64, float32 and int64 ARRAY, '
        'n and p2_plus as int / np.int64 / np.int32 / 0-d int64 / int32 array, n_pad as True / np.True_ / 0-d bool array / 1 (and the '
        'False forms); ONE scalar object per case goes to every call of the case and is compared with its entry copy after each '
        'monitored call and at the end; a 0-d dt shared by the object(s) of a readers history; (29) on/off records as bool '
        'ndarray and list of Python bools (rectangular pulses, telegraph, sign of a record, alternating) through every entry '
        'point, bool arguments of reset_values / add_series / add_signal in the histories (two-sample records: every sweep starts '
        'at npts 2; one-sample / one-entry forms: probes, counted); (31) rel_settings: smooth_fa_freqs and response_times with '
        'entries above / at the Nyquist frequency, below the first bin, 0, periods <= 2 dt and beyond the record, sorted / '
        'descending / shuffled, list / tuple / ndarray, through the constructor keyword or either setter, then 3..8 of the 14 '
        'spectrum entry points and 2 value mutators (each first in turn), settings compared after every step with the driver\'s '
        'own copy; (32) rel_owned: 4 of the 7 array-level entry points / inverse helpers per case, object cold or warm on the '
        'default N / the same n / the same p2_plus, every returned array overwritten with 0 / -7250 / 1e300, then the same call on '
        'the same and on a fresh object.')
ASSUMPTIONS = ['scalar arguments: dt is a positive finite Python / NumPy float or integer scalar or a 0-d float / integer array; n and '
               'p2_plus are Python / NumPy integers or 0-d integer arrays; n_pad is judged by its truthiness (True, np.True_, 0-d '
               'bool array, 1); bool dt / bool p2_plus / one-entry arrays: counted, not judged. A 0-d array argument is judged on '
               'the value it had at call entry and must hold the same bits afterwards; a 0-d float32 dt belongs to the '
               'single-precision class',
               'bool-dtype (on/off) records are records: the library casts them to float; judged like any other record',
               'item 33 (several accepted conventions): the only either-or of this module is the memo of a copy (carried or '
               'regenerated), decided per read by the observed event "the read triggered a generation", never by fit; ties of '
               'max_fa_period are genuine ties of the oracle spectrum',
               'finite 1-D record of length >= 2, real or - as returned by the library\'s own fas2signal - complex (judged against '
               'the DFT of the complex values; Parseval only for real records); one-sample and float16 records: counted, not '
               'judged; dt > 0 finite',
               'single-precision class: numpy transforms a float32 record in float32 (complex64 result) and a np.float32 dt '
               'makes N*dt a float32 product; such inputs are judged with rtol 1e-5 (bins) / 1e-6 (frequencies) / 1e-4 '
               '(Parseval) instead of 1e-10 / 1e-13 / 1e-9',
               'explicit n >= npts (n < npts truncates: outside "zero-padded", counted, not judged); n given together with '
               'p2_plus: the requested n is the transform length',
               'p2_plus integer 0..3 (float or bool p2_plus: counted, not judged)',
               'every monitored call is judged against a snapshot of the record taken at call entry, never against the '
               'values after the call or a cached spectrum; max_fa_period is judged against the reported spectrum (tie '
               '1e-12) AND against the oracle spectrum of the record (slack = the per-bin tolerance)',
               'bins compared completely for N <= 4096, on 256 deterministic bins above, 64 above N = 32768',
               'round trip through the inverse helper judged for even N only (an odd N has no Nyquist bin); the '
               'function-level post-condition of fas2values/fas2signal is judged for every spectrum',
               'exceptions raised by a mutator inside an object history are counted, not judged (the mutators are C17); '
               'what is read or computed after it is judged against the current values in any case',
               'tolerances are relative to dt*sum|x| (bins), to each frequency, to dt*sum x^2 (Parseval, accumulated in double '
               'precision) and to max|x| (round trip): valid for every amplitude / dt / dynamic range generated (1e-12..1e12, '
               'dt 1e-9..1e3, spikes up to 1e12 x the rest); a bin is a global sum, so no local scale exists for it',
               'Parseval is judged only while the squares of the samples are normal doubles (1e-150 <= |x| <= 1e150); every '
               'other clause is linear or scale-free in the record and is judged at the extreme scales too',
               'oracle vf/oracles/dft.py is correct (direct sum with integer phase reduction; self-test at start-up)',
               'a record that holds NaN / inf (the library accepts it silently) has no finite spectrum: judged only for the '
               'number of bins, the frequency grid and "every reported bin is non-finite" (each term of the direct sum contains '
               'the non-finite sample) - a finite bin is the spectrum of an earlier record',
               'copies made by copy.copy / copy.deepcopy / pickle carry the spectrum memo of their source (N of the last explicit '
               'generation) or regenerate with the defaults on the first read - both accepted; after copy.copy only operations '
               'that bind a new value buffer are driven while the two objects share it',
               'an assignment through a public name is judged through what the object then reports: every spectrum is that of '
               'its CURRENT .values / .dt / len(values); whether the assignment is accepted, ignored or refused is counted only',
               'aba.third==first is bit-for-bit: the same NumPy routines on the same bits in one process are deterministic',
               'after-readers.*: a read or analysis call of another derived quantity (smoothed spectrum, bandwidth, velocity, '
               'peaks, response spectrum, Stockwell, duration / intensity measures, copies, new smoothing frequencies) does not '
               'change the record, so the spectrum the caller generated with p2_plus / n stays the reported one: N is what the '
               'driver passed to the last gen_fa_spectrum, not what the object or the monitors remember; readers that raise '
               '(np.trapz removals, bandwidth of a 1-bin spectrum) are counted; max_fa_period judged for N <= 4096']
MIN_EVALS = {   # about half of what a normal run reaches
    'quick': {'gen_fa_spectrum.bins==dt*DFT': 2500, 'lazy.bins==dt*DFT': 7000,
              'generate_fa_spectrum.bins==dt*DFT': 1200, 'calc_fa_spectrum.bins==dt*DFT': 2400,
              'gen_fa_spectrum.nbins==N//2': 2500, 'lazy.nbins==N//2': 7000,
              'generate_fa_spectrum.nbins==N//2': 1200, 'calc_fa_spectrum.nbins==N//2': 2400,
              'gen_fa_spectrum.freqs==k/(N*dt)': 2500, 'lazy.freqs==k/(N*dt)': 7000,
              'generate_fa_spectrum.freqs==k/(N*dt)': 1200, 'calc_fa_spectrum.freqs==k/(N*dt)': 2400,
              'parseval': 13000, 'object==array': 3200, 'linearity': 170, 'trailing-zeros': 170,
              'fas2values.length==2*nbins': 1600, 'fas2signal.length==2*nbins': 500, 'fas2values.real': 1600,
              'fas2signal.real': 500, 'fas2values.spectrum==fas': 1600, 'fas2signal.spectrum==fas': 500,
              'fas2signal.type+dt': 500, 'inverse.roundtrip==x_pad-mean-nyquist': 1400,
              'max_fa_period==1/f[argmax|F|]': 1000, 'lazy-after-mutation.bins==dt*DFT(current values)': 250,
              'lazy-after-mutation.nbins==N//2': 250, 'lazy-after-mutation.freqs==k/(N*dt)': 250,
              'fas2values.argument-unchanged': 1600, 'fas2signal.argument-unchanged': 500,
              'argument-unchanged[record]': 20000, 'back-to-back.first-result-intact': 800,
              'fas2signal-object.spectrum==source-bins': 170, 'signal-argument.public-state-unchanged': 20000,
              'copy-protocol.nbins==N//2': 4500, 'copy-protocol.bins==dt*DFT(own current values)': 4500,
              'copy-protocol.freqs==k/(N*dt)': 4500, 'after-assignment.nbins==N//2': 1100,
              'after-assignment.bins==dt*DFT(own current values)': 1100, 'after-assignment.freqs==k/(N*dt)': 1100,
              'after-raise.nbins==N//2': 1600, 'after-raise.bins==dt*DFT(own current values)': 1600,
              'after-raise.freqs==k/(N*dt)': 1600, 'non-finite-record.spectrum-of-current-values': 400,
              'aba.third==first': 1100, 'after-readers.nbins==N//2': 600, 'after-readers.bins==dt*DFT': 600,
              'after-readers.freqs==k/(N*dt)': 600, 'after-readers.max_fa_period-on-requested-grid': 170,
              'argument-unchanged[0-d scalar]': 4000, 'settings-unchanged-by-spectrum-calls': 600,
              'result-owned.repeat-after-overwrite==first': 600},
    'thorough': {'gen_fa_spectrum.bins==dt*DFT': 9500, 'lazy.bins==dt*DFT': 27000,
                 'generate_fa_spectrum.bins==dt*DFT': 4500, 'calc_fa_spectrum.bins==dt*DFT': 9000,
                 'gen_fa_spectrum.nbins==N//2': 9500, 'lazy.nbins==N//2': 27000,
                 'generate_fa_spectrum.nbins==N//2': 4500, 'calc_fa_spectrum.nbins==N//2': 9000,
                 'gen_fa_spectrum.freqs==k/(N*dt)': 9500, 'lazy.freqs==k/(N*dt)': 27000,
                 'generate_fa_spectrum.freqs==k/(N*dt)': 4500, 'calc_fa_spectrum.freqs==k/(N*dt)': 9000,
                 'parseval': 50000, 'object==array': 12000, 'linearity': 650, 'trailing-zeros': 650,
                 'fas2values.length==2*nbins': 6000, 'fas2signal.length==2*nbins': 2000, 'fas2values.real': 6000,
                 'fas2signal.real': 2000, 'fas2values.spectrum==fas': 6000, 'fas2signal.spectrum==fas': 2000,
                 'fas2signal.type+dt': 2000, 'inverse.roundtrip==x_pad-mean-nyquist': 5500,
                 'max_fa_period==1/f[argmax|F|]': 4000, 'lazy-after-mutation.bins==dt*DFT(current values)': 1600,
                 'lazy-after-mutation.nbins==N//2': 1600, 'lazy-after-mutation.freqs==k/(N*dt)': 1600,
                 'fas2values.argument-unchanged': 6000, 'fas2signal.argument-unchanged': 2000,
                 'argument-unchanged[record]': 90000, 'back-to-back.first-result-intact': 6000,
                 'fas2signal-object.spectrum==source-bins': 1000, 'signal-argument.public-state-unchanged': 90000,
                 'copy-protocol.nbins==N//2': 36000, 'copy-protocol.bins==dt*DFT(own current values)': 36000,
                 'copy-protocol.freqs==k/(N*dt)': 36000, 'after-assignment.nbins==N//2': 9000,
                 'after-assignment.bins==dt*DFT(own current values)': 9000, 'after-assignment.freqs==k/(N*dt)': 9000,
                 'after-raise.nbins==N//2': 13000, 'after-raise.bins==dt*DFT(own current values)': 13000,
                 'after-raise.freqs==k/(N*dt)': 13000, 'non-finite-record.spectrum-of-current-values': 3500,
                 'aba.third==first': 9000, 'after-readers.nbins==N//2': 4800, 'after-readers.bins==dt*DFT': 4800,
                 'after-readers.freqs==k/(N*dt)': 4800, 'after-readers.max_fa_period-on-requested-grid': 1500,
                 'argument-unchanged[0-d scalar]': 24000, 'settings-unchanged-by-spectrum-calls': 4800,
                 'result-owned.repeat-after-overwrite==first': 4800}}
EXHAUSTIVE = {'quick': 'every record length 2..130 (4 records each) through every entry point; every 2^e-1, 2^e, 2^e+1, e=3..11',
              'thorough': 'every record length 2..130 (12 records each) through every entry point; every 2^e-1, 2^e, 2^e+1, e=3..12'}

CTX = None
_LAST = {}      # id(signal) -> (weakref, p2_plus, n, N, digest(values)) of the last monitored gen_fa_spectrum on it
_HISTORY = [None]   # parameters of the object history being driven (only to make the monitor's witness replayable)
_DFT_CACHE = {}  # (digest(x_pad), bins tag) -> (ks, X)
_GEN_SEQ = [0]   # number of monitored gen_fa_spectrum returns (tells a property access that it triggered a generation)
_PHASE = [None]  # set by the history driver once a copy / an attribute assignment / a raising operation has happened in the
# history being driven: the lazy reads that follow are reported under the clause family of that name (same oracle)
NF_CLAUSE = 'non-finite-record.spectrum-of-current-values'


def n_shards(tier):
    return 16


# ---------------------------------------------------------------------------------------------------- helpers
def _bins_to_compare(N, M):
    """All M bins for N <= FULL_N, else a deterministic sample (first, last, middle + seeded draw)."""
    if N <= FULL_N or M <= N_SAMPLED:
        return np.arange(M, dtype=np.int64)
    r = np.random.default_rng([6, N, M])
    fixed = [0, 1, 2, 3, M // 2, M - 2, M - 1]
    count = N_SAMPLED if N <= 32768 else 64
    ks = np.unique(np.concatenate([np.array(fixed, dtype=np.int64), r.integers(0, M, size=count - len(fixed))]))
    return ks


def _oracle_bins(x_pad, ks, tag):
    """Direct-sum DFT of x_pad at bins ks; cached because one case sends the same padded record through several
    entry points (lazy / generate / calc(p2_plus=0) ...)."""
    key = (core.digest(np.ascontiguousarray(x_pad)), tag, len(ks))
    hit = _DFT_CACHE.get(key)
    if hit is not None:
        return hit
    X = O.dft_bins(x_pad, ks)
    if len(_DFT_CACHE) > 24:
        _DFT_CACHE.pop(next(iter(_DFT_CACHE)))
    _DFT_CACHE[key] = X
    return X


def _judge(ctx, cond, clause, wit, msg):
    """ctx.check with a lazily built message (msg: str or callable)."""
    if cond:
        ctx.ok(clause)
        return True
    ctx.violation(clause, wit() if callable(wit) else wit, msg() if callable(msg) else msg)
    return False


def _is_int(v):
    """Python int, NumPy integer scalar or 0-d integer array (round 5: every scalar form of n / p2_plus); never a bool."""
    if isinstance(v, np.ndarray):
        return v.ndim == 0 and v.dtype.kind in 'iu'
    return isinstance(v, (int, np.integer)) and not isinstance(v, (bool, np.bool_))


def _dt_ok(dt):
    """dt is a positive finite number in one of its scalar forms: Python float / int, NumPy float / integer scalar, 0-d
    float / integer array (mutable: snapshot it like any other array). Never a bool."""
    if isinstance(dt, np.ndarray):
        return dt.ndim == 0 and dt.dtype.kind in 'fiu' and (dt.dtype.kind != 'f' or dt.dtype.itemsize >= 4) \
            and bool(np.isfinite(dt)) and bool(dt > 0)
    if isinstance(dt, (bool, np.bool_)) or not isinstance(dt, (int, float, np.integer, np.floating)):
        return False
    return bool(np.isfinite(dt)) and bool(dt > 0)


def _dt_f32(dt):
    return isinstance(dt, np.float32) or (isinstance(dt, np.ndarray) and dt.dtype == np.float32)


def _frozen(v):
    """Entry-time copy of a scalar argument: a 0-d array is mutable (an in-place `dt /= k` / `n += 1` inside a function
    changes the caller's object), every other scalar form is immutable."""
    return v.copy() if isinstance(v, np.ndarray) else v


SCALAR_CLAUSE = 'argument-unchanged[0-d scalar]'


def _check_scalars_unchanged(ctx, where, wit, pairs):
    """pairs = [(name, live object, entry copy)]: every argument given as a 0-d array holds the same bits afterwards."""
    bad = [nm for nm, live, snap in pairs if isinstance(live, np.ndarray) and live.ndim == 0 and not _same_bits(live, snap)]
    if any(isinstance(live, np.ndarray) and live.ndim == 0 for _, live, _ in pairs):
        _judge(ctx, not bad, SCALAR_CLAUSE, wit,
               lambda: '%s changed the 0-d array(s) it was given as %s in place: %s' % (
                   where, bad, ['%r -> %r' % (snap, live) for nm, live, snap in pairs if nm in bad]))


def _record_of(ctx, sig):
    """(x as float64 copy, dt, tolerance class) when the signal is inside the quantifier, else None (counted)."""
    try:
        v = np.asarray(sig.values)
        dt = sig.dt
    except Exception:
        ctx.observe('out-of-domain: object without values/dt')
        return None
    if v.ndim != 1 or v.size < 2:
        ctx.observe('out-of-domain: record shorter than 2 or not 1-D')
        return None
    if v.dtype.kind not in 'fiucb':            # 'b': on/off records (the library casts them to float on purpose)
        ctx.observe('out-of-domain: non-numeric record dtype (%s)' % v.dtype.kind)
        return None
    if v.dtype.kind == 'f' and v.dtype.itemsize < 4:
        ctx.observe('not judged: %s record (half precision)' % v.dtype)
        return None
    loose = (v.dtype.kind == 'f' and v.dtype.itemsize == 4) or v.dtype == np.complex64 or _dt_f32(dt)
    x = v.astype(complex) if v.dtype.kind == 'c' else v.astype(float)     # complex: the record fas2signal hands back
    if not np.all(np.isfinite(x)):
        ctx.observe('out-of-domain: NaN/inf in record')
        return None
    if not _dt_ok(dt):
        ctx.observe('out-of-domain: dt not a positive finite number')
        return None
    return x, float(dt), (LOOSE if loose else TIGHT)


def _entry(ctx, sig):
    """State of a signal argument at CALL ENTRY: the record the result is judged against (never the values after the
    call, never a derived cache) and a raw copy for the purity clause and the witness."""
    try:
        raw = np.array(sig.values)
    except Exception:
        raw = None
    rec = _record_of(ctx, sig)
    dt_live = getattr(sig, 'dt', None)
    return {'rec': rec, 'raw': raw, 'dt': _frozen(dt_live), 'dt_live': dt_live, 'cls': type(sig).__name__,
            'pub': _public_state(sig), 'nf': _nonfinite_of(raw, dt_live) if rec is None else None}


def _nonfinite_of(raw, dt):
    """(npts, dt) for a 1-D float / complex record of length >= 2 that holds NaN or inf (the clean code accepts such
    records silently) and a valid dt; None otherwise."""
    if raw is None or raw.ndim != 1 or raw.size < 2 or raw.dtype.kind not in 'fc' or raw.dtype.itemsize < 4:
        return None
    if np.all(np.isfinite(raw)):
        return None
    if not _dt_ok(dt):
        return None
    return int(raw.size), float(dt), (LOOSE if (raw.dtype.itemsize == 4 or raw.dtype == np.complex64 or _dt_f32(dt)) else TIGHT)


def _public_state(sig):
    """Every public observable of a signal object that is not a lazily filled cache: the public instance attributes and
    values / dt / npts / smooth_fa_freqs / response_times (arrays copied)."""
    out = {}
    try:
        items = [(k, v) for k, v in vars(sig).items() if not k.startswith('_')]
    except TypeError:
        items = []
    for name in ('values', 'dt', 'npts', 'smooth_fa_freqs', 'response_times'):
        try:
            items.append((name, getattr(sig, name)))
        except Exception:
            pass
    for k, v in items:
        out[k] = np.array(v) if isinstance(v, np.ndarray) else v
    return out


def _public_diff(before, after):
    bad = sorted(set(before) ^ set(after))
    for k in set(before) & set(after):
        u, v = before[k], after[k]
        if isinstance(u, np.ndarray) or isinstance(v, np.ndarray):
            same = isinstance(u, np.ndarray) and isinstance(v, np.ndarray) and _same_bits(u, v)
        else:
            try:
                same = type(u) is type(v) and bool(u == v)
            except Exception:
                same = u is v
        if not same:
            bad.append(k)
    return bad


def _same_bits(a, b):
    return a.shape == b.shape and a.dtype == b.dtype and a.tobytes() == b.tobytes()


def _check_record_unchanged(ctx, where, wit, sig, st):
    """Computing or reading a spectrum does not change the record (bit for bit)."""
    if st['raw'] is None:
        return
    try:
        now = np.asarray(sig.values)
        same = _same_bits(now, st['raw'])
    except Exception:
        same = False
    _judge(ctx, same, 'argument-unchanged[record]', wit, '%s changed the values of the signal it was given' % where)
    _check_scalars_unchanged(ctx, where, wit, [('dt', st.get('dt_live'), st['dt'])])
    bad = _public_diff(st['pub'], _public_state(sig))
    _judge(ctx, not bad, 'signal-argument.public-state-unchanged', wit,
           '%s changed public observables of the signal it was given: %s' % (where, bad))


def _sig_wit(st, fn, **kw):
    """Witness from the entry state of the signal argument (values as they were when the call was made)."""
    dt = st['dt']
    d = {'fn': fn, 'values': st['raw'], 'dt': float(dt) if isinstance(dt, np.ndarray) and dt.ndim == 0 else dt, 'cls': st['cls'],
         'dt_form': _form_of(dt)}
    d.update(kw)
    for k in ('n', 'p2_plus', 'n_pad'):              # the scalar TYPE of an integer option / a flag is part of the case
        f = _form_of(kw.get(k))
        if f is not None and f != 'int' or (k == 'n_pad' and f == 'int'):
            d[k + '_form'] = f
            d[k] = bool(kw[k]) if k == 'n_pad' else int(kw[k])
    return d


def _form_of(v):
    """Name of the scalar form of v ('np.float32', '0d-float64', 'int', ...; None for a Python float / bool / None)."""
    if isinstance(v, np.ndarray) and v.ndim == 0:
        return '0d-' + v.dtype.name
    if isinstance(v, np.generic):
        return 'np.' + type(v).__name__
    if isinstance(v, int) and not isinstance(v, bool):
        return 'int'
    return None


# ---------------------------------------------------------------------------------------------------- monitors
def check_spectrum(ctx, where, wit, x, dt, N, fa, fr, bins_label='bins==dt*DFT', T=TIGHT):
    """The post-condition proper: fa, fr as reported for the record x zero-padded to N (N from the statement)."""
    if N < len(x):
        ctx.observe('not judged: n < npts (truncation)')
        return
    M = N // 2
    try:
        fa = np.asarray(fa)
        fr = np.asarray(fr)
        shape_ok = fa.shape == (M,) and fr.shape == (M,)
    except Exception:
        shape_ok = False
    if not _judge(ctx, shape_ok, where + '.nbins==N//2', wit,
                  '%s: npts=%d N=%d: %s spectrum bins and %s frequencies reported, expected floor(N/2)=%d'
                  % (where, len(x), N, np.shape(fa), np.shape(fr), M)):
        return
    x_pad = O.zero_pad(x, N)
    # bins
    ks = _bins_to_compare(N, M)
    ref = dt * _oracle_bins(x_pad, ks, 'fwd')
    scale = dt * float(np.sum(np.abs(x)))
    got = fa[ks]
    okb, idx, err, allowed = tol.worst(got, ref, scale=scale, rtol=T['bin'])
    _judge(ctx, okb, where + '.' + bins_label, wit,
           lambda: '%s: npts=%d N=%d dt=%r: bin %s reported %r, dt*DFT=%r, |diff|=%.3g allowed %.3g'
           % (where, len(x), N, dt, None if idx is None else int(ks[idx[0]]),
              None if idx is None else complex(got[idx]), None if idx is None else complex(ref[idx]), err, allowed))
    # frequency grid
    fref = O.frequencies(N, dt)
    okf, idx, err, allowed = tol.worst(fr, fref, scale=np.abs(fref), rtol=T['freq'])
    _judge(ctx, okf, where + '.freqs==k/(N*dt)', wit,
           lambda: '%s: npts=%d N=%d dt=%r: frequency of bin %s reported %r, k/(N*dt)=%r'
           % (where, len(x), N, dt, None if idx is None else idx[0], None if idx is None else float(fr[idx]),
              None if idx is None else float(fref[idx])))
    # Parseval on the reported bins + the unreported bin floor(N/2) from the record
    if np.iscomplexobj(x):
        return              # the one-sided identity needs the Hermitian symmetry of a real record
    peak = float(np.max(np.abs(x))) if len(x) else 0.0
    if peak > 1e150 or (peak > 0 and peak * min(dt, 1.0) < 1e-150):      # small samples next to large ones are harmless
        ctx.observe('parseval not judged: squares of the samples leave the range of normal doubles')
        return
    with np.errstate(all='ignore'):
        lhs, rhs = O.parseval_sides(x_pad, dt, fa)
    okp = bool(np.isfinite(rhs)) and abs(lhs - rhs) <= T['parseval'] * lhs
    _judge(ctx, okp, 'parseval', wit,
           '%s: npts=%d N=%d dt=%r: dt*sum x^2=%r but (|F0|^2+2 sum|Fk|^2+unreported)/(N dt)=%r' % (where, len(x), N, dt, lhs, rhs))


def check_nonfinite(ctx, where, wit, nf, N, fa, fr):
    """A record that holds NaN / inf (accepted silently by the library): every term of the direct sum dt*sum x_j w^(jk)
    contains the non-finite sample, so EVERY bin of the spectrum of the current values is non-finite; the number of bins
    and the frequency grid do not depend on the values. A finite bin is a spectrum of some other (earlier) record."""
    npts, dt, T = nf
    if N < npts:
        ctx.observe('not judged: n < npts (truncation)')
        return
    M = N // 2
    try:
        fa = np.asarray(fa)
        fr = np.asarray(fr)
        ok = fa.shape == (M,) and fr.shape == (M,)
    except Exception:
        ok = False
    msg = '%s: non-finite record npts=%d N=%d: shapes %s / %s, expected %d bins' % (where, npts, N, np.shape(fa), np.shape(fr), M)
    if ok:
        fref = O.frequencies(N, dt)
        ok = tol.close(fr, fref, scale=np.abs(fref), rtol=T['freq'])
        msg = '%s: non-finite record npts=%d N=%d dt=%r: frequency grid is not k/(N*dt)' % (where, npts, N, dt)
    if ok and fa.dtype.kind in 'fc':
        nfin = int(np.count_nonzero(np.isfinite(fa)))
        ok = nfin == 0
        msg = ('%s: the record holds NaN/inf (npts=%d, N=%d) but %d of %d reported bins are finite: not the spectrum of '
               'the current values' % (where, npts, N, nfin, M))
    _judge(ctx, ok, NF_CLAUSE, wit, msg)


def _expected_n(ctx, npts, p2_plus, n):
    """N per the statement for the options of gen_fa_spectrum / calc_fa_spectrum; None when outside the quantifier."""
    if n is not None:
        if not _is_int(n) or n < 1:
            ctx.observe('out-of-domain: n not a positive integer')
            return None
        return int(n)
    if not _is_int(p2_plus) or not 0 <= p2_plus <= 3:
        ctx.observe('out-of-domain: p2_plus outside 0..3')
        return None
    return O.n_padded(npts, p2_plus)


def _pre_gen(args, kwargs):
    st = _entry(CTX, args[0])
    st['opts'] = (_frozen(args[1] if len(args) > 1 else kwargs.get('p2_plus', 0)),
                  _frozen(args[2] if len(args) > 2 else kwargs.get('n', None)))
    return st


def _post_gen(args, kwargs, result, st):
    self = args[0]
    p2_live = args[1] if len(args) > 1 else kwargs.get('p2_plus', 0)
    n_live = args[2] if len(args) > 2 else kwargs.get('n', None)
    p2_plus, n = st['opts']                 # the options as they were at call entry (a 0-d array is mutable)
    _GEN_SEQ[0] += 1
    rec = st['rec']
    nf = st.get('nf')
    if rec is None and nf is None:
        _LAST.pop(id(self), None)
        return
    if rec is not None:
        x, dt, T = rec
    N = _expected_n(CTX, len(x) if rec is not None else nf[0], p2_plus, n)
    if len(_LAST) > 2000:
        for k in [k for k, v in _LAST.items() if v[0]() is None]:
            del _LAST[k]
    if _is_int(p2_plus) and isinstance(p2_plus, np.ndarray):
        p2_plus = p2_plus[()]               # NumPy scalar of the same type: hashable, JSON-able, not shared with the caller
    if _is_int(n) and isinstance(n, np.ndarray):
        n = n[()]
    _LAST[id(self)] = (weakref.ref(self), p2_plus, n, N, core.digest(np.asarray(self.values)))
    wit = lambda: _sig_wit(st, 'Signal.gen_fa_spectrum', p2_plus=p2_plus, n=n)
    _check_record_unchanged(CTX, 'gen_fa_spectrum', wit, self, st)
    _check_scalars_unchanged(CTX, 'gen_fa_spectrum', wit, [('p2_plus', p2_live, p2_plus), ('n', n_live, n)])
    if N is None:
        return
    with attach.paused():
        fa = self.fa_spectrum
        fr = self.fa_freqs
    if rec is None:
        check_nonfinite(CTX, 'gen_fa_spectrum', wit, nf, N, fa, fr)
        return
    check_spectrum(CTX, 'gen_fa_spectrum', wit, x, dt, N, fa, fr, T=T)


def _pre_lazy(self):
    """Before the getter runs: generation counter, have the values changed since the spectrum was last generated,
    and the entry state of the object."""
    st = _entry(CTX, self)
    ent = _LAST.get(id(self))
    changed = False
    if ent is not None and ent[0]() is self and st['raw'] is not None:
        changed = core.digest(st['raw']) != ent[4]
    st['seq0'] = _GEN_SEQ[0]
    st['changed'] = changed
    return st


def _expected_lazy_n(self, npts, triggered, changed):
    """N a lazy read must show, and the explicit options it stems from (None = defaults)."""
    ent = _LAST.get(id(self))
    if not triggered and not changed and ent is not None and ent[0]() is self:
        return ent[3], {'p2_plus': ent[1], 'n': ent[2]}
    return O.n_padded(npts), None


def _post_lazy(self, result, st, which):
    """Lazy properties: the spectrum of the object's CURRENT record (as it was when the read started). N is the one of
    the last explicit gen_fa_spectrum on this object; the default N when the read itself had to trigger the generation,
    when no generation was seen, or when the values have changed since the last generation (every public mutator
    invalidates the spectrum, so the read must regenerate with the defaults; a stale spectrum is refuted here). Reads
    of the last kind are reported under their own clause names 'lazy-after-mutation.*'."""
    changed = st['changed']
    triggered = _GEN_SEQ[0] != st['seq0']
    rec = st['rec']
    nf = st.get('nf')
    if rec is None and nf is None:
        return
    if rec is not None:
        x, dt, T = rec
    N, prior = _expected_lazy_n(self, len(x) if rec is not None else nf[0], triggered, changed)
    hist = _HISTORY[0]
    wit = (lambda: dict(hist, fn=hist.get('rel', 'rel.history'))) if hist is not None else \
        (lambda: _sig_wit(st, 'Signal.' + which, prior_gen=prior))
    _check_record_unchanged(CTX, 'reading ' + which, wit, self, st)
    if N is None:
        return
    with attach.paused():
        fa = result if which == 'fa_spectrum' else self.fa_spectrum
        fr = result if which in ('fa_freqs', 'fa_frequencies') else self.fa_freqs
    if rec is None:
        check_nonfinite(CTX, 'reading ' + which, wit, nf, N, fa, fr)
    elif _PHASE[0] is not None and hist is not None:
        check_spectrum(CTX, _PHASE[0], wit, x, dt, N, fa, fr, bins_label='bins==dt*DFT(own current values)', T=T)
    elif changed:
        check_spectrum(CTX, 'lazy-after-mutation', wit, x, dt, N, fa, fr, bins_label='bins==dt*DFT(current values)', T=T)
    else:
        check_spectrum(CTX, 'lazy', wit, x, dt, N, fa, fr, T=T)


def _pre_sig0(args, kwargs):
    """Entry state of the first positional / 'sig' / 'asig' argument, and entry copies of the other (scalar) arguments."""
    sig = args[0] if args else kwargs.get('sig', kwargs.get('asig'))
    st = _entry(CTX, sig)
    st['rest'] = [_frozen(a) for a in args[1:]]
    st['kw'] = {k: _frozen(v) for k, v in kwargs.items() if k not in ('sig', 'asig')}
    return st


def _arg(st, args, kwargs, pos, name, default):
    """(entry value, live object) of one scalar argument of a function monitored through _pre_sig0."""
    if len(args) > pos:
        return st['rest'][pos - 1], args[pos]
    if name in kwargs:
        return st['kw'][name], kwargs[name]
    return default, default


def _post_generate(args, kwargs, result, st):
    sig = args[0] if args else kwargs['sig']
    n_pad, pad_live = _arg(st, args, kwargs, 1, 'n_pad', True)
    if isinstance(n_pad, np.ndarray) and n_pad.size != 1:
        CTX.observe('out-of-domain: n_pad not a scalar flag')
        return
    rec = st['rec']
    if rec is None:
        nf = st.get('nf')
        if nf is not None and isinstance(result, tuple) and len(result) == 2:
            check_nonfinite(CTX, 'generate_fa_spectrum', lambda: _sig_wit(st, 'generate_fa_spectrum', n_pad=n_pad), nf,
                            O.n_padded(nf[0]) if n_pad else nf[0], result[0], result[1])
        return
    x, dt, T = rec
    N = O.n_padded(len(x)) if n_pad else len(x)      # truthiness: True, np.True_, a 0-d bool array and 1 all ask for padding
    _check_record_unchanged(CTX, 'generate_fa_spectrum', lambda: _sig_wit(st, 'generate_fa_spectrum', n_pad=n_pad), sig, st)
    _check_scalars_unchanged(CTX, 'generate_fa_spectrum', lambda: _sig_wit(st, 'generate_fa_spectrum', n_pad=n_pad),
                             [('n_pad', pad_live, n_pad)])
    ok_pair = isinstance(result, tuple) and len(result) == 2
    if not ok_pair:
        CTX.violation('generate_fa_spectrum.nbins==N//2', _sig_wit(st, 'generate_fa_spectrum', n_pad=n_pad),
                      'generate_fa_spectrum did not return (spectrum, frequencies): %r' % (type(result),))
        return
    check_spectrum(CTX, 'generate_fa_spectrum', lambda: _sig_wit(st, 'generate_fa_spectrum', n_pad=n_pad),
                   x, dt, N, result[0], result[1], T=T)


def _post_calc(args, kwargs, result, st):
    sig = args[0] if args else kwargs['sig']
    n, n_live = _arg(st, args, kwargs, 1, 'n', None)
    p2_plus, p2_live = _arg(st, args, kwargs, 2, 'p2_plus', None)
    rec = st['rec']
    if rec is None:
        nf = st.get('nf')
        if nf is not None and isinstance(result, tuple) and len(result) == 2:
            N = nf[0] if (n is None and p2_plus is None) else _expected_n(CTX, nf[0], p2_plus, n)
            if N is not None:
                check_nonfinite(CTX, 'calc_fa_spectrum', lambda: _sig_wit(st, 'calc_fa_spectrum', n=n, p2_plus=p2_plus), nf,
                                N, result[0], result[1])
        return
    x, dt, T = rec
    _check_record_unchanged(CTX, 'calc_fa_spectrum', lambda: _sig_wit(st, 'calc_fa_spectrum', n=n, p2_plus=p2_plus), sig, st)
    _check_scalars_unchanged(CTX, 'calc_fa_spectrum', lambda: _sig_wit(st, 'calc_fa_spectrum', n=n, p2_plus=p2_plus),
                             [('n', n_live, n), ('p2_plus', p2_live, p2_plus)])
    if n is None and p2_plus is None:
        N = len(x)                       # the array-level function without padding
    else:
        N = _expected_n(CTX, len(x), p2_plus, n)
        if N is None:
            return
    if not (isinstance(result, tuple) and len(result) == 2):
        CTX.violation('calc_fa_spectrum.nbins==N//2', _sig_wit(st, 'calc_fa_spectrum', n=n, p2_plus=p2_plus),
                      'calc_fa_spectrum did not return (spectrum, frequencies): %r' % (type(result),))
        return
    check_spectrum(CTX, 'calc_fa_spectrum', lambda: _sig_wit(st, 'calc_fa_spectrum', n=n, p2_plus=p2_plus),
                   x, dt, N, result[0], result[1], T=T)


def check_inverse(ctx, where, wit, fas, dt, s):
    """Function-level post-condition of the inverse helper. Any M complex bins (bin 0 ignored) are bins 1..M-1 of
    exactly one real record of length N = 2M without mean and Nyquist component; the helper must return it:
    length 2M, no imaginary part, and dt*DFT(result) = fas at bins 1..M-1, 0 at bins 0 and M."""
    try:
        fas = np.asarray(fas, dtype=complex)
    except Exception:
        ctx.observe('out-of-domain: spectrum not numeric')
        return
    if fas.ndim != 1 or fas.size < 1 or not np.all(np.isfinite(fas)) or not _dt_ok(dt):
        ctx.observe('out-of-domain: inverse of empty / non-finite spectrum or bad dt')
        return
    dt = float(dt)
    M = len(fas)
    N = 2 * M
    s = np.asarray(s)
    if not _judge(ctx, s.shape == (N,), where + '.length==2*nbins', wit,
                  '%s: %d bins -> %s samples, expected %d' % (where, M, s.shape, N)):
        return
    amp = 2.0 * float(np.sum(np.abs(fas[1:])))       # |s_j| <= amp/(N*dt);  dt*sum|s_j| <= amp
    im = float(np.max(np.abs(np.imag(s)))) if np.iscomplexobj(s) else 0.0
    fin = bool(np.all(np.isfinite(s)))
    _judge(ctx, fin and im <= RTOL_INV * amp / (N * dt), where + '.real', wit,
           '%s: %d bins dt=%r: max|imag(result)|=%.3g, allowed %.3g' % (where, M, dt, im, RTOL_INV * amp / (N * dt)))
    if not fin:
        return
    re = np.ascontiguousarray(np.real(s), dtype=float)
    ks = _bins_to_compare(N, M)
    ks = np.unique(np.concatenate([ks, np.array([0, M], dtype=np.int64)]))
    got = dt * _oracle_bins(re, ks, 'inv')
    ref = np.where((ks == 0) | (ks == M), 0.0, fas[np.minimum(ks, M - 1)])
    okb, idx, err, allowed = tol.worst(got, ref, scale=amp, rtol=RTOL_BIN)
    _judge(ctx, okb, where + '.spectrum==fas', wit,
           lambda: '%s: %d bins dt=%r: dt*DFT(result) at bin %s is %r, expected %r (|diff|=%.3g allowed %.3g)'
           % (where, M, dt, None if idx is None else int(ks[idx[0]]), None if idx is None else complex(got[idx]),
              None if idx is None else complex(ref[idx]), err, allowed))


def _pre_inverse(args, kwargs):
    """Snapshot of the spectrum argument before the helper runs (purity clause + a witness that holds the ORIGINAL)."""
    fas = args[0] if args else kwargs.get('fas')
    dt = _frozen(args[1] if len(args) > 1 else kwargs.get('dt'))
    if isinstance(fas, np.ndarray):
        return fas.copy(), dt
    if isinstance(fas, (list, tuple)):
        return list(fas), dt
    return None, dt


def _check_argument_unchanged(ctx, where, wit, fas, snap):
    """The helper only reads its argument: the caller's array (possibly an object's cached spectrum) is bit-for-bit
    the same afterwards."""
    if snap is None:
        ctx.observe('not judged: purity of a %s spectrum argument' % type(fas).__name__)
        return
    if isinstance(fas, np.ndarray):
        same = fas.shape == snap.shape and fas.dtype == snap.dtype and fas.tobytes() == snap.tobytes()
        diff = np.flatnonzero(np.asarray(fas).ravel() != snap.ravel())[:5].tolist() if fas.shape == snap.shape else 'shape'
    else:
        try:
            same = len(fas) == len(snap) and all(u is v or u == v for u, v in zip(fas, snap))
        except Exception:
            same = False
        diff = 'list'
    _judge(ctx, same, where + '.argument-unchanged', wit,
           lambda: '%s modified the spectrum array passed in (%s, %d bins) at indices %s: e.g. bin %s was %r, now %r'
           % (where, getattr(fas, 'dtype', 'list'), len(snap), diff,
              diff[0] if isinstance(diff, list) and diff else '?',
              complex(snap[diff[0]]) if isinstance(diff, list) and diff else None,
              complex(fas[diff[0]]) if isinstance(diff, list) and diff else None))


def _dt_wit(dt):
    return {'dt': float(dt) if isinstance(dt, np.ndarray) and dt.ndim == 0 else dt, 'dt_form': _form_of(dt)}


def _post_fas2values(args, kwargs, result, pre):
    fas = args[0] if args else kwargs['fas']
    dt_live = args[1] if len(args) > 1 else kwargs['dt']
    pre, dt = pre                                           # dt as it was when the call was made (0-d arrays are mutable)
    given = pre if pre is not None else fas                 # the spectrum as it was when the call was made
    wit = lambda: dict({'fn': 'fas2values', 'fas': np.asarray(given)}, **_dt_wit(dt))
    _check_argument_unchanged(CTX, 'fas2values', wit, fas, pre)
    _check_scalars_unchanged(CTX, 'fas2values', wit, [('dt', dt_live, dt)])
    check_inverse(CTX, 'fas2values', wit, given, dt, result)


def _post_fas2signal(args, kwargs, result, pre):
    fas = args[0] if args else kwargs['fas']
    dt_live = args[1] if len(args) > 1 else kwargs['dt']
    pre, dt = pre
    stype = args[2] if len(args) > 2 else kwargs.get('stype', 'signal')
    given = pre if pre is not None else fas
    wit = lambda: dict({'fn': 'fas2signal', 'fas': np.asarray(given), 'stype': stype}, **_dt_wit(dt))
    _check_argument_unchanged(CTX, 'fas2signal', wit, fas, pre)
    _check_scalars_unchanged(CTX, 'fas2signal', wit, [('dt', dt_live, dt)])
    want = 'Signal' if stype == 'signal' else 'AccSignal'
    try:
        same_dt = bool(np.all(getattr(result, 'dt', None) == dt))
    except Exception:
        same_dt = False
    ok_t = type(result).__name__ == want and same_dt
    _judge(CTX, ok_t, 'fas2signal.type+dt', wit, 'fas2signal(stype=%r, dt=%r) returned %s with dt=%r'
           % (stype, dt, type(result).__name__, getattr(result, 'dt', None)))
    if hasattr(result, 'values'):
        check_inverse(CTX, 'fas2signal', wit, given, dt, result.values)


def _post_max_fa_period(args, kwargs, result, st):
    asig = args[0] if args else kwargs['asig']
    if st['rec'] is None:
        return
    x, dt, T = st['rec']
    with attach.paused():
        fa = np.asarray(asig.fa_spectrum)
        fr = np.asarray(asig.fa_freqs, dtype=float)
    ent = _LAST.get(id(asig))
    prior = {'p2_plus': ent[1], 'n': ent[2]} if ent is not None and ent[0]() is asig and (ent[1], ent[2]) != (0, None) else None
    hist = _HISTORY[0]
    wit = (lambda: dict(hist, fn=hist.get('rel', 'rel.history'))) if hist is not None else (lambda: _sig_wit(st, 'max_fa_period', prior_gen=prior))
    _check_record_unchanged(CTX, 'max_fa_period', wit, asig, st)
    amp = np.abs(fa)
    top = float(np.max(amp)) if amp.size else 0.0
    with np.errstate(divide='ignore'):
        periods = np.where(fr == 0, np.inf, 1.0 / np.where(fr == 0, 1.0, fr))
    try:
        r = float(result)
    except Exception:
        r = float('nan')
    if np.isinf(r):
        cand = np.flatnonzero(np.isinf(periods))
    else:
        cand = np.flatnonzero(np.isfinite(periods) & (np.abs(periods - r) <= RTOL_TIE * np.abs(periods)))
    okk = cand.size > 0 and bool(np.any(amp[cand] >= top * (1.0 - RTOL_TIE)))
    # independent of the object's cached spectrum: in the ORACLE spectrum of the record (as it was at call entry, N from
    # the monitor's own bookkeeping) the reported bin reaches the maximum, up to the per-bin tolerance of the spectrum
    ent = _LAST.get(id(asig))
    changed = ent is not None and ent[0]() is asig and core.digest(st['raw']) != ent[4]
    Nexp, _ = _expected_lazy_n(asig, len(x), False, changed)
    if okk and Nexp is not None and len(x) <= Nexp <= FULL_N and len(fr) == Nexp // 2:
        oamp = np.abs(dt * _oracle_bins(O.zero_pad(x, Nexp), np.arange(Nexp // 2, dtype=np.int64), 'fwd'))
        slack = 2.0 * T['bin'] * dt * float(np.sum(np.abs(x)))
        okk = bool(np.any(oamp[cand] >= float(np.max(oamp)) * (1.0 - RTOL_TIE) - slack))
    _judge(CTX, okk, 'max_fa_period==1/f[argmax|F|]', wit,
           lambda: 'max_fa_period -> %r; %s; largest amplitude %.6g is at bin %d (period %r)'
           % (result, ('that is bin %d with amplitude %.6g' % (int(cand[0]), float(amp[cand[0]]))) if cand.size
              else 'not the period of any reported bin', top, int(np.argmax(amp)), float(periods[int(np.argmax(amp))])))


def install(ctx):
    """Attach the C06 monitors to the imported eqsig (idempotent per process)."""
    global CTX
    CTX = ctx
    import eqsig
    fq = eqsig.fns.frequency
    if getattr(install, 'done', False):
        return
    attach.wrap_method(eqsig.Signal, 'gen_fa_spectrum', _post_gen, pre=_pre_gen)
    attach.wrap_property(eqsig.Signal, 'fa_spectrum', lambda o, v, st: _post_lazy(o, v, st, 'fa_spectrum'), pre=_pre_lazy)
    attach.wrap_property(eqsig.Signal, 'fa_freqs', lambda o, v, st: _post_lazy(o, v, st, 'fa_freqs'), pre=_pre_lazy)
    attach.wrap_property(eqsig.Signal, 'fa_frequencies', lambda o, v, st: _post_lazy(o, v, st, 'fa_frequencies'), pre=_pre_lazy)
    attach.wrap(fq, 'generate_fa_spectrum', _post_generate, pre=_pre_sig0)
    attach.wrap(fq, 'calc_fa_spectrum', _post_calc, pre=_pre_sig0)
    attach.wrap(fq, 'fas2values', _post_fas2values, pre=_pre_inverse)
    attach.wrap(fq, 'fas2signal', _post_fas2signal, pre=_pre_inverse)
    attach.wrap(eqsig.im, 'max_fa_period', _post_max_fa_period, pre=_pre_sig0)
    install.done = True


# ---------------------------------------------------------------------------------------------------- input forms
def _tclass(values, dt):
    """Tolerance class of a case for the driver-side relations (same rule as the monitors)."""
    v = np.asarray(values)
    return LOOSE if (v.dtype == np.float32 or _dt_f32(dt)) else TIGHT


def _as_form(values, form):
    """The record in the memory form named by `form` (views and flags cannot be stored in a JSON witness)."""
    if form == 'strided':
        v = np.asarray(values)
        buf = np.zeros(2 * len(v), dtype=v.dtype)
        buf[::2] = v
        return buf[::2]
    if form == 'reversed':
        base = np.ascontiguousarray(np.asarray(values)[::-1])
        return base[::-1]
    if form == 'readonly':
        v = np.array(values)
        v.flags.writeable = False
        return v
    return values


def _scalar_as(v, form, default):
    """v in the scalar form named by form: 'int', 'np.<type>' (NumPy scalar), '0d-<dtype>' (0-d array, a NEW object per call
    of this function - the driver keeps it and hands the same object to every call of a case)."""
    if form is None:
        return default(v)
    if form == 'int':
        return int(v)
    if form.startswith('0d-'):
        return np.array(v, dtype=form[3:])
    return getattr(np, form[3:])(v)


def _dt_as(dt, form):
    return _scalar_as(dt, form, float)


def _int_as(v, form):
    if form in ('np.int16', 'np.uint8', 'np.int8', '0d-int16', '0d-uint8') and not 0 <= int(v) <= np.iinfo(form[3:]).max:
        form = 'np.int64' if form.startswith('np.') else '0d-int64'      # the value does not fit the narrow type
    return _scalar_as(v, form, int)


def _flag_as(b, form):
    """A boolean flag as True / np.True_ / a 0-d bool array / 1 (`flag is True` holds for the first form only)."""
    return _scalar_as(bool(b), form, bool)


INT_FORMS = [None, None, 'np.int64', 'np.int32', '0d-int64', '0d-int32']
FLAG_FORMS = [None, 'np.bool', '0d-bool', 'int']


def _snapshot(obj):
    return obj.copy() if isinstance(obj, np.ndarray) else (tuple(obj) if isinstance(obj, (list, tuple)) else None)


def _unchanged(obj, snap):
    if snap is None:
        return True
    if isinstance(obj, np.ndarray):
        return _same_bits(obj, snap)
    return len(obj) == len(snap) and all(u is v or (type(u) is type(v) and u == v) for u, v in zip(obj, snap))


NARROW = [('int32', -2 ** 31, 2 ** 31 - 1), ('int16', -2 ** 15, 2 ** 15 - 1), ('int8', -128, 127), ('uint8', 0, 255),
          ('uint16', 0, 2 ** 16 - 1)]


def _draw_input(rng, npts, allow_f32=True):
    """(values container, memory form, record class, container name): the dtype / container / view forms of a record."""
    x, rcls = gen.record(rng, npts, extreme=True)
    if 'extreme-scale' not in rcls and rng.random() < 0.06:
        x, suffix = gen.special_scale(rng, x)      # tiny / huge / extreme range / ripple on a baseline / counts > 2**24
        rcls += suffix
    if 'extreme' in rcls or 'ripple' in rcls or 'counts' in rcls:
        # every value is a normal double but squares / products of samples under- or overflow: float64 or list only
        k = rng.random()
        if k < 0.6:
            return x, None, rcls, 'f64'
        if k < 0.8:
            return [float(v) for v in x], None, rcls, 'list-float'
        return x, ['strided', 'reversed', 'readonly'][int(rng.integers(3))], rcls, 'f64-view'
    r = rng.random()
    # scales beyond vf/gen.py: micro and huge amplitudes, a large offset on a small signal
    if r < 0.08:
        x = x / max(float(np.max(np.abs(x))), 1e-300) * 10.0 ** float(rng.choice([-12, -10, -9]))
        rcls += '*micro'
    elif r < 0.16:
        x = x / max(float(np.max(np.abs(x))), 1e-300) * 10.0 ** float(rng.choice([9, 10, 12]))
        rcls += '*huge'
    elif r < 0.20:
        x = x / max(float(np.max(np.abs(x))), 1e-300) * 1e-3 + float(rng.choice([-1e6, 1e6]))
        rcls += '+offset1e6'
    r = rng.random()
    if r < 0.06:                                       # the extreme at the first / last sample
        x = x.copy()
        x[0 if rng.random() < 0.5 else -1] = float(rng.choice([-3.0, 3.0])) * max(float(np.max(np.abs(x))), 1e-300)
        rcls += '/peak-at-end'
    elif r < 0.10 and npts >= 6:                       # plateaus at both ends
        x = x.copy()
        k = int(rng.integers(1, npts // 3 + 1))
        x[:k] = x[k]
        x[-k:] = x[-k - 1]
        rcls += '/flat-ends'
    r = rng.random()
    if r < 0.24:                                       # shapes the statement does not forbid
        x = x.copy()
        peak = max(float(np.max(np.abs(x))), 1e-300)
        kind = int(rng.integers(9))
        if kind == 0:                                  # one-sided: all the action at negative values
            x = -np.abs(x) - (peak if rng.random() < 0.5 else 0.0)
            rcls += '/one-sided'
        elif kind == 1:                                # monotone / trend dominated
            x = np.cumsum(np.abs(x)) if rng.random() < 0.5 else x + np.linspace(0, 20 * peak, npts)
            rcls += '/monotone'
        elif kind == 2 and npts >= 8:                  # tail-heavy: everything in the last 1/k of the record
            cut = npts - max(1, npts // int(rng.integers(4, 17)))
            x[:cut] = 0.0
            rcls += '/tail-heavy'
        elif kind == 3:                                # a constant with a single changed sample
            x = np.full(npts, peak)
            x[int(rng.integers(npts))] += peak * float(rng.choice([-2.0, 1e-6, 0.5]))
            rcls += '/one-changed-sample'
        elif kind == 4:                                # energy exactly at the Nyquist frequency on top of the record
            x = x + peak * float(rng.choice([1.0, 3.0])) * np.where(np.arange(npts) % 2 == 0, 1.0, -1.0)
            rcls += '/+nyquist'
        elif kind == 7:                                # a silent record: every sample exactly zero
            x = np.zeros(npts)
            rcls += '/silent'
        elif kind == 8:                                # strictly one-signed: no zero, no sign change (positive side)
            x = np.abs(x) + peak * float(rng.choice([1.0, 1e-3, 1e3]))
            rcls += '/strictly-positive'
        elif kind == 5:                                # one sample 1e3 .. 1e12 times larger than the others
            x[int(rng.integers(npts))] = peak * 10.0 ** float(rng.choice([3, 6, 9, 12])) * float(rng.choice([-1.0, 1.0]))
            rcls += '/spike'
        else:                                          # exact zeros inside
            x[rng.random(npts) < 0.4] = 0.0
            rcls += '/zeros-inside'
    intval = bool(np.all(x == np.round(x)) and np.max(np.abs(x)) < 2 ** 52)
    k = rng.random()
    form = None
    if k < 0.35:
        xin, cont = x, 'f64'
    elif k < 0.40:                                     # on/off records (bool dtype / Python bools): cast to float on purpose
        kind = int(rng.integers(4))
        if kind == 0:                                  # rectangular pulse(s)
            b = np.zeros(npts, dtype=bool)
            for _ in range(int(rng.integers(1, 4))):
                i0 = int(rng.integers(0, npts))
                b[i0:i0 + int(rng.integers(1, max(2, npts // 2)))] = True
        elif kind == 1:                                # random telegraph
            b = rng.random(npts) < float(rng.choice([0.1, 0.5, 0.9]))
        elif kind == 2:                                # where the drawn record is positive
            b = np.asarray(x) > 0
        else:                                          # alternating (all the energy at the Nyquist frequency and the mean)
            b = np.arange(npts) % 2 == int(rng.integers(2))
        if rng.random() < 0.7:
            xin, cont = b, 'bool'
        else:
            xin, cont = [bool(t) for t in b], 'list-bool'
        rcls = 'on-off'
    elif k < 0.48 and intval:
        xin, cont = x.astype(np.int64), 'i64'
    elif k < 0.56:
        name, lo, hi = NARROW[int(rng.integers(len(NARROW)))]     # integers using most of the dtype's range
        span = hi - lo
        v = rng.integers(lo, hi + 1, size=npts, dtype=np.int64)
        if rng.random() < 0.5:                                    # pile up at the ends of the range
            v = np.where(rng.random(npts) < 0.5, hi - rng.integers(0, span // 16 + 1, size=npts),
                         lo + rng.integers(0, span // 16 + 1, size=npts))
        xin, cont, rcls = v.astype(name), name, 'narrow-int'
    elif k < 0.62 and allow_f32:
        xin, cont = x.astype(np.float32), 'f32'
        if not np.all(np.isfinite(xin)):
            xin, cont = x, 'f64'
    elif k < 0.68:
        xin, cont = [float(v) for v in x], 'list-float'
    elif k < 0.72:
        xin, cont = tuple(float(v) for v in x), 'tuple-float'
    elif k < 0.76:
        v = rng.integers(-1000, 1000, size=npts)
        xin, cont, rcls = [int(t) for t in v], 'list-int', 'intnoise'
    elif k < 0.80:
        v = rng.integers(-9, 10, size=npts)
        xin = [int(t) if i % 2 else float(t) + 0.5 for i, t in enumerate(v)]
        cont, rcls = 'list-mixed', 'mixed'
    elif k < 0.86:
        xin, cont, form = x, 'f64-strided-view', 'strided'
    elif k < 0.92:
        xin, cont, form = x, 'f64-reversed-view', 'reversed'
    else:
        xin, cont, form = x, 'f64-readonly', 'readonly'
    return xin, form, rcls, cont


def _draw_dt(rng):
    """(dt, form): vf/gen.py classes plus the decades 1e-9 .. 1e3 and the scalar types a caller may hold."""
    r = rng.random()
    if r < 0.12:
        return float(10.0 ** rng.uniform(-9, -3)), None
    if r < 0.20:
        return float(10.0 ** rng.uniform(0, 3)), None
    if r < 0.24:
        return float(rng.choice([1e-9, 1e-6, 1.0, 10.0, 1e3])), None
    if r < 0.28:
        return int(rng.choice([1, 2, 5])), ['int', 'int', 'np.int64', 'np.int32', '0d-int64'][int(rng.integers(5))]
    if r < 0.40:                                       # steps for which dt/(dt/k) != k, (dt/k)*k != dt ...
        return gen.awkward_dt(rng, int(rng.choice([3, 7, 11, 49, 93]))), None
    dt = gen.dt(rng)
    r = rng.random()
    if r < 0.08:
        return float(np.float32(dt)), 'np.float32'
    if r < 0.16:
        return dt, 'np.float64'
    if r < 0.26:                                       # 0-d arrays: the one MUTABLE scalar form
        return dt, '0d-float64'
    if r < 0.30:
        return float(np.float32(dt)), '0d-float32'
    return dt, None


# ---------------------------------------------------------------------------------------------------- relations
def _mk(eqsig, clsname, x, dt):
    return (eqsig.AccSignal if clsname == 'AccSignal' else eqsig.Signal)(x, dt)


def _agree(ctx, wit, x, dt, a, b, what, T=TIGHT):
    """object-level result a = (fa, fr) and array-level result b agree."""
    scale = dt * float(np.sum(np.abs(np.asarray(x, dtype=float))))
    ok = np.shape(a[0]) == np.shape(b[0]) and np.shape(a[1]) == np.shape(b[1])
    msg = 'shapes %s/%s vs %s/%s' % (np.shape(a[0]), np.shape(a[1]), np.shape(b[0]), np.shape(b[1]))
    if ok:
        fsc = np.abs(np.asarray(b[1], dtype=float))
        ok1 = tol.close(a[0], b[0], scale=scale, rtol=T['bin'])
        ok2 = tol.close(a[1], b[1], scale=fsc, rtol=T['freq'])
        ok = ok1 and ok2
        if not ok:
            msg = ('spectrum ' + tol.describe(a[0], b[0], scale=scale, rtol=T['bin'])) if not ok1 else \
                ('frequencies ' + tol.describe(a[1], b[1], scale=fsc, rtol=T['freq']))
    _judge(ctx, ok, 'object==array', wit, 'object-level vs array-level (%s): %s' % (what, msg))


def _gen(s, style, p2=None, n=None):
    """Signal.gen_fa_spectrum with the options passed by keyword or positionally."""
    if style == 'pos':
        if n is None:
            s.gen_fa_spectrum(p2) if p2 is not None else s.gen_fa_spectrum()
        else:
            s.gen_fa_spectrum(0 if p2 is None else p2, n)
    elif n is None:
        s.gen_fa_spectrum(p2_plus=p2) if p2 is not None else s.gen_fa_spectrum()
    elif p2 is None:
        s.gen_fa_spectrum(n=n)
    else:
        s.gen_fa_spectrum(p2_plus=p2, n=n)


def _calc(eqsig, s, style, n=None, p2=None):
    if style == 'pos':
        if n is None and p2 is None:
            return eqsig.calc_fa_spectrum(s)
        return eqsig.calc_fa_spectrum(s, n) if p2 is None else eqsig.calc_fa_spectrum(s, n, p2)
    kw = {}
    if n is not None:
        kw['n'] = n
    if p2 is not None:
        kw['p2_plus'] = p2
    return eqsig.calc_fa_spectrum(sig=s, **kw) if style == 'kw-all' else eqsig.calc_fa_spectrum(s, **kw)


def _generate(eqsig, s, style, n_pad=None, flag_form=None):
    if n_pad is not None and flag_form is not None:
        n_pad = _flag_as(n_pad, flag_form)
    if n_pad is None:
        return eqsig.generate_fa_spectrum(sig=s) if style == 'kw-all' else eqsig.generate_fa_spectrum(s)
    if style == 'pos':
        return eqsig.generate_fa_spectrum(s, n_pad)
    return eqsig.generate_fa_spectrum(sig=s, n_pad=n_pad) if style == 'kw-all' else eqsig.generate_fa_spectrum(s, n_pad=n_pad)


def _period(eqsig, s, style):
    return eqsig.im.max_fa_period(asig=s) if style == 'kw-all' else eqsig.im.max_fa_period(s)


def _spectrum(eqsig, s, mode):
    """One spectrum through the array-level public function. mode = ('default',) | ('p2', p) | ('n', n) | ('nopad',)."""
    if mode[0] == 'default':
        return eqsig.generate_fa_spectrum(s)
    if mode[0] == 'p2':
        return eqsig.calc_fa_spectrum(s, p2_plus=mode[1])
    if mode[0] == 'n':
        return eqsig.calc_fa_spectrum(s, n=mode[1])
    return eqsig.calc_fa_spectrum(s)


def _spectrum_obj(s, mode):
    """One spectrum through the object."""
    if mode[0] == 'p2':
        s.gen_fa_spectrum(p2_plus=mode[1])
    elif mode[0] == 'n':
        s.gen_fa_spectrum(n=mode[1])
    elif mode[0] == 'nopad':
        s.gen_fa_spectrum(n=s.npts)
    return s.fa_spectrum, s.fa_freqs


def rel_agreement(ctx, eqsig, p):
    """Every entry point on one record; object vs array level; inverse round trips; dominant period. The record, dt and
    the integer options go in in the container / dtype / memory form and call style named by the case."""
    x = _as_form(p['values'], p.get('form'))
    dt_in = _dt_as(p['dt'], p.get('dt_form'))
    dt = float(dt_in)
    T = _tclass(x, dt_in)
    style = p.get('style', 'kw')
    clsname, stype = p['cls'], p.get('stype', 'signal')
    p2, ne = _int_as(p['p2_plus'], p.get('int_form')), _int_as(p['n'], p.get('int_form'))
    ff = p.get('flag_form')
    pad_on, pad_off = _flag_as(True, ff), _flag_as(False, ff)      # ONE object each for every call of the case
    scalars = [('dt', dt_in, _frozen(dt_in)), ('p2_plus', p2, _frozen(p2)), ('n', ne, _frozen(ne)),
               ('n_pad', pad_on, _frozen(pad_on)), ('n_pad', pad_off, _frozen(pad_off))]
    xf = np.asarray(x, dtype=float)
    npts = len(xf)
    snap = _snapshot(x)
    wit = lambda: dict(p, fn='rel.agreement')
    s = _mk(eqsig, clsname, x, dt_in)
    # default padding: lazy object, both array-level functions
    first = p.get('first', 'fa_spectrum')
    if first == 'method':
        s.generate_fa_spectrum()
        obj = (s.fa_spectrum, s.fa_frequencies)
    elif first == 'fa_spectrum':
        obj = (s.fa_spectrum, s.fa_freqs)
    else:                                  # the frequency property is the access that triggers the generation
        fr = getattr(s, first)
        obj = (s.fa_spectrum, fr)
    _period(eqsig, s, style)
    _agree(ctx, wit, xf, dt, obj, _generate(eqsig, s, style, None if (style != 'pos' and ff is None) else pad_on),
           'default vs generate_fa_spectrum', T)
    _agree(ctx, wit, xf, dt, obj, _calc(eqsig, s, style, p2=_int_as(0, p.get('int_form'))), 'default vs calc_fa_spectrum(p2_plus=0)', T)
    _roundtrip(ctx, eqsig, xf, dt_in, O.n_padded(npts), obj[0], wit, 'default', stype if p.get('signal_on') == 'default' else None,
               T, style, p.get('fas_form'))
    if not p.get('lite'):
        # p2_plus
        _gen(s, style, p2=p2)
        obj = (s.fa_spectrum, s.fa_freqs)
        _agree(ctx, wit, xf, dt, obj, _calc(eqsig, s, style, p2=p2), 'p2_plus=%d' % p2, T)
        _period(eqsig, s, style)
        # explicit n
        _gen(s, style, n=ne)
        obj = (s.fa_spectrum, s.fa_freqs)
        arr = _calc(eqsig, s, style, n=ne)
        _agree(ctx, wit, xf, dt, obj, arr, 'n=%d' % ne, T)
        _roundtrip(ctx, eqsig, xf, dt_in, int(ne), arr[0], wit, 'n=%d' % ne, stype if p.get('signal_on') == 'n' else None,
                   T, style, p.get('fas_form'))
        if p.get('both'):                  # a requested n together with p2_plus: the requested n is the transform length
            _gen(s, style, p2=p2, n=ne)
            obj = (s.fa_spectrum, s.fa_freqs)
            _agree(ctx, wit, xf, dt, obj, _calc(eqsig, s, style, n=ne, p2=p2), 'n=%d with p2_plus=%d' % (ne, p2), T)
    # unpadded
    g = _generate(eqsig, s, style, pad_off)
    c = _calc(eqsig, s, style)
    s2 = _mk(eqsig, clsname, x, dt_in)
    _gen(s2, style, n=_int_as(npts, p.get('int_form')))
    obj = (s2.fa_spectrum, s2.fa_freqs)
    _agree(ctx, wit, xf, dt, obj, g, 'n=npts vs generate_fa_spectrum(n_pad=False)', T)
    _agree(ctx, wit, xf, dt, obj, c, 'n=npts vs calc_fa_spectrum()', T)
    _roundtrip(ctx, eqsig, xf, dt_in, npts, c[0], wit, 'unpadded', stype if p.get('signal_on') == 'nopad' else None,
               T, style, p.get('fas_form'))
    # the arrays the array-level functions returned belong to the caller: overwriting them changes no later answer
    for arr in (g[0], g[1], c[0], c[1]):
        if isinstance(arr, np.ndarray) and arr.flags.writeable:
            arr[...] = 12345.0
    s2.fa_spectrum
    s2.fa_frequencies
    s.fa_spectrum
    s.fa_freqs
    _generate(eqsig, s, style, pad_off)         # the same calls again, on the same objects
    _calc(eqsig, s, style)
    # the caller's record container is what it was before the first call
    _judge(ctx, _unchanged(x, snap), 'argument-unchanged[record]', wit,
           'the container the signals were built from changed during the calls (%s)' % type(x).__name__)
    # ... and so is every scalar the caller holds as a 0-d array (dt, n, p2_plus, n_pad went to several calls each)
    _check_scalars_unchanged(ctx, 'the calls of one case', wit, scalars)


def _fas_as(fa, form):
    """The spectrum handed to the inverse helper in another container / dtype / memory form (same numbers, except
    complex64 which rounds them: the helper is then judged against the rounded bins it was given)."""
    if form == 'list':
        return [complex(v) for v in fa]
    if form == 'tuple':
        return tuple(complex(v) for v in fa)
    if form == 'readonly':
        v = np.array(fa)
        v.flags.writeable = False
        return v
    if form == 'strided':
        buf = np.zeros(2 * len(fa), dtype=complex)
        buf[::2] = fa
        return buf[::2]
    if form == 'c64':
        return np.asarray(fa).astype(np.complex64)
    return fa


def _roundtrip(ctx, eqsig, xf, dt, N, fa, wit, what, stype, T=TIGHT, style='kw', fas_form=None):
    """record -> (real) spectrum -> inverse helper == padded record minus mean and Nyquist component (even N). The SAME
    spectrum object goes to two or three consecutive calls; every result is judged against the record, i.e. against
    what the spectrum was before the first of them."""
    if N < len(xf):
        return
    if np.shape(fa) != (N // 2,):
        return                     # already reported by the nbins clause
    if fas_form == 'c64':                  # only while every bin is a normal float32 (not at the extreme scales)
        mag = np.abs(np.asarray(fa))
        mag = mag[mag > 0]
        if mag.size and (float(np.max(mag)) > 1e30 or float(np.min(mag)) < 1e-30):
            fas_form = None
    given = _fas_as(fa, fas_form)
    if fas_form == 'c64':
        T = LOOSE
    kw = style == 'kw-all'
    outs = [('fas2values', eqsig.fas2values(fas=given, dt=dt) if kw else eqsig.fas2values(given, dt))]
    if stype is not None:
        sg = eqsig.fas2signal(given, dt, stype) if style == 'pos' else \
            (eqsig.fas2signal(fas=given, dt=dt, stype=stype) if kw else eqsig.fas2signal(given, dt, stype=stype))
        outs.append(('fas2signal', sg.values))
        outs.append(('fas2values (same spectrum object again)', eqsig.fas2values(given, dt)))
    if N % 2:
        ctx.observe('not judged: round trip through the inverse helper for odd N')
        return
    ref = O.minus_mean_and_nyquist(O.zero_pad(xf, N))
    scale = float(np.max(np.abs(xf)))
    for name, v in outs:
        v = np.asarray(v)
        ok = v.shape == ref.shape and tol.close(v, ref, scale=scale, rtol=T['inv'])
        _judge(ctx, ok, 'inverse.roundtrip==x_pad-mean-nyquist', wit,
               lambda: '%s(%s spectrum, N=%d, npts=%d): %s' % (name, what, N, len(xf),
                                                            tol.describe(v, ref, scale=scale, rtol=T['inv'])))


def rel_linearity(ctx, eqsig, p):
    x, y, a, b, dt, mode, clsname, level = (np.asarray(p['x'], dtype=float), np.asarray(p['y'], dtype=float), p['a'], p['b'],
                                            p['dt'], tuple(p['mode']), p['cls'], p['level'])
    z = a * x + b * y
    get = (lambda v: _spectrum_obj(_mk(eqsig, clsname, v, dt), mode)) if level == 'object' else \
        (lambda v: _spectrum(eqsig, _mk(eqsig, clsname, v, dt), mode))
    fx, fy, fz = get(x)[0], get(y)[0], get(z)[0]
    scale = dt * (abs(a) * float(np.sum(np.abs(x))) + abs(b) * float(np.sum(np.abs(y))))
    ok = np.shape(fx) == np.shape(fy) == np.shape(fz)
    comb = None
    if ok:
        comb = a * np.asarray(fx) + b * np.asarray(fy)
        ok = tol.close(fz, comb, scale=scale, rtol=RTOL_BIN)
    _judge(ctx, ok, 'linearity', lambda: dict(p, fn='rel.linearity'),
           lambda: 'FAS(a*x+b*y) != a*FAS(x)+b*FAS(y), a=%r b=%r mode=%r npts=%d: %s'
           % (a, b, mode, len(x), tol.describe(fz, comb, scale=scale, rtol=RTOL_BIN) if comb is not None else 'shapes differ'))


def rel_trailing_zeros(ctx, eqsig, p):
    x, nz, dt, mode, clsname, level = np.asarray(p['values'], dtype=float), p['nz'], p['dt'], tuple(p['mode']), p['cls'], p['level']
    xz = np.concatenate([x, np.zeros(nz)])
    get = (lambda v: _spectrum_obj(_mk(eqsig, clsname, v, dt), mode)) if level == 'object' else \
        (lambda v: _spectrum(eqsig, _mk(eqsig, clsname, v, dt), mode))
    f0, r0 = get(x)
    f1, r1 = get(xz)
    scale = dt * float(np.sum(np.abs(x)))
    ok = np.shape(f0) == np.shape(f1) and np.shape(r0) == np.shape(r1)
    if ok:
        ok = tol.close(f1, f0, scale=scale, rtol=RTOL_BIN) and tol.close(r1, r0, scale=np.abs(np.asarray(r0, dtype=float)), rtol=RTOL_FREQ)
    _judge(ctx, ok, 'trailing-zeros', lambda: dict(p, fn='rel.trailing_zeros'),
           'spectrum changed by %d trailing zeros that keep N (npts=%d, mode=%r): shapes %s -> %s'
           % (nz, len(x), mode, np.shape(f0), np.shape(f1)))


def rel_inverse_object(ctx, eqsig, p):
    """Two-function sequence: record -> spectrum -> fas2signal -> the returned Signal/AccSignal (its values have a
    complex dtype) is itself asked for its spectrum. The monitors judge every read / generation / array-level call on it
    against dt*DFT of its complex values; here: object == array level on it, and its unpadded spectrum gives back the
    source bins (bin 0 removed). An exception on any of these calls is a violation."""
    x, dt, clsname, stype = np.asarray(p['values'], dtype=float), p['dt'], p['cls'], p['stype']
    wit = lambda: dict(p, fn='rel.inverse_object')
    clause = 'fas2signal-object.spectrum==source-bins'
    try:
        src = _spectrum(eqsig, _mk(eqsig, clsname, x, dt), tuple(p['mode']))[0]
        fas = np.array(src)
        rec = eqsig.fas2signal(fas, dt, stype=stype)
        xc = np.asarray(rec.values)
        order = p.get('first', 'fa_spectrum')
        obj = (rec.fa_spectrum, rec.fa_freqs) if order == 'fa_spectrum' else (None, getattr(rec, order))
        obj = (rec.fa_spectrum, obj[1])
        eqsig.im.max_fa_period(rec)
        _agree(ctx, wit, xc, dt, obj, eqsig.generate_fa_spectrum(rec), 'fas2signal object: default vs generate_fa_spectrum')
        rec.gen_fa_spectrum(p2_plus=p['p2_plus'])
        _agree(ctx, wit, xc, dt, (rec.fa_spectrum, rec.fa_freqs), eqsig.calc_fa_spectrum(rec, p2_plus=p['p2_plus']),
               'fas2signal object: p2_plus=%d' % p['p2_plus'])
        ne = rec.npts + p['n_extra']
        rec.gen_fa_spectrum(n=ne)
        _agree(ctx, wit, xc, dt, (rec.fa_spectrum, rec.fa_frequencies), eqsig.calc_fa_spectrum(rec, n=ne), 'fas2signal object: n=%d' % ne)
        eqsig.im.max_fa_period(rec)
        rec.gen_fa_spectrum(n=rec.npts)
        back = np.asarray(rec.fa_spectrum)
        _agree(ctx, wit, xc, dt, (back, rec.fa_freqs), eqsig.calc_fa_spectrum(rec), 'fas2signal object: unpadded')
        fas_snap = fas.copy()
        rec.add_constant(1.0)                       # correcting the returned object leaves the argument alone
        rec.fa_spectrum
        _judge(ctx, _same_bits(fas, fas_snap), 'fas2signal.argument-unchanged', wit,
               'the spectrum passed to fas2signal changed when the returned object was corrected')
        ref = fas.astype(complex)
        ref[0] = 0.0
        amp = 2.0 * float(np.sum(np.abs(fas[1:])))
        ok = back.shape == ref.shape and tol.close(back, ref, scale=amp, rtol=RTOL_BIN)
        _judge(ctx, ok, clause, wit,
               lambda: 'spectrum of the object returned by fas2signal (%d bins, stype=%r) is not the source spectrum without bin 0: %s'
               % (len(fas), stype, tol.describe(back, ref, scale=amp, rtol=RTOL_BIN) if back.shape == ref.shape else 'shapes'))
    except Exception as e:
        ctx.exception(clause, dict(p, fn='rel.inverse_object'), e)


def rel_back_to_back(ctx, eqsig, p):
    """Two different records of the same shape processed back to back while the first results are still held: the held
    arrays (each judged by its monitor when it was produced) are bit-for-bit what they were after the second call."""
    x1, x2, dt, mode, clsname = np.asarray(p['x1'], dtype=float), np.asarray(p['x2'], dtype=float), p['dt'], tuple(p['mode']), p['cls']
    wit = lambda: dict(p, fn='rel.back_to_back')
    s1, s2 = _mk(eqsig, clsname, x1, dt), _mk(eqsig, clsname, x2, dt)
    held = []
    a1 = _spectrum(eqsig, s1, mode)
    held += [('array-level spectrum', a1[0]), ('array-level frequencies', a1[1])]
    o1 = _spectrum_obj(s1, mode)
    held += [('object spectrum', o1[0]), ('object frequencies', o1[1])]
    v1 = eqsig.fas2values(a1[0], dt)
    g1 = eqsig.fas2signal(a1[0], dt, stype=p.get('stype', 'signal'))
    held += [('fas2values result', v1), ('fas2signal values', g1.values)]
    m1 = eqsig.im.max_fa_period(s1)
    snaps = [np.array(h[1]) for h in held]
    # the second record through the same paths
    a2 = _spectrum(eqsig, s2, mode)
    _spectrum_obj(s2, mode)
    eqsig.fas2values(a2[0], dt)
    eqsig.fas2signal(a2[0], dt, stype=p.get('stype', 'signal'))
    eqsig.im.max_fa_period(s2)
    bad = [h[0] for h, sn in zip(held, snaps) if not _same_bits(np.asarray(h[1]), sn)]
    _judge(ctx, not bad, 'back-to-back.first-result-intact', wit,
           'results held from the first record changed when a second record of the same shape was processed: %s' % bad)
    # and the first object still answers for its own record (re-read under the lazy monitor, re-asked for the period)
    s1.fa_spectrum
    s1.fa_freqs
    m1b = eqsig.im.max_fa_period(s1)
    _judge(ctx, m1 == m1b or (m1 != m1 and m1b != m1b), 'back-to-back.first-result-intact', wit,
           'max_fa_period of the first object changed from %r to %r after the second record was processed' % (m1, m1b))


# ---------------------------------------------------------------------------------------------------- object histories
SIGNAL_MUTATORS = ['reset_values/same', 'reset_values/shorter', 'reset_values/longer', 'add_constant', 'add_series',
                   'add_signal', 'add_series/own-values', 'add_signal/self', 'butter_pass/band', 'butter_pass/low',
                   'butter_pass/high', 'remove_average', 'remove_poly', 'running_average']
ACC_MUTATORS = ['remove_rolling_average/velocity', 'remove_rolling_average/acceleration', 'rebase_displacement',
                'set_zero_residual_velocity/None', 'set_zero_residual_velocity/t0,t1', 'set_zero_residual_velocity/t0,None',
                'set_zero_residual_displacement', 'set_zero_residual_displacement_and_velocity/None',
                'set_zero_residual_displacement_and_velocity/t0,t1', 'set_zero_residual_displacement_and_velocity/t0,None',
                'correct_me']
INVERSE_STEPS = ['inverse/fas2values', 'inverse/fas2signal-signal', 'inverse/fas2signal-acc']   # not mutators: the object's
# own spectrum array is handed to the inverse helper, then read again (it must still be dt*DFT of the values)
LONG_ONLY = set(ACC_MUTATORS) | {'butter_pass/band', 'butter_pass/low', 'butter_pass/high'}    # need >= 64 samples
HISTORY_COMBOS = [('Signal', k) for k in SIGNAL_MUTATORS + INVERSE_STEPS] + \
    [('AccSignal', k) for k in SIGNAL_MUTATORS + ACC_MUTATORS + INVERSE_STEPS]


def _draw_mutator(rng, kind, npts, dt):
    """One JSON-able mutator call [method, args...] of the given kind for an object holding npts samples."""
    name, _, var = kind.partition('/')
    if name == 'inverse':
        return ['fas2values', int(rng.integers(1, 3))] if var == 'fas2values' else ['fas2signal', var.split('-')[1]]
    if var in ('own-values', 'self'):
        return [name, var]
    if name == 'reset_values':
        if var == 'same':
            m = npts
        elif var == 'shorter':
            m = int(rng.integers(2, max(3, npts)))
        else:
            m = npts + int(rng.integers(1, npts + 4))
        v = gen.record(rng, m)[0]
        r = rng.random()
        if r > 0.92:                                  # an on/off record (bool dtype / Python bools)
            return [name, v > float(np.median(v))] if r > 0.95 else [name, [bool(t > 0) for t in v]]
        return [name, [float(t) for t in v] if r < 0.2 else (tuple(float(t) for t in v) if r < 0.3 else v)]
    if name == 'add_constant':
        c = float(rng.choice([-1.0, 1.0]) * 10.0 ** rng.uniform(-2, 1))
        return [name, int(round(c)) or 1] if rng.random() < 0.2 else [name, c]
    if name in ('add_series', 'add_signal'):
        v = gen.record(rng, npts)[0]
        return [name, v > 0] if rng.random() < 0.06 else [name, v]
    if name == 'butter_pass':
        nyq = 0.5 / dt
        lo, hi = float(nyq * rng.uniform(0.02, 0.2)), float(nyq * rng.uniform(0.4, 0.9))
        if rng.random() < 0.25:                       # corners within 1 % of the Nyquist frequency / below 1e-3 of it
            hi = float(nyq * (1.0 - 10.0 ** rng.uniform(-4, -2)))
        if rng.random() < 0.25:
            lo = float(nyq * 10.0 ** rng.uniform(-5, -3))
        cut = {'band': [lo, hi], 'low': [None, hi], 'high': [lo, None]}[var]
        kw = {}
        if rng.random() < 0.3:
            kw['remove_gibbs'] = ['start', 'end', 'mid'][int(rng.integers(3))]
        if rng.random() < 0.3:
            kw['filter_order'] = int(rng.integers(2, 5))
        return [name, cut, kw, 'array' if var == 'band' and rng.random() < 0.5 else ('list' if rng.random() < 0.5 else 'tuple')]
    if name == 'remove_average':
        return [name, -1 if rng.random() < 0.6 else int(rng.integers(1, npts))]
    if name == 'remove_poly':
        return [name, int(rng.integers(0, 4))]
    if name == 'running_average':
        return [name, int(rng.integers(1, 10))]
    if name == 'remove_rolling_average':
        width = int(rng.integers(1, 16))
        return [name, var, float(1.0 / ((width + 0.5) * dt))]
    if name in ('set_zero_residual_velocity', 'set_zero_residual_displacement_and_velocity'):
        if var == 'None':
            return [name, None]
        i0 = int(rng.integers(0, npts - 8))
        t0 = (i0 + 0.5) * dt
        if var == 't0,None':
            return [name, [t0, None]]
        i1 = int(rng.integers(i0 + 3, npts))
        return [name, [t0, (i1 + 0.5) * dt]]
    return [name]          # rebase_displacement, set_zero_residual_displacement, correct_me


def _apply_mutator(eqsig, s, m, held):
    """Apply one step to s. Array arguments handed in are appended to held as (label, object, snapshot)."""
    name = m[0]

    def hold(label, obj):
        if isinstance(obj, (np.ndarray, list, tuple)):
            held.append((label, obj, _snapshot(obj)))
        return obj

    if name == 'fas2values':                  # interaction: the very array the property returns goes to the helper
        for _ in range(int(m[1]) if len(m) > 1 else 1):
            eqsig.fas2values(s.fa_spectrum, s.dt)
    elif name == 'fas2signal':
        back = eqsig.fas2signal(s.fa_spectrum, s.dt, stype=m[1])
        back.fa_freqs                         # the reconstructed (complex-valued) object answers for its own record
        back.fa_spectrum
    elif name == 'reset_values':
        s.reset_values(hold('reset_values argument', m[1]))
    elif name == 'add_constant':
        s.add_constant(m[1])
    elif name == 'add_series':
        s.add_series(s.values if isinstance(m[1], str) else hold('add_series argument', m[1]))
    elif name == 'add_signal':
        s.add_signal(s if isinstance(m[1], str) else type(s)(hold('add_signal values', m[1]), s.dt))
    elif name == 'butter_pass':
        form = m[3] if len(m) > 3 else 'tuple'
        cut = np.array(m[1], dtype=float) if form == 'array' else (list(m[1]) if form == 'list' else tuple(m[1]))
        s.butter_pass(hold('butter_pass cut_off', cut), **m[2])
    elif name == 'remove_average':
        s.remove_average(section=m[1])
    elif name == 'remove_poly':
        s.remove_poly(poly_fit=m[1])
    elif name == 'running_average':
        s.running_average(m[1])
    elif name == 'remove_rolling_average':
        s.remove_rolling_average(mtype=m[1], freq_window=m[2])
    elif name in ('set_zero_residual_velocity', 'set_zero_residual_displacement_and_velocity'):
        getattr(s, name)(timezone=m[1])
    elif name in ('rebase_displacement', 'set_zero_residual_displacement', 'correct_me'):
        getattr(s, name)()
    elif name == 'call':                      # ['call', method, [args], {kwargs}]: any public method, JSON-able arguments
        getattr(s, m[1])(*[hold('%s argument' % m[1], a) for a in m[2]], **(m[3] if len(m) > 3 else {}))
    elif name == 'add_signal/other':          # a companion of another time step / class: ['add_signal/other', values, dt]
        s.add_signal(eqsig.Signal(hold('add_signal values', m[1]), m[2]))
    else:
        raise ValueError('unknown mutator %r' % (name,))


def _read(eqsig, s, what):
    """One read through the public API; every one of them passes the lazy monitor."""
    if what == 'max_fa_period':
        return eqsig.im.max_fa_period(s)
    return getattr(s, what)


REBINDING = ('reset_values', 'add_constant')     # operations that bind a NEW value buffer (safe after copy.copy)


class _NoPlot(object):
    """Stands in for a matplotlib subplot: eqsig.stockwell.plot_stock memoises the transform on the signal (.swtf)."""
    def imshow(self, *a, **k):
        return None


def _warm(eqsig, s, what):
    """Fill one kind of derived cache of s through the public API (the cache states of a copied / pickled object)."""
    if what == 'smooth':
        s.smooth_fa_spectrum
    elif what == 'velocity':
        s.velocity
        s.displacement
    elif what == 'peaks':
        s.pga, s.pgv, s.pgd
    elif what == 'response':
        s.s_a
    elif what == 'stockwell':
        eqsig.stockwell.plot_stock(_NoPlot(), s)
    else:
        raise ValueError(what)


def _carry_memo(src, new):
    """A copy carries the spectrum memo of its source: same bookkeeping of the options it was generated with."""
    ent = _LAST.get(id(src))
    if ent is not None and ent[0]() is src:
        _LAST[id(new)] = (weakref.ref(new),) + tuple(ent[1:])
    else:
        _LAST.pop(id(new), None)


def rel_history(ctx, eqsig, p):
    """A history of steps on one object (or on two twin objects): reads of the lazy properties / max_fa_period, explicit
    regenerations with options, array-level spectrum calls on the object, public mutators and interaction steps, in the
    order given by p['steps'] = [[object index, kind, args...], ...]. The verdict comes from the monitors: whatever is
    read or computed must be dt*DFT of the object's CURRENT zero-padded values (clauses lazy-after-mutation.* for the
    first read after a change of the values, lazy.* / gen_fa_spectrum.* / calc_fa_spectrum.* ... for the others).
    Exceptions of a mutator are counted, not judged (C17 judges the mutators); what follows is judged in any case.
    Twins: 'same-array' builds both objects from one caller array, 'from-values' builds the second from the first one's
    .values, 'reset-same-array' resets both to one caller array. At the end every array handed in is what it was.
    Round 3: p['cluster'] takes the object(s) out of an eqsig.Cluster; steps 'warm' (fill another derived cache), 'derive'
    by copy.copy / copy.deepcopy / pickle round trip, 'assign' (setattr through a public name) and mutator calls that
    raise; with p['family'] the lazy reads after the first such step are reported under '<family>.*'."""
    _HISTORY[0] = p
    _PHASE[0] = None
    family = p.get('family')
    held = []
    shallow = []                 # pairs (copy, source) made by copy.copy: they share the value buffer until one rebinds
    try:
        A = _as_form(p['values'], p.get('form'))
        held.append(('constructor values', A, _snapshot(A)))
        if p.get('cluster') is not None:
            rows = [A, np.asarray(p['cluster'], dtype=float)]
            cl = eqsig.Cluster(rows, p['dt'], stypes='acc' if p['cls'] == 'AccSignal' else 'custom')
            objs = [cl.signal_by_index(0), cl.signal_by_index(1)]
        else:
            objs = [_mk(eqsig, p['cls'], A, p['dt'])]
        twin = p.get('twin')
        if twin:
            other = 'Signal' if p['cls'] == 'AccSignal' and twin != 'from-values' else p['cls']
            if twin == 'same-array':
                objs.append(_mk(eqsig, other, A, p['dt']))
            elif twin == 'from-values':
                objs.append(_mk(eqsig, other, objs[0].values, p['dt']))
            else:
                B = p['twin_values']
                held.append(('array both twins were reset to', B, _snapshot(B)))
                objs.append(_mk(eqsig, other, np.zeros(3), p['dt']))
                for o in objs:
                    o.reset_values(B)
        for st in p['steps']:
            s, kind = objs[min(int(st[0]), len(objs) - 1)], st[1]
            if kind == 'read':
                _read(eqsig, s, st[2])
            elif kind == 'gen':
                s.gen_fa_spectrum(p2_plus=st[2], n=st[3])
            elif kind == 'generate':
                eqsig.generate_fa_spectrum(s, n_pad=st[2])
            elif kind == 'calc':
                eqsig.calc_fa_spectrum(s, n=st[2], p2_plus=st[3])
            elif kind == 'warm':
                try:
                    with np.errstate(all='ignore'):
                        _warm(eqsig, s, st[2])
                except Exception as e:
                    ctx.observe('history: warming %s raised %s (counted, not judged here)' % (st[2], type(e).__name__))
            elif kind == 'assign':                # assignment through a public attribute name after construction
                val = st[3]
                if isinstance(val, (np.ndarray, list, tuple)):
                    held.append(('value assigned to .%s' % st[2], val, _snapshot(val)))
                try:
                    setattr(s, st[2], val)
                    ctx.observe('history: assignment to .%s accepted' % st[2])
                except Exception as e:
                    ctx.observe('history: assignment to .%s raised %s' % (st[2], type(e).__name__))
                if family == 'after-assignment':
                    _PHASE[0] = family
            elif kind == 'derive':                # an object the library (or the copy / pickle protocol) derives from this one
                try:
                    if st[2] in ('deepcopy', 'copy', 'pickle'):
                        new = copy.deepcopy(s) if st[2] == 'deepcopy' else \
                            (copy.copy(s) if st[2] == 'copy' else pickle.loads(pickle.dumps(s, protocol=st[3] if len(st) > 3 else None)))
                        _carry_memo(s, new)
                        if st[2] == 'copy':
                            shallow.append((new, s))
                        if family == 'copy-protocol':
                            _PHASE[0] = family
                    elif st[2] == 'interp':
                        new = eqsig.interp_to_approx_dt(s, target_dt=s.dt * st[3], even=bool(st[4]))
                    else:
                        new = eqsig.combine_at_angle(s, objs[-1], st[3])
                    objs.append(new)
                except Exception as e:
                    if st[2] in ('deepcopy', 'copy', 'pickle'):
                        ctx.exception('copy-protocol.nbins==N//2', dict(p, fn='rel.history'), e)
                    else:
                        ctx.observe('history: deriving by %s raised %s (counted, not judged here)' % (st[2], type(e).__name__))
            else:
                sharing = [t for pair in shallow if s in pair for t in pair if t is not s and np.shares_memory(t.values, s.values)]
                if sharing and st[2][0] not in REBINDING:
                    ctx.observe('history: in-place operation on a shallow copy that shares its buffer skipped')
                    continue
                try:
                    with np.errstate(all='ignore'):
                        _apply_mutator(eqsig, s, st[2], held)
                except Exception as e:
                    ctx.observe('history: mutator %s raised %s (counted, not judged here)'
                                % (st[2][1] if st[2][0] == 'call' else st[2][0], type(e).__name__))
                    if family == 'after-raise':
                        _PHASE[0] = family
                if sharing and any(np.shares_memory(t.values, s.values) for t in sharing):
                    ctx.observe('history: shallow copies still share their buffer after a rebinding operation - not judged further')
                    break
        bad = [label for label, obj, snap in held if not _unchanged(obj, snap)]
        _judge(ctx, not bad, 'argument-unchanged[record]', lambda: dict(p, fn='rel.history'),
               'arrays handed to the object(s) changed during the history: %s' % bad)
    finally:
        _HISTORY[0] = None
        _PHASE[0] = None


def _draw_history(rng, h, tier):
    clsname, kind = HISTORY_COMBOS[h % len(HISTORY_COMBOS)]
    kinds = [kind]
    pool = SIGNAL_MUTATORS + (ACC_MUTATORS if clsname == 'AccSignal' else []) + INVERSE_STEPS
    if rng.random() < 0.4:
        kinds.append(pool[int(rng.integers(len(pool)))])
    need_long = any(k in LONG_ONLY for k in kinds)
    nmax = 1024 if tier == 'quick' else 2048
    lo = 64 if need_long else 4
    npts = int(round(2.0 ** rng.uniform(np.log2(lo), np.log2(nmax if need_long or rng.random() < 0.3 else 200))))
    npts = min(max(npts, lo), nmax)
    interaction = any(k in INVERSE_STEPS for k in kinds)
    form = None
    if need_long or interaction or rng.random() < 0.6:
        x = np.zeros(npts)
        while not np.any(x != 0):
            x, rcls = gen.record(rng, npts)
        if interaction:                                     # clearly non-zero mean: bin 0 of the spectrum carries weight
            x = x + float(rng.choice([-1.0, 1.0])) * float(rng.integers(1, 4)) * float(np.max(np.abs(x)))
            rcls += '+offset'
        cont = 'f64'
        if np.all(x == np.round(x)) and rng.random() < 0.3:
            xin, cont = x.astype(np.int64), 'i64'     # in-place corrections raise on these: counted, read-after still judged
        else:
            xin = x
    else:                                                   # any dtype / container / view form for the simple mutators
        xin, form, rcls, cont = _draw_input(rng, npts)
    dt = gen.dt(rng) if need_long or 'extreme' in rcls or rng.random() < 0.7 else _draw_dt(rng)[0]
    mutators = []
    n_now = npts
    for k in kinds:
        m = _draw_mutator(rng, k, n_now, dt)
        mutators.append(m)
        if m[0] == 'reset_values':
            n_now = len(m[1])
            if n_now < 64:
                break                                   # later long-only mutators would only raise
    names = ['fa_spectrum', 'fa_freqs', 'fa_frequencies']

    def reads(o, pmax):
        out = [[o, 'read', names[int(i)]] for i in rng.permutation(3)[:int(rng.integers(1, 4))]]
        if rng.random() < pmax:
            out.insert(int(rng.integers(len(out) + 1)), [o, 'read', 'max_fa_period'])
        return out

    def extra(o, n_cur):
        """An explicit regeneration with options, an array-level call on the object, or a repeated read."""
        r = rng.random()
        if r < 0.3:
            return [o, 'gen', int(rng.integers(0, 4)), None] if rng.random() < 0.6 else [o, 'gen', 0, n_cur + int(rng.integers(0, n_cur + 2))]
        if r < 0.45:
            return [o, 'generate', bool(rng.random() < 0.5)]
        if r < 0.7:
            k = int(rng.integers(3))
            return [o, 'calc', None, None] if k == 0 else ([o, 'calc', n_cur + int(rng.integers(0, 9)), None] if k == 1
                                                           else [o, 'calc', None, int(rng.integers(0, 4))])
        return [o, 'read', names[int(rng.integers(3))]]

    twin = None
    p = {'values': xin, 'form': form, 'dt': dt, 'cls': clsname}
    if rng.random() < 0.2:
        twin = ['same-array', 'from-values', 'reset-same-array'][int(rng.integers(3))]
        if twin == 'reset-same-array':
            p['twin_values'] = gen.record(rng, npts)[0] + (1.0 if interaction else 0.0)
    p['twin'] = twin
    steps = []
    r = rng.random() * (0.5 if interaction else 1.0)      # interaction steps: half of them after an explicit generation
    if r < 0.2:
        steps.append([0, 'gen', int(rng.integers(0, 4)), None])
    elif r < 0.3:
        steps.append([0, 'gen', 0, npts + int(rng.integers(0, npts + 2))])
    steps += reads(0, 0.3)
    if twin:
        steps += reads(1, 0.3)                            # the twin's spectrum exists before the first object is touched
    for m in mutators:
        if rng.random() < 0.15:
            steps.append(extra(0, n_now))
        steps.append([0, 'mut', m])
    steps += reads(0, 0.5)
    if twin:
        steps += reads(1, 0.5)
    if rng.random() < 0.25:                               # a derived object: analysed itself, mutated, both re-read
        k = int(rng.integers(3)) if clsname == 'AccSignal' and n_now >= 8 else 0
        d = [[0, 'derive', 'deepcopy'], [0, 'derive', 'interp', float(rng.choice([1.0, 2.0, 0.5])), int(rng.integers(2))],
             [0, 'derive', 'combine', float(rng.choice([0.0, 30.0, 90.0]))]][k]
        o = 2 if twin else 1
        steps.append(d)
        steps += reads(o, 0.4)
        if rng.random() < 0.6:
            steps.append([o, 'mut', _draw_mutator(rng, ['add_constant', 'remove_average', 'running_average', 'reset_values/shorter'][int(rng.integers(4))], max(n_now // 2, 2) if k == 1 else n_now, dt)])
            steps += reads(o, 0.4)
            steps += reads(0, 0.3)
    for _ in range(int(rng.integers(0, 4))):              # tail: more steps in random order, with repeats
        steps.append(extra(int(rng.integers(2)) if twin else 0, n_now))
    if rng.random() < 0.3:
        steps += reads(0, 0.3)
    p['steps'] = steps
    return p, kinds, rcls, cont


# ---------------------------------------------------------------------------------------------------- round 3 histories
NAMES3 = ['fa_spectrum', 'fa_freqs', 'fa_frequencies']
CACHE_STATES = ['cold', 'fa', 'smooth', 'velocity', 'peaks', 'response', 'stockwell', 'all']
SIG_CACHE_STATES = ['cold', 'fa', 'smooth', 'stockwell']
PROTOCOLS = ['copy', 'deepcopy', 'pickle']


def _reads3(rng, o, pmax):
    out = [[o, 'read', NAMES3[int(i)]] for i in rng.permutation(3)[:int(rng.integers(1, 4))]]
    if rng.random() < pmax:
        out.insert(int(rng.integers(len(out) + 1)), [o, 'read', 'max_fa_period'])
    return out


def _plain_record(rng, npts):
    x = np.zeros(npts)
    while not np.any(x != 0):
        x, rcls = gen.record(rng, npts)
    return x, rcls


def _entry_step(rng, o, n_cur):
    """One monitored entry point other than a lazy read, at default or non-default options."""
    k = int(rng.integers(6))
    if k == 0:
        return [o, 'gen', int(rng.integers(0, 4)), None]
    if k == 1:
        return [o, 'gen', 0, n_cur + int(rng.integers(0, n_cur + 2))]
    if k == 2:
        return [o, 'generate', bool(rng.random() < 0.5)]
    if k == 3:
        return [o, 'calc', None, None]
    if k == 4:
        return [o, 'calc', n_cur + int(rng.integers(0, 9)), None]
    return [o, 'calc', None, int(rng.integers(0, 4))]


def _draw_protocol_history(rng, h, tier):
    """copy.copy / copy.deepcopy / pickle round trip of a Signal / AccSignal / Cluster member in every cache state, then
    reads, explicit regenerations and mutators on the copy AND on the original, in both orders."""
    clsname = 'AccSignal' if h % 2 else 'Signal'
    states = CACHE_STATES if clsname == 'AccSignal' else SIG_CACHE_STATES
    proto = PROTOCOLS[(h // 2) % 3]
    state = states[(h // 6) % len(states)]
    copy_first = bool((h // (6 * len(states))) % 2) if rng.random() < 0.7 else bool(rng.integers(2))
    heavy = state in ('stockwell', 'all')
    npts = int(round(2.0 ** rng.uniform(2.0, 7.0 if heavy else 9.0)))
    if clsname == 'AccSignal' and proto != 'copy' and rng.random() < 0.6:
        npts = max(npts, 64)                              # long enough for the in-place baseline corrections
    x, rcls = _plain_record(rng, npts)
    dt = gen.dt(rng)
    p = {'values': x, 'form': None, 'dt': dt, 'cls': clsname, 'twin': None, 'family': 'copy-protocol'}
    if rng.random() < 0.25:
        p['cluster'] = _plain_record(rng, npts)[0]
    steps = []
    r = rng.random()
    if state != 'cold' and r < 0.25:                      # the memo of the source stems from non-default options
        steps.append([0, 'gen', int(rng.integers(1, 4)), None])
    elif state != 'cold' and r < 0.4:
        steps.append([0, 'gen', 0, npts + int(rng.integers(0, npts + 2))])
    if state == 'fa':
        steps += _reads3(rng, 0, 0.3)
    elif state == 'all':
        steps += _reads3(rng, 0, 0.3) + [[0, 'warm', w] for w in ('smooth', 'velocity', 'peaks', 'response', 'stockwell')]
    elif state != 'cold':
        steps.append([0, 'warm', state])
        if rng.random() < 0.5:
            steps += _reads3(rng, 0, 0.2)
    steps.append([0, 'derive', proto] + ([int(rng.integers(2, 6))] if proto == 'pickle' and rng.random() < 0.5 else []))
    c = 2 if p.get('cluster') is not None else 1          # index of the copy
    X, Y = (c, 0) if copy_first else (0, c)
    pool = ['reset_values/same', 'reset_values/shorter', 'reset_values/longer', 'add_constant']
    inplace = []
    if proto != 'copy':
        pool = pool + ['add_series', 'remove_average', 'remove_poly', 'running_average', 'add_series/own-values']
        if clsname == 'AccSignal' and npts >= 64:         # these write into the value buffer the object holds
            inplace = ['rebase_displacement', 'remove_rolling_average/acceleration', 'set_zero_residual_velocity/None',
                       'set_zero_residual_displacement', 'set_zero_residual_displacement_and_velocity/None']
    n_of = {X: npts, Y: npts}

    def act(o):
        """a mutator, an explicit regeneration, or another entry point on object o"""
        r = rng.random()
        if r < 0.65:
            src = inplace if inplace and rng.random() < 0.5 else pool
            m = _draw_mutator(rng, src[int(rng.integers(len(src)))], n_of[o], dt)
            if m[0] == 'reset_values':
                n_of[o] = len(m[1])
            return [[o, 'mut', m]]
        return [_entry_step(rng, o, n_of[o])]

    if rng.random() < 0.6:
        steps += _reads3(rng, X, 0.3)
    steps += act(X)
    steps += _reads3(rng, X, 0.4)
    steps += _reads3(rng, Y, 0.4)
    if rng.random() < 0.7:
        steps += act(Y)
        steps += _reads3(rng, Y, 0.3)
        steps += _reads3(rng, X, 0.3)
    if rng.random() < 0.3:                                # the caches of both are warmed again and read once more
        w = ['smooth', 'stockwell'] if clsname == 'Signal' else ['smooth', 'velocity', 'peaks']
        steps.append([int(rng.choice([X, Y])), 'warm', w[int(rng.integers(len(w)))]])
        steps += _reads3(rng, Y, 0.2) + _reads3(rng, X, 0.2)
    p['steps'] = steps
    return p, ['%s/%s/%s' % (proto, state, 'copy-first' if copy_first else 'original-first')], rcls, 'f64'


def _short_values(rng, k, form):
    v = [float(t) for t in np.sort(10.0 ** rng.uniform(-1, 1.3, size=k))]
    return v if form == 'list' else (tuple(v) if form == 'tuple' else np.array(v))


ASSIGN_NAMES = ['values', 'values', 'values', 'dt', 'npts', 'label', 'smooth_fa_freqs', 'smooth_fa_frequencies', 'response_times',
                'fa_spectrum', 'fa_freqs', 'smooth_freq_range', 'smooth_freq_points', 'ccbox', 'time']


def _draw_assign_history(rng, h, tier):
    """Assignment through every public attribute / property name after construction, in list / tuple / ndarray form with
    1, 2, 3 or many entries, then every entry point. The object must behave like one that holds its CURRENT .values / .dt
    (the clean code ignores `values = ...`, refuses dt / npts / fa_spectrum, accepts the frequency and period lists)."""
    clsname = 'AccSignal' if h % 2 else 'Signal'
    name = ASSIGN_NAMES[(h // 2) % len(ASSIGN_NAMES)]
    form = ['list', 'tuple', 'ndarray'][(h // (2 * len(ASSIGN_NAMES))) % 3]
    npts = int(round(2.0 ** rng.uniform(1.0, 8.0)))
    npts = max(npts, 2)
    x, rcls = _plain_record(rng, npts)
    dt = gen.dt(rng)
    p = {'values': x, 'form': None, 'dt': dt, 'cls': clsname, 'twin': None, 'family': 'after-assignment'}
    if name in ('values', 'fa_spectrum', 'fa_freqs', 'time'):
        m = [npts, 1, 2, 3, max(2, npts // 2), npts + 1, 2 * npts + 3][int(rng.integers(7))]
        v = gen.record(rng, m)[0] + (1.0 if rng.random() < 0.5 else 0.0)
        if name == 'fa_spectrum':
            v = v.astype(complex)
        val = [complex(t) if name == 'fa_spectrum' else float(t) for t in v] if form == 'list' else \
            (tuple(float(t) for t in v) if form == 'tuple' and name != 'fa_spectrum' else v)
    elif name == 'dt':
        val = [dt * 2, dt / 2, float(np.float32(dt)), 1][int(rng.integers(4))]
    elif name == 'npts':
        val = int(rng.integers(1, 2 * npts + 2))
    elif name == 'label':
        val = 'renamed'
    elif name in ('smooth_fa_freqs', 'smooth_fa_frequencies', 'response_times'):
        val = _short_values(rng, [1, 2, 3, 3, 40][int(rng.integers(5))], form)
    elif name == 'smooth_freq_range':
        val = _short_values(rng, 2, form)
    elif name == 'smooth_freq_points':
        val = int(rng.integers(2, 40))
    else:
        val = int(rng.integers(0, 5))
    steps = []
    r = rng.random()
    if r < 0.3:
        steps.append([0, 'gen', int(rng.integers(0, 4)), None])
    elif r < 0.45:
        steps.append([0, 'gen', 0, npts + int(rng.integers(0, npts + 2))])
    if rng.random() < 0.75:                               # warm or cold when the assignment comes
        steps += _reads3(rng, 0, 0.3)
    if rng.random() < 0.25:
        steps.append([0, 'warm', 'smooth'])
    steps.append([0, 'assign', name, val])
    n_cur = npts
    order = list(rng.permutation(4))
    for k in order:
        if k == 0:
            steps += _reads3(rng, 0, 0.5)
        elif k == 1:
            steps.append([0, 'calc', None, None])
            steps.append([0, 'generate', False])
        elif k == 2:
            steps.append(_entry_step(rng, 0, n_cur))
        elif rng.random() < 0.5:
            steps.append([0, 'warm', 'smooth'])
    if rng.random() < 0.4:                                # a public mutator afterwards, then reads again
        steps.append([0, 'mut', _draw_mutator(rng, ['add_constant', 'reset_values/shorter', 'reset_values/longer', 'remove_average'][int(rng.integers(4))], n_cur, dt)])
        steps += _reads3(rng, 0, 0.4)
    p['steps'] = steps
    return p, ['assign:%s/%s' % (name, form)], rcls, 'f64'


RAISING = ['add_series/longer', 'add_series/shorter', 'add_series/list-longer', 'add_signal/other-dt', 'add_signal/other-length',
           'add_signal/not-a-signal', 'butter_pass/three', 'butter_pass/scalar', 'butter_pass/reversed', 'butter_pass/above-nyquist',
           'butter_pass/none-none', 'butter_pass/too-short', 'reset_values/ragged', 'remove_poly/negative', 'remove_average/str',
           'running_average/str', 'add_constant/str', 'add_constant/wrong-shape', 'gen_fa_spectrum/n-zero',
           'gen_fa_spectrum/n-negative', 'gen_fa_spectrum/n-float', 'gen_fa_spectrum/p2-str',
           'nonfinite/reset-nan', 'nonfinite/reset-inf', 'nonfinite/add_constant-nan', 'nonfinite/add_series-inf', 'nonfinite/add_constant-inf']
ACC_RAISING = ['remove_rolling_average/too-high', 'set_zero_residual_displacement/timezone', 'set_zero_residual_velocity/scalar',
               'set_zero_residual_displacement_and_velocity/scalar']


def _draw_refused(rng, kind, npts, dt):
    """One JSON-able operation the clean code refuses with an exception (before it changes anything), or - 'nonfinite/*' -
    accepts silently although the record then holds NaN / inf."""
    name, _, var = kind.partition('/')
    nyq = 0.5 / dt
    if name == 'add_series':
        m = npts + int(rng.integers(1, 5)) if 'longer' in var else max(1, npts - int(rng.integers(1, 4)))
        v = gen.record(rng, m)[0] + 1.0
        return ['call', 'add_series', [[float(t) for t in v] if var.startswith('list') else v]]
    if name == 'add_signal':
        if var == 'not-a-signal':
            return ['call', 'add_signal', [[float(t) for t in gen.record(rng, npts)[0]]]]
        if var == 'other-dt':
            return ['add_signal/other', gen.record(rng, npts)[0] + 1.0, float(dt * rng.choice([0.5, 2.0, 1.0 + 1e-9]))]
        return ['add_signal/other', gen.record(rng, npts + int(rng.integers(1, 4)))[0] + 1.0, dt]
    if name == 'butter_pass':
        if var == 'three':
            return ['call', 'butter_pass', [[0.1 * nyq, 0.3 * nyq, 0.6 * nyq]]]
        if var == 'scalar':
            return ['call', 'butter_pass', [0.3 * nyq]]
        if var == 'reversed':
            return ['call', 'butter_pass', [(0.6 * nyq, 0.1 * nyq)]]
        if var == 'above-nyquist':
            return ['call', 'butter_pass', [(None, float(nyq * rng.choice([1.0, 1.5])))] if rng.random() < 0.5 else [(0.1 * nyq, 1.2 * nyq)]]
        if var == 'none-none':
            return ['call', 'butter_pass', [(None, None)]]
        return ['call', 'butter_pass', [(0.1 * nyq, 0.5 * nyq)], {'filter_order': int(npts)}]      # record too short for the padding
    if name == 'reset_values':
        return ['call', 'reset_values', [[[1.0, 2.0], [3.0]]]]
    if name == 'remove_poly':
        return ['call', 'remove_poly', [], {'poly_fit': -1}]
    if name == 'remove_average':
        return ['call', 'remove_average', [], {'section': 'all'}]
    if name == 'running_average':
        return ['call', 'running_average', ['wide']]
    if name == 'add_constant':
        return ['call', 'add_constant', ['1.0']] if var == 'str' else ['call', 'add_constant', [np.ones(npts + 2)]]
    if name == 'gen_fa_spectrum':                     # the spectrum generation itself refuses its options
        kw = {'n-zero': {'n': 0}, 'n-negative': {'n': -int(rng.integers(1, npts + 1))}, 'n-float': {'n': npts + 0.5},
              'p2-str': {'p2_plus': '1'}}[var]
        return ['call', 'gen_fa_spectrum', [], kw]
    if name == 'remove_rolling_average':
        return ['call', 'remove_rolling_average', [], {'mtype': ['velocity', 'acceleration'][int(rng.integers(2))], 'freq_window': 10.0 / dt}]
    if name == 'set_zero_residual_displacement':
        return ['call', 'set_zero_residual_displacement', [], {'timezone': (0.0, npts * dt / 2)}]
    if name in ('set_zero_residual_velocity', 'set_zero_residual_displacement_and_velocity'):
        return ['call', name, [], {'timezone': float(dt)}]
    # non-finite values, accepted silently
    bad = float('nan') if 'nan' in var else float(rng.choice([np.inf, -np.inf]))
    if var.startswith('reset'):
        m = [npts, max(2, npts // 2), npts + 3][int(rng.integers(3))]
        v = gen.record(rng, m)[0] + 1.0
        v[int(rng.integers(m))] = bad
        if rng.random() < 0.3:
            v[:] = bad
        return ['reset_values', v]
    if var.startswith('add_constant'):
        return ['add_constant', bad]
    v = gen.record(rng, npts)[0]
    v[int(rng.integers(npts))] = bad
    return ['add_series', v]


def _draw_raise_history(rng, h, tier):
    """read -> an operation that raises (rejected companion, wrong length, bad option) or that silently makes the record
    non-finite -> every entry point again: the object is as it was (same N, same spectrum) or completely updated."""
    clsname = 'AccSignal' if h % 2 else 'Signal'
    pool = RAISING + (ACC_RAISING if clsname == 'AccSignal' else [])
    kind = pool[(h // 2) % len(pool)]
    lo = 16 if kind.partition('/')[0] in ('set_zero_residual_velocity', 'set_zero_residual_displacement_and_velocity',
                                          'set_zero_residual_displacement', 'remove_rolling_average') else 3
    npts = max(lo, int(round(2.0 ** rng.uniform(1.6, 8.0))))
    x, rcls = _plain_record(rng, npts)
    dt = gen.dt(rng)
    p = {'values': x, 'form': None, 'dt': dt, 'cls': clsname, 'twin': None, 'family': 'after-raise'}
    steps = []
    r = rng.random()
    if r < 0.3:
        steps.append([0, 'gen', int(rng.integers(0, 4)), None])
    elif r < 0.45:
        steps.append([0, 'gen', 0, npts + int(rng.integers(0, npts + 2))])
    if rng.random() < 0.8:
        steps += _reads3(rng, 0, 0.3)
    if rng.random() < 0.3:                                # a successful mutator first: the cache is cold when the refusal comes
        steps.append([0, 'mut', _draw_mutator(rng, ['add_constant', 'remove_average', 'reset_values/same'][int(rng.integers(3))], npts, dt)])
        if rng.random() < 0.5:
            steps += _reads3(rng, 0, 0.2)
    kinds = [kind]
    steps.append([0, 'mut', _draw_refused(rng, kind, npts, dt)])
    if rng.random() < 0.25:
        k2 = pool[int(rng.integers(len(pool)))]
        if not (k2.startswith('nonfinite') or kind.startswith('nonfinite')) and not (lo == 3 and k2 in ACC_RAISING and npts < 16):
            kinds.append(k2)
            steps.append([0, 'mut', _draw_refused(rng, k2, npts, dt)])
    steps += _reads3(rng, 0, 0.5)
    steps.append([0, 'calc', None, None])
    steps.append(_entry_step(rng, 0, npts))
    steps += _reads3(rng, 0, 0.3)
    if rng.random() < 0.6:                                # back to a finite record through the public API, then reads
        steps.append([0, 'mut', _draw_mutator(rng, ['reset_values/same', 'reset_values/shorter', 'reset_values/longer'][int(rng.integers(3))], npts, dt)])
        steps += _reads3(rng, 0, 0.4)
    p['steps'] = steps
    return p, kinds, rcls, 'f64'


# ---------------------------------------------------------------------------------------------------- f(A); f(B); f(A)
ABA_POINTS = ['lazy', 'gen(p2_plus)', 'gen(n)', 'generate', 'generate(n_pad=False)', 'calc', 'calc(n)', 'calc(p2_plus)',
              'fas2values', 'fas2signal', 'max_fa_period']


def _aba_call(eqsig, point, s, p, n):
    """One entry point on signal object s at the (non-default) options of the case -> tuple of result arrays / scalars."""
    if point == 'lazy':
        return s.fa_spectrum, s.fa_freqs
    if point == 'gen(p2_plus)':
        s.gen_fa_spectrum(p2_plus=p['p2_plus'])
        return s.fa_spectrum, s.fa_frequencies
    if point == 'gen(n)':
        s.gen_fa_spectrum(n=n)
        return s.fa_spectrum, s.fa_freqs
    if point == 'generate':
        return eqsig.generate_fa_spectrum(s)
    if point == 'generate(n_pad=False)':
        return eqsig.generate_fa_spectrum(s, n_pad=False)
    if point == 'calc':
        return eqsig.calc_fa_spectrum(s)
    if point == 'calc(n)':
        return eqsig.calc_fa_spectrum(s, n=n)
    if point == 'calc(p2_plus)':
        return eqsig.calc_fa_spectrum(s, p2_plus=p['p2_plus'])
    if point == 'max_fa_period':
        return (np.float64(eqsig.im.max_fa_period(s)),)
    fas = eqsig.calc_fa_spectrum(s, n=n)[0] if p.get('inverse_of') == 'n' else eqsig.calc_fa_spectrum(s)[0]
    if point == 'fas2values':
        return (eqsig.fas2values(fas, s.dt),)
    return (eqsig.fas2signal(fas, s.dt, stype=p['stype']).values,)


def rel_aba(ctx, eqsig, p):
    """Results depend on the arguments only: f(A); f(B); f(A) for every entry point f at the options of the case, A and B
    two draws of one recipe (same or different length, same or different dt). Each call is judged by its monitor; here:
    the third result equals the first BIT FOR BIT (fresh object for A each time, then the first object asked again), and
    the arrays held from the first call are what they were after B and after the repeat."""
    A, B, dtA, dtB, clsname = np.asarray(p['A'], dtype=float), np.asarray(p['B'], dtype=float), p['dt'], p['dt_b'], p['cls']
    nA, nB = int(p['n']), max(int(p['n']), len(B))
    wit = lambda: dict(p, fn='rel.aba')
    for point in p['points']:
        s1 = _mk(eqsig, clsname, A, dtA)
        r1 = _aba_call(eqsig, point, s1, p, nA)
        snaps = [np.array(v) for v in r1]
        _aba_call(eqsig, point, _mk(eqsig, clsname, B, dtB), p, nB)
        mid = [i for i, (v, sn) in enumerate(zip(r1, snaps)) if not _same_bits(np.asarray(v), sn)]
        r3 = _aba_call(eqsig, point, _mk(eqsig, clsname, A, dtA), p, nA)
        r4 = _aba_call(eqsig, point, s1, p, nA)
        bad = [i for i, (v, sn) in enumerate(zip(r1, snaps)) if not _same_bits(np.asarray(v), sn)]
        _judge(ctx, not mid and not bad, 'back-to-back.first-result-intact', wit,
               '%s: results held from f(A) changed %s (result index %s; npts A=%d B=%d)'
               % (point, 'when f(B) ran' if mid else 'when f(A) was repeated', mid or bad, len(A), len(B)))
        for tag, r in (('a fresh object for A', r3), ('the first object again', r4)):
            same = len(r) == len(snaps) and all(_same_bits(np.asarray(v), sn) for v, sn in zip(r, snaps))
            _judge(ctx, same, 'aba.third==first', wit,
                   lambda: '%s: f(A); f(B); f(A) on %s: the repeat differs from the first result (npts A=%d B=%d, n=%d, p2_plus=%d): %s'
                   % (point, tag, len(A), len(B), nA, p['p2_plus'],
                      [tol.describe(np.asarray(v), sn, rtol=0.0) for v, sn in zip(r, snaps) if not _same_bits(np.asarray(v), sn)][:1]))


# ---------------------------------------------------------------------------------------------------- workload
# ---------------------------------------------------------------------------------------------------- round 4: readers
# Reads and analysis calls of OTHER derived quantities between an explicit gen_fa_spectrum(p2_plus | n) and the reads of
# the spectrum. None of them changes the record, so the spectrum read afterwards is still dt*DFT on the N the CALLER asked
# for. N is kept by the driver (what the caller gave), never taken from the monitors' bookkeeping or from the object: a
# reader that regenerates the spectrum with the defaults passes every monitor (it IS a correct default spectrum).
SMOOTH_READERS = ['smooth_fa_spectrum', 'gen_smooth_fa_spectrum', 'gen_smooth_fa_spectrum/freqs', 'gen_smooth_fa_spectrum/band',
                  'generate_smooth_fa_spectrum', 'generate_smooth_fa_spectrum/band', 'set_smooth_fa_freqs+read',
                  'set_smooth_fa_frequencies+read', 'set_smooth_by_range+read', 'set_smooth_freq_range+read',
                  'set_smooth_freq_points+read', 'im.calc_bandwidth_freqs', 'im.calc_bandwidth_f_min', 'im.calc_bandwidth_f_max',
                  'get_sig_freq_range']
COMMON_READERS = SMOOTH_READERS + ['fa_spectrum_abs', 'smooth_fa_freqs', 'custom_matrix', 'calc_smooth_fa_spectrum/array-level',
                                   'time+npts+values', 'get_section_average', 'stockwell.plot_stock', 'stockwell.transform',
                                   'stockwell.get_max_stockwell_freq', 'stockwell.freqs+times', 'generate_fa_spectrum/array-level',
                                   'calc_fa_spectrum/array-level', 'deepcopy+read-copy', 'pickle+read-copy', 'calc_fourier_moment',
                                   'get_bandwidth_boore_2003', 'fas2values(own spectrum)']
ACC_READERS = ['velocity', 'displacement', 'generate_displacement_and_velocity_series', 'peaks', 'generate_peak_values',
               's_a', 's_v', 's_d', 'gen_response_spectrum', 'response_series', 'generate_cumulative_stats',
               'generate_duration_stats', 'generate_all_motion_stats', 'reset_all_motion_stats', 'im.calc_sig_dur', 'im.calc_sir',
               'im.calc_arias_intensity', 'im.calc_cav', 'im.calc_cav_dp', 'im.calc_isv', 'im.calc_max_velocity_period',
               'im.max_acceleration_period', 'im.calc_brac_dur', 'im.calc_acc_rms', 'im.calc_integral_of_abs_velocity',
               'im.calc_cumulative_abs_displacement', 'im.calc_integral_of_abs_acceleration', 'im.calc_unit_kinetic_energy',
               'im.calc_asi', 'im.calc_vsi', 'im.cumulative_response_spectra']
HEAVY_READERS = {'stockwell.plot_stock', 'stockwell.transform', 'stockwell.get_max_stockwell_freq', 'stockwell.freqs+times',
                 's_a', 's_v', 's_d', 'gen_response_spectrum', 'response_series', 'im.calc_max_velocity_period',
                 'im.max_acceleration_period', 'im.calc_asi', 'im.calc_vsi', 'im.cumulative_response_spectra', 'im.calc_cav_dp',
                 'generate_all_motion_stats'}
READER_CLAUSES = ['after-readers.nbins==N//2', 'after-readers.bins==dt*DFT', 'after-readers.freqs==k/(N*dt)',
                  'after-readers.max_fa_period-on-requested-grid']


def _apply_reader(eqsig, s, r):
    """One read / analysis call that does not change the record, through the public API. r = [name, args...]."""
    name, a = r[0], r[1:]
    im, fq, sw = eqsig.im, eqsig.fns.frequency, eqsig.stockwell
    if name == 'smooth_fa_spectrum':
        s.smooth_fa_spectrum
    elif name == 'gen_smooth_fa_spectrum':
        s.gen_smooth_fa_spectrum()
    elif name == 'gen_smooth_fa_spectrum/freqs':
        s.gen_smooth_fa_spectrum(smooth_fa_freqs=a[0])
    elif name == 'gen_smooth_fa_spectrum/band':
        s.gen_smooth_fa_spectrum(band=a[1])
    elif name == 'generate_smooth_fa_spectrum':
        s.generate_smooth_fa_spectrum()
    elif name == 'generate_smooth_fa_spectrum/band':
        s.generate_smooth_fa_spectrum(band=a[1])
    elif name == 'set_smooth_fa_freqs+read':
        s.smooth_fa_freqs = a[0]
        s.smooth_fa_spectrum
    elif name == 'set_smooth_fa_frequencies+read':
        s.smooth_fa_frequencies = np.array(a[0])
        s.smooth_fa_spectrum
    elif name == 'set_smooth_by_range+read':
        s.set_smooth_fa_frequecies_by_range((a[0][0], a[0][-1]), len(a[0]) + 3)
        s.smooth_fa_spectrum
    elif name == 'set_smooth_freq_range+read':
        s.smooth_freq_range = (a[0][0], a[0][-1])
        s.smooth_fa_spectrum
    elif name == 'set_smooth_freq_points+read':
        s.smooth_freq_points = len(a[0]) + 5
        s.smooth_fa_spectrum
    elif name == 'im.calc_bandwidth_freqs':
        im.calc_bandwidth_freqs(s, ratio=a[2])
    elif name == 'im.calc_bandwidth_f_min':
        im.calc_bandwidth_f_min(s, ratio=a[2])
    elif name == 'im.calc_bandwidth_f_max':
        im.calc_bandwidth_f_max(s)
    elif name == 'get_sig_freq_range':
        fq.get_sig_freq_range(s, ratio=1.0 / a[2])
    elif name == 'fa_spectrum_abs':
        s.fa_spectrum_abs
    elif name == 'smooth_fa_freqs':
        s.smooth_fa_freqs, s.smooth_fa_frequencies, s.smooth_freq_range, s.smooth_freq_points
    elif name == 'custom_matrix':
        m = fq.calc_smoothing_matrix_konno_1998(s.fa_frequencies, np.array(a[0]), band=a[1])
        fq.calc_smooth_fa_spectrum_w_custom_matrix(s, m)
    elif name == 'calc_smooth_fa_spectrum/array-level':
        fq.calc_smooth_fa_spectrum(s.fa_freqs, s.fa_spectrum, np.array(a[0]), band=a[1])
    elif name == 'time+npts+values':
        s.time, s.npts, s.values, s.dt, s.label
    elif name == 'get_section_average':
        s.get_section_average(start=0, end=max(1, s.npts // 2), index=True)
    elif name == 'stockwell.plot_stock':
        sw.plot_stock(_NoPlot(), s)
    elif name == 'stockwell.transform':
        sw.transform(s.values)
    elif name == 'stockwell.get_max_stockwell_freq':
        sw.get_max_stockwell_freq(s)
    elif name == 'stockwell.freqs+times':
        sw.plot_stock(_NoPlot(), s)
        sw.get_stockwell_freqs(s), sw.get_stockwell_times(s)
    elif name == 'generate_fa_spectrum/array-level':
        eqsig.generate_fa_spectrum(s, n_pad=bool(a[3] % 2))
    elif name == 'calc_fa_spectrum/array-level':
        k = a[3] % 3
        eqsig.calc_fa_spectrum(s) if k == 0 else (eqsig.calc_fa_spectrum(s, p2_plus=a[3] % 4) if k == 1
                                                  else eqsig.calc_fa_spectrum(s, n=s.npts + a[3]))
    elif name in ('deepcopy+read-copy', 'pickle+read-copy'):
        c = copy.deepcopy(s) if name.startswith('deepcopy') else pickle.loads(pickle.dumps(s))
        _carry_memo(s, c)
        c.smooth_fa_spectrum
        c.gen_fa_spectrum(p2_plus=a[3] % 4)
        c.fa_spectrum
    elif name == 'calc_fourier_moment':
        fq.calc_fourier_moment(s, a[3] % 3)
    elif name == 'get_bandwidth_boore_2003':
        fq.get_bandwidth_boore_2003(s)
    elif name == 'fas2values(own spectrum)':
        eqsig.fas2values(s.fa_spectrum, s.dt)
    elif name == 'velocity':
        s.velocity
    elif name == 'displacement':
        s.displacement
    elif name == 'generate_displacement_and_velocity_series':
        s.generate_displacement_and_velocity_series(trap=bool(a[3] % 2))
    elif name == 'peaks':
        s.pga, s.pgv, s.pgd
    elif name == 'generate_peak_values':
        s.generate_peak_values()
    elif name in ('s_a', 's_v', 's_d'):
        getattr(s, name)
    elif name == 'gen_response_spectrum':
        s.gen_response_spectrum(response_times=np.array(a[0]), xi=0.05) if a[3] % 2 else s.generate_response_spectrum()
    elif name == 'response_series':
        s.response_series(response_times=np.array(a[0][:3]))
    elif name in ('generate_cumulative_stats', 'generate_duration_stats', 'generate_all_motion_stats', 'reset_all_motion_stats'):
        getattr(s, name)()
    elif name == 'im.calc_sig_dur':
        im.calc_sig_dur(s, se=bool(a[3] % 2))
    elif name == 'im.calc_brac_dur':
        im.calc_brac_dur(s, a[2] * float(np.max(np.abs(s.values))))
    elif name == 'im.calc_acc_rms':
        im.calc_acc_rms(s, a[2] * float(np.max(np.abs(s.values))))
    elif name == 'im.cumulative_response_spectra':
        im.cumulative_response_spectra(s, 'arias_intensity', periods=a[0][:3])
    elif name.startswith('im.'):
        getattr(im, name[3:])(s)
    else:
        raise ValueError('unknown reader %r' % (name,))


def _check_period_on_grid(ctx, wit, x, dt, N, result, T):
    """max_fa_period after the readers: the period of a bin k/(N*dt) of the grid the CALLER asked for, and that bin is a
    largest one of the oracle spectrum of the record zero-padded to that N (slack: the per-bin tolerance)."""
    M = N // 2
    if N > FULL_N or N < len(x) or M < 1:
        ctx.observe('after-readers: max_fa_period not judged (N > %d, or truncation)' % FULL_N)
        return
    oamp = np.abs(dt * _oracle_bins(O.zero_pad(x, N), np.arange(M, dtype=np.int64), 'fwd'))
    top = float(np.max(oamp))
    slack = 2.0 * T['bin'] * dt * float(np.sum(np.abs(x)))
    try:
        r = float(result)
    except Exception:
        r = float('nan')
    k = None
    if np.isinf(r) and r > 0:
        k = 0
    elif np.isfinite(r) and r > 0:
        kf = N * dt / r
        kk = int(round(kf))
        if 1 <= kk < M and abs(kf - kk) <= max(1e-9, 10 * T['freq']) * kk:
            k = kk
    ok = k is not None and oamp[k] >= top * (1.0 - RTOL_TIE) - slack
    _judge(ctx, ok, 'after-readers.max_fa_period-on-requested-grid', wit,
           lambda: 'max_fa_period -> %r after gen_fa_spectrum with N=%d (npts=%d, dt=%r) and pure reads: %s; the largest bin of '
                   'dt*DFT on that grid is %d (period %r)'
           % (result, N, len(x), dt, 'not the period of a bin k/(N*dt), k=%r' % (N * dt / r if r else None) if k is None
              else 'bin %d has amplitude %.6g, the largest is %.6g' % (k, float(oamp[k]), top),
              int(np.argmax(oamp)), (N * dt / int(np.argmax(oamp))) if int(np.argmax(oamp)) else float('inf')))


def rel_readers(ctx, eqsig, p):
    """gen_fa_spectrum(p2_plus | n) on one object (or on two objects built from one caller array) -> reads / analysis calls
    of other derived quantities (p['readers'] = [[object, name, args...], ...]) -> fa_spectrum / fa_freqs / fa_frequencies /
    max_fa_period: still dt*DFT of the (unchanged) record zero-padded to the N that was asked for, bins k/(N*dt). A reader
    that raises is counted, not judged; what is read afterwards is judged in any case."""
    _HISTORY[0] = p
    _PHASE[0] = None
    wit = lambda: dict(p, fn='rel.readers')
    try:
        A = _as_form(p['values'], p.get('form'))
        snap = _snapshot(A)
        dt_in = _dt_as(p['dt'], p.get('dt_form'))         # a 0-d array: ONE mutable step shared by the object(s) and the caller
        dt_snap = _frozen(dt_in)
        if p.get('cluster') is not None:
            cl = eqsig.Cluster([A, np.asarray(p['cluster'], dtype=float)], p['dt'], stypes='acc' if p['cls'] == 'AccSignal' else 'custom')
            objs = [cl.signal_by_index(0)]
        else:
            objs = [_mk(eqsig, p['cls'], A, dt_in)]
        if p.get('twin'):
            objs.append(_mk(eqsig, 'Signal' if p['cls'] == 'AccSignal' else 'AccSignal', A, dt_in))
        asked = {}

        def run(r):
            s = objs[min(int(r[0]), len(objs) - 1)]
            try:
                with np.errstate(all='ignore'):
                    _apply_reader(eqsig, s, r[1:])
            except Exception as e:
                ctx.observe('readers: %s raised %s (counted, not judged here)' % (r[1], type(e).__name__))

        def judge(o, names):
            s = objs[o]
            rec = _record_of(ctx, s)
            if rec is None:
                return
            x, dt, T = rec
            N = asked.get(o, O.n_padded(len(x)))
            for nm in names:
                if nm == 'max_fa_period':
                    _check_period_on_grid(ctx, wit, x, dt, N, eqsig.im.max_fa_period(s), T)
                else:
                    got = getattr(s, nm)
                    fa = got if nm == 'fa_spectrum' else s.fa_spectrum
                    fr = got if nm != 'fa_spectrum' else s.fa_freqs
                    check_spectrum(ctx, 'after-readers', wit, x, dt, N, fa, fr, T=T)

        for r in p['pre']:
            run(r)
        for o, p2, n in p['gens']:
            o = min(int(o), len(objs) - 1)
            s = objs[o]
            kw = {}
            if p2 is not None:
                kw['p2_plus'] = _int_as(p2, p.get('int_form'))
            if n is not None:
                kw['n'] = _int_as(n, p.get('int_form'))
            s.gen_fa_spectrum(**kw)
            asked[o] = int(n) if n is not None else O.n_padded(s.npts, int(p2 or 0))
        for i, r in enumerate(p['readers']):
            run(r)
            if p.get('between') and i + 1 < len(p['readers']):
                judge(min(int(r[0]), len(objs) - 1), p['final'][:1])
        for o in range(len(objs)):
            judge(o, p['final'] if o == 0 else p['final'][::-1])
        _judge(ctx, _unchanged(A, snap), 'argument-unchanged[record]', wit, 'the array handed to the object(s) changed during the readers history')
        _check_scalars_unchanged(ctx, 'a read / analysis call of the readers history', wit, [('dt', dt_in, dt_snap)])
    finally:
        _HISTORY[0] = None


def _draw_reader_history(rng, h, tier):
    """Every reader is the first one of a history in turn (Signal: the common ones, AccSignal: all of them); up to three more
    follow, half of them from the smoothed-spectrum family; explicit options p2_plus 1..3 | n (classes of _explicit_n) |
    both | defaults (control)."""
    clsname = 'AccSignal' if h % 2 else 'Signal'
    pool = COMMON_READERS + (ACC_READERS if clsname == 'AccSignal' else [])
    names = [pool[(h // 2) % len(pool)]]
    for _ in range(int(rng.integers(0, 4))):
        src = SMOOTH_READERS if rng.random() < 0.5 else pool
        names.append(src[int(rng.integers(len(src)))])
    if rng.random() < 0.5:
        rng.shuffle(names)
    heavy = any(k in HEAVY_READERS for k in names)
    npts = max(2, int(round(2.0 ** rng.uniform(1.0, 7.5 if heavy else 9.5))))
    if rng.random() < 0.7:
        x, rcls = _plain_record(rng, npts)
        if rng.random() < 0.3:
            x = x + float(rng.choice([-1.0, 1.0])) * float(np.max(np.abs(x)))      # non-zero mean: bin 0 carries weight
        xin, form, cont = x, None, 'f64'
    else:
        xin, form, rcls, cont = _draw_input(rng, npts)
    dt = gen.dt(rng)
    twin = bool(rng.random() < 0.2)

    def mk(o, name):
        freqs = [float(t) for t in np.sort(10.0 ** rng.uniform(-1, 1.3, size=int(rng.integers(2, 12))))]
        return [o, name, freqs, int(rng.choice([10, 20, 40, 80])), float(rng.choice([0.5, 0.707, 0.9])), int(rng.integers(0, 12))]

    def options(i):
        r = rng.random()
        if r < 0.4:
            return [int(rng.integers(1, 4)), None]
        if r < 0.85:
            return [None, _explicit_n(rng, npts, i)]
        if r < 0.92:
            return [int(rng.integers(0, 4)), _explicit_n(rng, npts, i)]
        return [0, None] if rng.random() < 0.5 else [None, None]

    gens = []
    if rng.random() < 0.2:
        gens.append([0] + options(int(rng.integers(8))))
    gens.append([0] + options(h // 2))
    if twin:
        gens.insert(int(rng.integers(len(gens) + 1)), [1] + options(int(rng.integers(8))))
    pre = []
    r = rng.random()
    if r < 0.15:
        pre.append(mk(0, 'fa_spectrum_abs'))
    elif r < 0.3:
        pre.append(mk(0, 'smooth_fa_spectrum'))            # the smoothed spectrum of the DEFAULT grid is cached before the request
    elif r < 0.45:
        pre.append(mk(0, names[0]))
    readers = [mk(int(rng.integers(2)) if twin and j and rng.random() < 0.5 else 0, k) for j, k in enumerate(names)]
    final = [NAMES3[int(i)] for i in rng.permutation(3)[:int(rng.integers(1, 4))]]
    if rng.random() < 0.6:
        final.insert(int(rng.integers(len(final) + 1)), 'max_fa_period')
    p = {'values': xin, 'form': form, 'dt': dt, 'dt_form': '0d-float64' if rng.random() < 0.2 else None, 'cls': clsname, 'twin': twin,
         'rel': 'rel.readers',
         'int_form': INT_FORMS[int(rng.integers(len(INT_FORMS)))],
         'pre': pre, 'gens': gens, 'readers': readers, 'between': bool(rng.random() < 0.4), 'final': final}
    if not twin and form is None and cont == 'f64' and rng.random() < 0.15:
        p['cluster'] = _plain_record(rng, npts)[0]
    return p, names, rcls, cont


# ---------------------------------------------------------------------------------------------------- round 5
SETTINGS_CLAUSE = 'settings-unchanged-by-spectrum-calls'
OWNED_CLAUSE = 'result-owned.repeat-after-overwrite==first'
SETTING_CALLS = ['fa_spectrum', 'fa_freqs', 'fa_frequencies', 'max_fa_period', 'gen()', 'gen(p2_plus)', 'gen(n)', 'generate',
                 'generate(n_pad=False)', 'calc', 'calc(n)', 'calc(p2_plus)', 'fas2values(own)', 'fas2signal(own)',
                 'add_constant', 'reset_values/same']
OWNED_POINTS = ['generate', 'generate(n_pad=False)', 'calc', 'calc(n)', 'calc(p2_plus)', 'fas2values', 'fas2signal']


def _seq_as(v, form):
    v = [float(t) for t in v]
    return v if form == 'list' else (tuple(v) if form == 'tuple' else np.array(v))


def rel_settings(ctx, eqsig, p):
    """Checklist item 31: computing or reading a spectrum does not change what the user set. An object gets smoothing
    frequencies and (AccSignal) response periods OUTSIDE the band of its data - targets above the Nyquist frequency, below
    the first bin, periods below 2 dt and beyond the record, unsorted - through the constructor keyword or the setter; then
    every spectrum entry point in random order at default and non-default options (and two value mutators, after which
    the spectrum is regenerated): after each step the settings the object reports are bit for bit what the DRIVER gave
    (its own pristine copy, not the container the object may have kept)."""
    A = _as_form(p['values'], p.get('form'))
    dt = _dt_as(p['dt'], p.get('dt_form'))
    acc = p['cls'] == 'AccSignal'
    sm_ref = np.array([float(t) for t in p['smooth']])
    rt_ref = np.array([float(t) for t in p['rt']]) if acc else None
    sm_in, rt_in = _seq_as(p['smooth'], p['seq_form']), (_seq_as(p['rt'], p['seq_form']) if acc else None)
    wit = lambda: dict(p, fn='rel.settings')
    kw = {}
    if p['via'] == 'ctor':
        kw['smooth_fa_freqs'] = sm_in
        if acc:
            kw['response_times'] = rt_in
    s = (eqsig.AccSignal if acc else eqsig.Signal)(A, dt, **kw)
    if p['via'] != 'ctor':
        setattr(s, p['via'], sm_in)                   # 'smooth_fa_freqs' | 'smooth_fa_frequencies'
        if acc:
            s.response_times = rt_in
    if p.get('warm'):
        s.fa_spectrum

    def settings_ok(after):
        bad = []
        try:
            if not _same_bits(np.asarray(s.smooth_fa_freqs, dtype=float), sm_ref):
                bad.append('smooth_fa_freqs %r -> %r' % (sm_ref.tolist(), np.asarray(s.smooth_fa_freqs).tolist()))
            if not _same_bits(np.asarray(s.smooth_fa_frequencies, dtype=float), sm_ref):
                bad.append('smooth_fa_frequencies')
            if acc and not _same_bits(np.asarray(s.response_times, dtype=float), rt_ref):
                bad.append('response_times %r -> %r' % (rt_ref.tolist(), np.asarray(s.response_times).tolist()))
            if not _same_bits(np.asarray(sm_in, dtype=float), sm_ref) or (acc and not _same_bits(np.asarray(rt_in, dtype=float), rt_ref)):
                bad.append("the caller's own container")
        except Exception as e:
            bad.append('reading the settings raised %s' % type(e).__name__)
        _judge(ctx, not bad, SETTINGS_CLAUSE, wit,
               lambda: 'after %s (npts=%d, dt=%r, Nyquist %.6g Hz) the user-given settings changed: %s'
               % (after, s.npts, p['dt'], 0.5 / p['dt'], bad))

    settings_ok('construction / assignment')
    n = int(p['n'])
    for call in p['calls']:
        if call in ('fa_spectrum', 'fa_freqs', 'fa_frequencies'):
            getattr(s, call)
        elif call == 'max_fa_period':
            eqsig.im.max_fa_period(s)
        elif call.startswith('gen('):
            s.gen_fa_spectrum(**({} if call == 'gen()' else ({'n': max(n, s.npts)} if call == 'gen(n)' else {'p2_plus': p['p2_plus']})))
        elif call == 'add_constant':
            s.add_constant(1.5)
        elif call == 'reset_values/same':
            s.reset_values(np.asarray(s.values)[::-1].copy())
        elif call.endswith('(own)'):
            (eqsig.fas2values if call.startswith('fas2values') else eqsig.fas2signal)(s.fa_spectrum, s.dt)
        else:
            _aba_call(eqsig, call, s, p, max(n, s.npts))
        settings_ok(call)


def rel_owned(ctx, eqsig, p):
    """Checklist item 32: a result belongs to the caller. Every array an array-level function or an inverse helper
    returned is overwritten in place; the same call again - on the same object and on a fresh one - gives the first value
    bit for bit (a table handed out by reference from a cache would now hold the caller's scribbles), and the object's own
    spectrum (optionally generated on the same N beforehand) is still that of its record (lazy monitor)."""
    A, dt, clsname = np.asarray(p['A'], dtype=float), p['dt'], p['cls']
    n = int(p['n'])
    wit = lambda: dict(p, fn='rel.owned')
    for point in p['points']:
        s1 = _mk(eqsig, clsname, A, dt)
        if p.get('warm') == 'n':
            s1.gen_fa_spectrum(n=n)
        elif p.get('warm') == 'p2_plus':
            s1.gen_fa_spectrum(p2_plus=p['p2_plus'])
        elif p.get('warm') == 'default':
            s1.fa_spectrum
        r1 = _aba_call(eqsig, point, s1, p, n)
        snaps = [np.array(v) for v in r1]
        n_over = 0
        for v in r1:
            if isinstance(v, np.ndarray) and v.flags.writeable and v.size:
                v[...] = p['scribble']
                n_over += 1
        if not n_over:
            ctx.observe('result-owned: %s returned no writeable array (not judged)' % point)
            continue
        for tag, obj in (('the same object', s1), ('a fresh object', _mk(eqsig, clsname, A, dt))):
            r = _aba_call(eqsig, point, obj, p, n)
            same = len(r) == len(snaps) and all(_same_bits(np.asarray(v), sn) for v, sn in zip(r, snaps))
            _judge(ctx, same, OWNED_CLAUSE, wit,
                   lambda: '%s on %s after the arrays of the first result were overwritten by the caller: the repeat differs '
                           'from the first result (npts=%d, n=%d, p2_plus=%d): %s'
                   % (point, tag, len(A), n, p['p2_plus'],
                      [tol.describe(np.asarray(v), sn, rtol=0.0) for v, sn in zip(r, snaps) if not _same_bits(np.asarray(v), sn)][:1]))
        s1.fa_spectrum                                # the object's own spectrum never was the array handed to the caller
        s1.fa_freqs
        eqsig.im.max_fa_period(s1)


def _largest_prime_factor(n):
    f, p = 1, 2
    while p * p <= n:
        while n % p == 0:
            f, n = p, n // p
        p += 1
    return max(f, n) if n > 1 else f


def _explicit_n(rng, npts, i):
    """Explicit n >= npts cycling through the classes of DESIGN (c)."""
    k = i % 8
    if k == 7:                                         # a prime factor > 11 (not a 'fast' FFT length): 46, 1018, 4684, ...
        fixed = [v for v in (46, 1018, 4684) if npts <= v <= 2 * npts + 8]
        if fixed and rng.random() < 0.5:
            return fixed[int(rng.integers(len(fixed)))]
        n = npts + int(rng.integers(0, 6))
        while _largest_prime_factor(n) <= 11:
            n += 1
        return n
    if k == 6:                                         # at and next to the powers of two above npts
        e = O.ceil_log2(npts) + int(rng.integers(0, 2))
        cand = [v for v in ((1 << e) - 1, 1 << e, (1 << e) + 1) if v >= npts]
        return int(cand[int(rng.integers(len(cand)))])
    if k == 0:
        return npts
    if k == 1:
        return npts + 1
    if k == 2:
        return npts + 1 + (npts % 2) + 2 * int(rng.integers(0, 4))      # odd
    if k == 3:
        return npts + (npts % 2) + 2 * int(rng.integers(0, 4))          # even
    if k == 4:
        return O.n_padded(npts)
    if rng.random() < 0.25 and npts <= 128:            # a transform far longer than the record (17 .. 64 times)
        return npts * int(rng.integers(17, 65)) + int(rng.integers(0, 3))
    return npts + int(rng.integers(0, npts + 8))


def _lengths(tier):
    """Deterministic list of (npts, class, index-in-class)."""
    reps = 4 if tier == 'quick' else 12
    out = []
    for rep in range(reps):
        for L in range(2, 131):
            out.append((L, 'len-sweep-2..130', rep * 131 + (L - 2)))
    emax = 11 if tier == 'quick' else 12
    for rep in range(2 if tier == 'quick' else 4):
        for e in range(3, emax + 1):
            for d in (-1, 0, 1):
                out.append(((1 << e) + d, 'pow2+-1', len(out)))
    return out


def _draw_case(rng, npts, i, fixed, ci):
    """Parameters of one rel_agreement case (everything that is random is drawn here and stored, for the replay)."""
    xin, form, rcls, cont = _draw_input(rng, npts)
    dt, dt_form = _draw_dt(rng)
    if 'extreme' in rcls:
        dt, dt_form = gen.dt(rng), None
    p = {'values': xin, 'form': form, 'dt': dt, 'dt_form': dt_form, 'cls': 'AccSignal' if ci % 2 else 'Signal',
         'p2_plus': int(i % 4) if fixed else int(rng.integers(0, 4)),
         'n': _explicit_n(rng, npts, i if fixed else int(rng.integers(0, 8))),
         'int_form': INT_FORMS[int(rng.integers(len(INT_FORMS)))],
         'flag_form': FLAG_FORMS[int(rng.integers(len(FLAG_FORMS)))] if rng.random() < 0.6 else None,
         'style': ['kw', 'kw', 'pos', 'kw-all'][int(rng.integers(4))],
         'both': bool(rng.random() < 0.25),
         'fas_form': [None, None, None, 'list', 'tuple', 'readonly', 'strided', 'c64'][int(rng.integers(8))],
         'stype': 'signal' if rng.random() < 0.5 else 'acc', 'signal_on': ['default', 'n', 'nopad'][int(rng.integers(3))],
         'first': ['fa_spectrum', 'fa_freqs', 'fa_frequencies', 'method'][int(rng.integers(4))]}
    return p, rcls, cont


def run_shard(ctx):
    eqsig = core.import_eqsig()
    O.selftest()
    install(ctx)
    rng = ctx.rng
    quick = ctx.tier == 'quick'
    nmax = 2048 if quick else 4096
    plan = _lengths(ctx.tier)
    n_random = 500 if quick else 4000
    n_fixed = len(plan)
    total = n_fixed + n_random
    n_enum = 0
    for ci in core.split_range(total, ctx.shard, ctx.nshards):
        if ctx.out_of_time():
            ctx.observe('stopped by the safety-net budget')
            break
        if ci < n_fixed:
            npts, gcls, i = plan[ci]
        else:
            npts = int(round(2.0 ** rng.uniform(1.0, np.log2(nmax))))
            npts = min(max(npts, 2), nmax)
            gcls, i = 'random-length', ci
        p, rcls, cont = _draw_case(rng, npts, i, ci < n_fixed, ci)
        dt, clsname = p['dt'], p['cls']
        xv = np.asarray(p['values'], dtype=float)
        nontriv = bool(np.any(xv != 0))
        ctx.case(core.digest(xv, cont, dt, p['dt_form'], clsname, p['p2_plus'], p['n']), nontrivial=nontriv,
                 cls='%s/%s/%s' % (gcls, rcls, cont),
                 sample={'npts': npts, 'dt': dt, 'dt_form': p['dt_form'], 'cls': clsname, 'record': rcls, 'container': cont,
                         'p2_plus': p['p2_plus'], 'n': p['n'], 'style': p['style'], 'int_form': p['int_form'],
                         'fas_form': p['fas_form'], 'head': xv[:6]})
        ctx.observe('input form: %s' % cont)
        if ci < n_fixed:
            n_enum += 1
        try:
            rel_agreement(ctx, eqsig, p)
        except Exception as e:
            ctx.exception('gen_fa_spectrum.bins==dt*DFT', dict(p, fn='rel.agreement'), e)
        # relations between executions on a part of the cases (float64 records, float dt)
        x = gen.record(rng, npts, extreme=True)[0] if ci % 3 != 2 else None
        dtr = float(dt) if 1e-4 <= float(dt) <= 10 else gen.dt(rng)
        if ci % 3 == 0:
            y, _ = gen.record(rng, npts, extreme=True)
            if rng.random() < 0.5:
                a, b = float(2.0 ** rng.integers(-3, 4)), float(-(2.0 ** rng.integers(-3, 4)))
            else:
                a, b = float(rng.normal()), float(rng.normal() * 10.0 ** rng.uniform(-2, 2))
            mode = [('default',), ('p2', p['p2_plus']), ('n', p['n']), ('nopad',)][int(rng.integers(4))]
            q = {'x': x, 'y': y, 'a': a, 'b': b, 'dt': dtr, 'mode': list(mode), 'cls': clsname,
                 'level': 'object' if rng.random() < 0.5 else 'array'}
            try:
                rel_linearity(ctx, eqsig, q)
            except Exception as e:
                ctx.exception('linearity', dict(q, fn='rel.linearity'), e)
        if ci % 3 == 1:
            Nd = O.n_padded(npts)
            if rng.random() < 0.5 and Nd > npts:
                mode, room = ('default',), Nd - npts
            else:
                nn = npts + int(rng.integers(1, npts + 4))
                mode, room = ('n', nn), nn - npts
            nz = int(rng.integers(1, room + 1))
            q = {'values': x, 'nz': nz, 'dt': dtr, 'mode': list(mode), 'cls': clsname,
                 'level': 'object' if rng.random() < 0.5 else 'array'}
            try:
                rel_trailing_zeros(ctx, eqsig, q)
            except Exception as e:
                ctx.exception('trailing-zeros', dict(q, fn='rel.trailing_zeros'), e)
        if ci % 3 == 2:
            mode = [('default',), ('n', p['n']), ('nopad',)][int(rng.integers(3))]
            q = {'values': gen.record(rng, npts, extreme=True)[0] + float(rng.integers(0, 2)), 'dt': dtr, 'cls': clsname, 'mode': list(mode),
                 'stype': 'signal' if rng.random() < 0.5 else 'acc', 'p2_plus': int(rng.integers(0, 3)),
                 'n_extra': int(rng.integers(0, 12)), 'first': ['fa_spectrum', 'fa_freqs', 'fa_frequencies'][int(rng.integers(3))]}
            rel_inverse_object(ctx, eqsig, q)
        if ci % 4 == 2:
            mode = [('default',), ('p2', p['p2_plus']), ('n', p['n']), ('nopad',)][int(rng.integers(4))]
            q = {'x1': gen.record(rng, npts, extreme=True)[0], 'x2': gen.record(rng, npts, extreme=True)[0], 'dt': dtr, 'mode': list(mode), 'cls': clsname,
                 'stype': p['stype']}
            try:
                rel_back_to_back(ctx, eqsig, q)
            except Exception as e:
                ctx.exception('back-to-back.first-result-intact', dict(q, fn='rel.back_to_back'), e)
    ctx.exhaustive['record_lengths_2..130_and_pow2+-1_cases'] = n_enum
    # -- a few long records past 2**16 (sampled bins) ----------------------------------------------------------------
    pow2_long = [(1 << k) + d for k in range(12 if quick else 13, 18) for d in (-1, 0, 1)]
    n_long = (4 if quick else 32) + len(pow2_long) * (1 if quick else 2)
    for li in core.split_range(n_long, ctx.shard, ctx.nshards):
        if li < (4 if quick else 32):
            npts = (1 << 16) + [1, 2, 37, 1000][li % 4] + 2 * (li // 4)
        else:
            npts = pow2_long[(li - (4 if quick else 32)) % len(pow2_long)]
        x, rcls = gen.record(rng, npts, cls=['noise', 'quake', 'walk', 'chirp'][li % 4])
        p = {'values': x, 'form': None, 'dt': gen.dt(rng), 'dt_form': None, 'cls': 'AccSignal' if li % 2 else 'Signal', 'p2_plus': 0,
             'n': npts, 'int_form': None, 'style': 'kw', 'both': False, 'fas_form': None, 'stype': 'signal',
             'signal_on': 'nopad', 'first': 'fa_spectrum', 'lite': True}
        ctx.case(core.digest(x, p['dt'], 'long'), nontrivial=True, cls='long-or-pow2+-1-to-2**17/%s' % rcls,
                 sample={'npts': npts, 'dt': p['dt'], 'cls': p['cls'], 'record': rcls, 'long': True})
        try:
            rel_agreement(ctx, eqsig, p)
        except Exception as e:
            ctx.exception('gen_fa_spectrum.bins==dt*DFT', dict(p, fn='rel.agreement'), e)
    # -- object histories: read -> mutate through the public API -> read again --------------------------------------
    n_hist = 656 if quick else 8200
    for h in core.split_range(n_hist, ctx.shard, ctx.nshards):
        if ctx.out_of_time():
            ctx.observe('stopped by the safety-net budget')
            break
        p, kinds, rcls, cont = _draw_history(rng, h, ctx.tier)
        ctx.case(core.digest(np.asarray(p['values'], dtype=float), cont, p['dt'], p['cls'], repr(p['steps'])),
                 nontrivial=True, cls='history/%s/%s%s' % (p['cls'], '+'.join(kinds), '/twin:' + p['twin'] if p['twin'] else ''),
                 sample={'history': True, 'npts': len(p['values']), 'dt': p['dt'], 'cls': p['cls'], 'record': rcls,
                         'container': cont, 'twin': p['twin'],
                         'steps': [[a if not isinstance(a, (np.ndarray, list)) or len(a) < 4 else '<%d values>' % len(a)
                                    for a in (st[:2] + (list(st[2]) if st[1] == 'mut' else st[2:]))] for st in p['steps']]})
        try:
            rel_history(ctx, eqsig, p)
        except Exception as e:
            ctx.exception('lazy-after-mutation.bins==dt*DFT(current values)', dict(p, fn='rel.history'), e)
    # -- round 3: copy / pickle protocols, assignment through public names, operations that raise ------------------
    fams = [('copy-protocol', _draw_protocol_history, 'copy-protocol.bins==dt*DFT(own current values)', 576 if quick else 4608),
            ('after-assignment', _draw_assign_history, 'after-assignment.bins==dt*DFT(own current values)', 360 if quick else 2880),
            ('after-raise', _draw_raise_history, 'after-raise.bins==dt*DFT(own current values)', 432 if quick else 3456)]
    for fam, draw, clause, count in fams:
        for h in core.split_range(count, ctx.shard, ctx.nshards):
            if ctx.out_of_time():
                ctx.observe('stopped by the safety-net budget')
                break
            p, kinds, rcls, cont = draw(rng, h, ctx.tier)
            ctx.case(core.digest(np.asarray(p['values'], dtype=float), fam, p['dt'], p['cls'], repr(p['steps'])), nontrivial=True,
                     cls='history3/%s/%s/%s%s' % (fam, p['cls'], '+'.join(kinds), '/cluster-member' if p.get('cluster') is not None else ''),
                     sample={'history': fam, 'npts': len(p['values']), 'dt': p['dt'], 'cls': p['cls'], 'record': rcls,
                             'kinds': kinds, 'cluster_member': p.get('cluster') is not None, 'n_steps': len(p['steps'])})
            try:
                rel_history(ctx, eqsig, p)
            except Exception as e:
                ctx.exception(clause, dict(p, fn='rel.history'), e)
    # -- round 4: explicit non-default generation -> reads / analysis calls of other derived quantities -> spectrum reads --
    n_readers = 432 if quick else 3456
    for h in core.split_range(n_readers, ctx.shard, ctx.nshards):
        if ctx.out_of_time():
            ctx.observe('stopped by the safety-net budget')
            break
        p, kinds, rcls, cont = _draw_reader_history(rng, h, ctx.tier)
        ctx.case(core.digest(np.asarray(p['values'], dtype=float), 'readers', cont, p['dt'], p['cls'], repr(p['gens']), repr(p['readers'])),
                 nontrivial=True, cls='readers/%s/%s%s%s' % (p['cls'], kinds[0], '/twin' if p['twin'] else '',
                                                            '/cluster-member' if p.get('cluster') is not None else ''),
                 sample={'readers': kinds, 'npts': len(p['values']), 'dt': p['dt'], 'cls': p['cls'], 'record': rcls, 'container': cont,
                         'gens': p['gens'], 'pre': [r[1] for r in p['pre']], 'final': p['final'], 'twin': p['twin']})
        try:
            rel_readers(ctx, eqsig, p)
        except Exception as e:
            ctx.exception('after-readers.nbins==N//2', dict(p, fn='rel.readers'), e)
    # -- round 3: f(A); f(B); f(A) at non-default options, B of the same and of another shape -----------------------
    n_aba = 192 if quick else 1536
    for k in core.split_range(n_aba, ctx.shard, ctx.nshards):
        if ctx.out_of_time():
            ctx.observe('stopped by the safety-net budget')
            break
        npts = max(2, int(round(2.0 ** rng.uniform(1.0, 9.0))))
        A = _plain_record(rng, npts)[0]
        shape = ['same', 'same', 'shorter', 'longer', 'half', 'double', 'plus-one'][k % 7]
        mB = {'same': npts, 'shorter': max(2, npts - int(rng.integers(1, npts + 1))), 'longer': npts + int(rng.integers(1, npts + 2)),
              'half': max(2, npts // 2), 'double': 2 * npts, 'plus-one': npts + 1}[shape]
        dtA = gen.dt(rng)
        q = {'A': A, 'B': _plain_record(rng, mB)[0], 'dt': dtA, 'dt_b': dtA if rng.random() < 0.6 else gen.dt(rng),
             'cls': 'AccSignal' if k % 2 else 'Signal', 'p2_plus': int(rng.integers(1, 4)),
             'n': _explicit_n(rng, npts, int(rng.integers(1, 8))), 'stype': 'signal' if rng.random() < 0.5 else 'acc',
             'inverse_of': 'n' if rng.random() < 0.5 else 'nopad',
             'points': [ABA_POINTS[int(i)] for i in rng.permutation(len(ABA_POINTS))[:6]]}
        ctx.case(core.digest(A, q['B'], dtA, q['dt_b'], q['cls'], q['n'], q['p2_plus'], repr(q['points'])), nontrivial=True,
                 cls='aba/%s-shape' % shape, sample={'aba': True, 'npts_a': npts, 'npts_b': mB, 'dt': dtA, 'dt_b': q['dt_b'],
                                                      'n': q['n'], 'p2_plus': q['p2_plus'], 'points': q['points']})
        try:
            rel_aba(ctx, eqsig, q)
        except Exception as e:
            ctx.exception('aba.third==first', dict(q, fn='rel.aba'), e)
    # -- round 5 (item 31): user-given settings outside the band of the data survive every spectrum call ---------------
    n_settings = 192 if quick else 1536
    for k in core.split_range(n_settings, ctx.shard, ctx.nshards):
        if ctx.out_of_time():
            ctx.observe('stopped by the safety-net budget')
            break
        npts = max(2, int(round(2.0 ** rng.uniform(1.0, 9.0))))
        if rng.random() < 0.75:
            xin, form, rcls, cont = _plain_record(rng, npts)[0], None, 'plain', 'f64'
        else:
            xin, form, rcls, cont = _draw_input(rng, npts)
        dt, dt_form = (gen.dt(rng), None) if rng.random() < 0.7 else _draw_dt(rng)
        if 'extreme' in rcls or not 1e-6 <= float(dt) <= 10:
            dt, dt_form = gen.dt(rng), None
        nyq, f1 = 0.5 / float(dt), 1.0 / (O.n_padded(npts) * float(dt))
        sm = [nyq * float(rng.choice([1.0, 1.0 + 1e-9, 1.5, 10.0, 1e3])), f1 * float(rng.choice([1.0, 0.5, 1e-3])),
              float(nyq * rng.uniform(0.01, 0.99))] + [float(nyq * 10.0 ** rng.uniform(-3, 1)) for _ in range(int(rng.integers(0, 6)))]
        if rng.random() < 0.2:
            sm.append(0.0)
        sm = sm[:int(rng.integers(1, len(sm) + 1))] if rng.random() < 0.3 else sm
        order = int(rng.integers(3))
        sm = sorted(sm) if order == 0 else (sorted(sm, reverse=True) if order == 1 else [sm[int(i)] for i in rng.permutation(len(sm))])
        rt = [float(dt) * float(rng.choice([0.5, 1.0, 2.0, 1.999])), float(dt) * npts * float(rng.choice([1.0, 3.0])),
              float(10.0 ** rng.uniform(-2, 0.5))] + ([0.0] if rng.random() < 0.3 else [])
        rt = [rt[int(i)] for i in rng.permutation(len(rt))][:int(rng.integers(1, len(rt) + 1))]
        calls = [SETTING_CALLS[(k // 2 + j) % len(SETTING_CALLS)] if j == 0 else SETTING_CALLS[int(rng.integers(len(SETTING_CALLS)))]
                 for j in range(int(rng.integers(3, 9)))]
        q = {'values': xin, 'form': form, 'dt': dt, 'dt_form': dt_form, 'cls': 'AccSignal' if k % 2 else 'Signal', 'smooth': sm, 'rt': rt,
             'seq_form': ['list', 'tuple', 'ndarray'][int(rng.integers(3))],
             'via': ['ctor', 'smooth_fa_freqs', 'smooth_fa_frequencies'][(k // 2) % 3], 'warm': bool(rng.random() < 0.4),
             'p2_plus': int(rng.integers(1, 4)), 'n': _explicit_n(rng, npts, int(rng.integers(0, 8))),
             'stype': 'signal' if rng.random() < 0.5 else 'acc', 'inverse_of': 'n' if rng.random() < 0.5 else 'nopad', 'calls': calls}
        ctx.case(core.digest(np.asarray(xin, dtype=float), 'settings', dt, q['cls'], repr(sm), repr(rt), repr(calls)), nontrivial=True,
                 cls='settings/%s/via-%s/%s' % (q['cls'], q['via'], calls[0]),
                 sample={'settings': True, 'npts': npts, 'dt': dt, 'dt_form': dt_form, 'cls': q['cls'], 'record': rcls, 'container': cont,
                         'smooth_fa_freqs': sm, 'response_times': rt, 'nyquist': nyq, 'calls': calls, 'via': q['via']})
        try:
            rel_settings(ctx, eqsig, q)
        except Exception as e:
            ctx.exception(SETTINGS_CLAUSE, dict(q, fn='rel.settings'), e)
    # -- round 5 (item 32): the arrays of an earlier result are overwritten, the call is repeated ------------------------
    n_owned = 160 if quick else 1280
    for k in core.split_range(n_owned, ctx.shard, ctx.nshards):
        if ctx.out_of_time():
            ctx.observe('stopped by the safety-net budget')
            break
        npts = max(2, int(round(2.0 ** rng.uniform(1.0, 9.0))))
        q = {'A': _plain_record(rng, npts)[0], 'dt': gen.dt(rng), 'cls': 'AccSignal' if k % 2 else 'Signal',
             'p2_plus': int(rng.integers(0, 4)), 'n': _explicit_n(rng, npts, k // 2), 'stype': 'signal' if rng.random() < 0.5 else 'acc',
             'inverse_of': 'n' if rng.random() < 0.5 else 'nopad', 'warm': [None, 'n', 'p2_plus', 'default'][(k // 2) % 4],
             'scribble': float(rng.choice([0.0, -7.25e3, 1e300])),
             'points': [OWNED_POINTS[int(i)] for i in rng.permutation(len(OWNED_POINTS))[:4]]}
        ctx.case(core.digest(q['A'], 'owned', q['dt'], q['cls'], q['n'], q['p2_plus'], repr(q['points'])), nontrivial=True,
                 cls='owned/warm-%s' % q['warm'], sample={'owned': True, 'npts': npts, 'dt': q['dt'], 'n': q['n'], 'p2_plus': q['p2_plus'],
                                                          'points': q['points'], 'warm': q['warm']})
        try:
            rel_owned(ctx, eqsig, q)
        except Exception as e:
            ctx.exception(OWNED_CLAUSE, dict(q, fn='rel.owned'), e)
    # -- informational probes, no verdict ---------------------------------------------------------------------
    if ctx.shard == 0:
        s = eqsig.AccSignal(np.sin(np.arange(40) * 0.3), 0.01)
        for name in ('calc_fourier_moment', 'get_bandwidth_boore_2003'):
            try:
                fn = getattr(eqsig.fns.frequency, name)
                fn(s, 0) if name == 'calc_fourier_moment' else fn(s)
                ctx.observe('env: %s runs' % name)
            except Exception as e:
                ctx.observe('env: %s raises %s (anchored mechanism, outside the statement)' % (name, type(e).__name__))
        probes = [('n<npts', lambda: s.gen_fa_spectrum(n=16)),                       # counted by the monitor, not judged
                  ('float n', lambda: s.gen_fa_spectrum(n=64.0)),
                  ('float p2_plus', lambda: s.gen_fa_spectrum(p2_plus=1.0)),
                  ('one-sample record', lambda: eqsig.Signal([1.0], 0.01).fa_spectrum),
                  ('one-sample bool record', lambda: eqsig.Signal(np.array([True]), 0.01).fa_spectrum),
                  ('n as a one-entry array', lambda: s.gen_fa_spectrum(n=np.array([64]))),
                  ('bool p2_plus', lambda: s.gen_fa_spectrum(p2_plus=np.True_)),
                  ('bool dt', lambda: eqsig.Signal([1.0, 2.0, 0.5], np.True_).fa_freqs),
                  ('float16 record', lambda: eqsig.Signal(np.sin(np.arange(40) * 0.3).astype(np.float16), 0.01).fa_spectrum)]
        for name, fn in probes:
            try:
                fn()
                ctx.observe('probe %s: accepted (outside the quantifier, not judged)' % name)
            except Exception as e:
                ctx.observe('probe %s: raises %s' % (name, type(e).__name__))
    ctx.note('monitored_calls', dict(attach.CALLS))
    ctx.note('tolerances', {'bin_rel_to_dt_sum_abs_x': RTOL_BIN, 'freq_rel': RTOL_FREQ, 'amplitude_tie': RTOL_TIE,
                            'parseval_rel': RTOL_PARSEVAL, 'inverse_rel_to_peak': RTOL_INV, 'full_bins_up_to_N': FULL_N,
                            'single_precision_class(float32 record or dt)': LOOSE})


# ---------------------------------------------------------------------------------------------------- replay
def replay(w):
    """Re-execute one witness against the current tree; return the list of violation messages."""
    eqsig = core.import_eqsig()
    ctx = core.Ctx(PROP_ID, 'quick', 0, 0, 1)
    install(ctx)
    _DFT_CACHE.clear()
    fn = w.get('fn')
    if fn == 'rel.agreement':
        rel_agreement(ctx, eqsig, w)
    elif fn == 'rel.linearity':
        rel_linearity(ctx, eqsig, w)
    elif fn == 'rel.trailing_zeros':
        rel_trailing_zeros(ctx, eqsig, w)
    elif fn == 'rel.back_to_back':
        rel_back_to_back(ctx, eqsig, w)
    elif fn == 'rel.inverse_object':
        rel_inverse_object(ctx, eqsig, w)
    elif fn == 'rel.history':
        rel_history(ctx, eqsig, w)
    elif fn == 'rel.readers':
        rel_readers(ctx, eqsig, w)
    elif fn == 'rel.settings':
        rel_settings(ctx, eqsig, w)
    elif fn == 'rel.owned':
        rel_owned(ctx, eqsig, w)
        rel_owned(ctx, eqsig, w)    # again: a cache filled (and scribbled on) by the first pass is then in place
    elif fn == 'rel.aba':
        rel_aba(ctx, eqsig, w)
        rel_aba(ctx, eqsig, w)      # again: process-wide state left by the first pass (grown buffers, memos) is then in place
    elif fn == 'fas2values':
        eqsig.fas2values(w['fas'], _dt_as(w['dt'], w.get('dt_form')))
    elif fn == 'fas2signal':
        eqsig.fas2signal(w['fas'], _dt_as(w['dt'], w.get('dt_form')), stype=w['stype'])
    else:
        s = _mk(eqsig, w['cls'], w['values'], _dt_as(w['dt'], w.get('dt_form')))
        prior = w.get('prior_gen')
        for k in ('n', 'p2_plus'):
            if w.get(k) is not None and w.get(k + '_form'):
                w[k] = _int_as(w[k], w[k + '_form'])
        if fn == 'Signal.gen_fa_spectrum':
            s.gen_fa_spectrum(p2_plus=w['p2_plus'], n=w['n'])
        elif fn in ('Signal.fa_spectrum', 'Signal.fa_freqs', 'Signal.fa_frequencies', 'max_fa_period'):
            if prior:
                s.gen_fa_spectrum(p2_plus=prior['p2_plus'], n=prior['n'])
            if fn == 'max_fa_period':
                eqsig.im.max_fa_period(s)
            else:
                getattr(s, fn.split('.')[1])
        elif fn == 'generate_fa_spectrum':
            eqsig.generate_fa_spectrum(s, n_pad=_flag_as(w['n_pad'], w.get('n_pad_form')))
        elif fn == 'calc_fa_spectrum':
            eqsig.calc_fa_spectrum(s, n=w['n'], p2_plus=w['p2_plus'])
        else:
            raise ValueError('unknown witness kind %r' % (fn,))
    return ['%s: %s' % (v['clause'], v['msg']) for v in ctx.violations]
