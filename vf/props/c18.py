"""C18 - two-component rotation and cluster alignment do what they say.

Monitors (post-conditions on the real functions, wherever the call comes from; every oracle works on a snapshot of the
argument values taken at call entry, never on derived caches):
  eqsig.multiple.combine_at_angle   result == ns*cos(theta) + we*sin(theta)  (oracle: vf/oracles/rotation.py); arguments
                                    bit-for-bit unchanged
  eqsig.multiple.compute_rotated    angles == mod(linspace(-off, 180-off, points), 360); i-th value == the measure
                                    re-evaluated on an AccSignal built from the oracle combination at the i-th angle
  Cluster.time_match                state post-condition with a pre-state snapshot of every signal: the oracle identifies
                                    the integer lag of every non-master signal from the pre-state; afterwards the signal
                                    must be its own samples shifted by that lag, coincide with the master on the overlap,
                                    keep its length and stay an ndarray; master untouched
  Cluster.same_start                state post-condition: master untouched, every other signal changed by a constant,
                                    section averages (read back through the public get_section_average) equal the master's
  fns.average.get_section_average   (the function behind Signal.get_section_average) with the section given as SAMPLE INDICES
                                    (index=True): result == mean of the samples start..end-1 of the entry snapshot; signal
                                    unchanged. After same_start on a window whose ends are sample times the section is read back
                                    in the index form too and must equal the master's.
The master of a cluster is whatever the public attribute `master_index` says at CALL time: it is chosen through the constructor
(keyword or positional) and re-assigned after construction / in the middle of a history (int, np.int64/32/intp); every oracle
reads it from the pre-state of the call.
Relations between executions (theta=0/90/180/..., theta+180 negates, half-circle end points of a scan, offset+180, first
result intact after a second call on other data, caller arrays and twin objects untouched) are checked by the driver after
the related calls return.
"""
import itertools
import math

import numpy as np

from vf import attach, core, gen, tol
from vf.oracles import rotation as O

PROP_ID = 'C18'
TECHNIQUE = ('runtime post-condition monitors on combine_at_angle / compute_rotated / Cluster.time_match / '
             'Cluster.same_start (state post-conditions with pre-state snapshots), scalar reference oracles, constructed '
             'lags; offline relation checks between related executions')
RULE = ('rotation cases = (ns, we, dt) pairs: gen.record classes, amplitudes 1e-12..1e12 (independent per component), dt nice/'
        'reciprocal/log-uniform 1e-9..1e3, 1..300 samples incl. 2**k-1, 2**k, 2**k+1 and three 70 000-sample cases per run; '
        'every component in one of the forms float64, float32, int64/32/16/8, uint8/16 (full dtype range), lists of floats/'
        'ints/mixed, tuple, non-contiguous and reversed views, read-only arrays; Signal or AccSignal, the same object as both '
        'components, a twin built from the other component; combined at theta in {0,90,180,270,360,450,-90,-180, 37.5, '
        'random in +-360, random in +-3400} and at every theta+180, theta passed as int/float/np.float64/np.int64/0-d array/'
        'np.float32; scans with offset in {0,90,180,270,30,-45,random} x points in {2,3,5,7,100} x 16 measures (pga/pgv/pgd/'
        'arias_intensity parameters; callables returning scalars and series, among them the sign-sensitive signed max/min, one '
        'signed sample, last value of cumsum / velocity / displacement series), the triple (offset, measure, points) '
        'enumerated cyclically, called by keyword, positionally and with defaults; then a history on the same objects (cache '
        'reads, reset_values same/shorter/longer, add_constant, further combinations and a scan) and a second pair of the same '
        'shape after which the first results are re-checked. cluster cases = 2..4 equal-length slices (2*steps+2..400 samples, '
        'steps 1..15, 25, 40; two 70 000-sample cases) of one longer base record displaced by known lags; the (size, master '
        'index, lag-sign pattern in {0,+,-}^(size-1)) space (141 patterns, i.e. every order of already-aligned and lagged '
        'signals for every master) is enumerated cyclically, magnitudes in {1, steps-1, random}, every fifth case all at '
        'exactly +-(steps-1); modes: exact lags -> time_match [-> same_start], offsets -> same_start, offsets+lags -> '
        'same_start -> time_match, lags + 1e-7 noise -> time_match, static level 1e-9..1e6 + offsets 1e-12..1e3 -> '
        'same_start, histories (time_match / same_start in random order with repeats, cache reads, re-lagging resets, '
        'add_constant, length-changing resets); containers 2-D float64/float32/int/uint arrays, lists of arrays/lists/int '
        'lists, tuples, non-contiguous row/column views, Fortran order, read-only; twin cluster from the same caller object; '
        'a second cluster of the same shape processed afterwards with the first re-checked; every keyword of time_match / '
        'same_start incl. defaults and boundary windows (start=0, start=end, end=T). distinct = digest of all inputs and '
        'options; non-trivial = components not both constant / at least one non-master signal with non-zero lag or offset. '
        'Audit round 2: scan offsets also 1, 57.2957.. (= 1 rad), 540, -725, pi, random in +-3400; points in {1, 2, 3, 5, 7, 31, '
        '32, 33, 63, 64, 65, 100, 127, 128, 129, 256}; the triple (offset kind 13, measure 16, points 15) walks the full '
        'product (pairwise coprime moduli); record shapes ramp+noise, pure ramp, monotone, one-sided, tail-heavy, one sample '
        '1e3..1e12 x the rest, Nyquist + noise, single changed sample (rotation components and cluster bases); awkward time '
        'steps (gen.awkward_dt) with windows at whole samples; clusters of 1, 5, 6, 7, 8, 12 and 16 signals with the master '
        'mostly not at index 0; warm members, deep-copied clusters processed the same way, members of aligned clusters and '
        'signals derived by combine_at_angle used as rotation components and corrected in place. Wave 5: every case also scans '
        'a named ARRAY-valued attribute (values, velocity, displacement, fa_spectrum, fa_spectrum_abs, s_a, s_v, s_d; points '
        '1..5, keyword and positional) judged row by row; every ninth rotation case and every eighth cluster case uses '
        'special but valid scales (gen.special_scale / amplitudes 1e+-165..1e+-250: uniformly tiny or huge, 1e-150 vs 1e150 '
        'inside one record, ripple on a large baseline, counts above 2**24) in float64 / list containers. Round 3 (wave 6): the '
        'master is chosen through the constructor (keyword / positional) in every case and, in 40% of the cases with >= 2 signals, '
        'the cluster is BUILT with another master and `master_index` is re-assigned (int, np.int64, np.int32, np.intp) before the '
        'first operation - for every mode, i.e. for time_match and same_start over the same 141 enumerated patterns; 30% of the '
        'cases re-assign it once or twice more at the end of the history (also back to the constructor value), each followed by '
        'same_start and/or time_match; deep copies AND pickle round trips of the cluster taken cold, warm or after the first j '
        'operations (after a re-assignment too) and processed the same way; the same container processed a third time after a '
        'cluster of another record (same or longer shape); sections given as sample indices (index=True: whole record, first / '
        'last / one sample, random; keyword, positional, np.int64, np.bool_, module function) read on the members before and after '
        'the operations and on rotation components / results; same_start windows at the ends of the admissible range (start=end=T, '
        'end=T(1-1e-12), start=1e-300, start=1e-9 dt, the last two samples) and with np.float64 / np.int64 start / end; windows '
        'ending beyond the record (refused: cluster must be unchanged); verbose=1 (output captured); assignment to the read-only '
        '`values` of a member; silent (all-zero) master / member / rotation component; rotation angles next to the quadrants '
        '(90k +- 1e-9, +- 1e-13, +- 1 ulp), +-3600, 5e-324, 1e-300, -1e-17; copy.copy (then only rebinding operations) / deepcopy / '
        'pickle of warm components read, used as components and changed before / after the original; components of unequal '
        'length or time step (refused: components unchanged); f(A); f(B); f(A) with B of another length. Round 4 (wave 8): clusters '
        'whose records are SHORT relative to the search window, steps < npts < 2*steps+2 (default steps=10: 11..21 samples; steps '
        '1..15, 25, 40), exact lags up to +-(steps-1) in both directions with 60% of them >= npts//2, the same 141 (size, master, '
        'sign) patterns, modes exact / history (8 x 141 cases quick, 120 x 141 thorough); same_start windows with the documented '
        'sentinel end=-1 ("to the end of the record": default start, start=0, start at a sample time, the last sample but one, '
        'random start; -1 as int / float / np.int64 / np.float64) in 14% of all same_start calls of every mode; the defaults of '
        'get_section_average (no arguments, start=0, end=-1, positional (0, -1, False), module function) read on the members. '
        'Round 5 (checklist 28-33): scalar forms - the angle, the scan offset (float / int / np.float64 / np.int64 / 0-d float and int '
        'arrays), points (int / np.int64 / np.int32 / 0-d), the common time step of the two components (float / np.float64 / 0-d array, '
        'one shared object in 30% of the cases) and of a cluster (float / np.float64 / 0-d array shared by the cluster, its twins and all '
        'members / Python int 1, 2), steps (int / np.int64 / np.int32 / 0-d), start / end of 12% of the same_start windows and the -1 '
        'sentinel as 0-d arrays, index windows as 0-d arrays; every 0-d array handed over is held and must keep its value; flags: verbose as '
        '1 / True / np.True_ / 0-d, index as True / np.True_ / 0-d / 1, and the UNSET forms np.False_ / 0-d False / 0 of index (same section '
        'read with index=False) and of set_step. bool-dtype records (runs of on / off, array and list of bools) as rotation components and as '
        'cluster containers (all modes that integer containers take). The index form with the sentinel end=-1. Settings: every time_match / '
        'same_start is framed by a snapshot of master_index, dt, names, master, order, response_times, freq_range and each member\'s '
        'label / dt / smooth_fa_freqs / response_times; 30% of the clusters get user periods resp_times (1, 2, 3 or 31 entries from 0.5 dt to '
        '300 dt; ndarray / list / tuple), read as s_a when 0.002 <= dt <= 0.1. Results: the arrays of a combine_at_angle result and of the '
        '(angles, values) of two scans are overwritten and the same calls repeated. The end=-1 oracle fixes ONE reading per tree from '
        'probe records (install) instead of accepting either reading per call.')
ASSUMPTIONS = [
    'NaN-free real records; both components have the same length and dt',
    '|theta| <= 3600 degrees (the degree->radian rounding stays far below the 1e-12 relative allowance); a theta handed over '
    'as np.float32 is judged with rtol 1e-6 + 2.4e-7*|theta in rad| in a clause of its own (eqsig then evaluates cos/sin in single precision)',
    'a callable returning a series contributes its LAST value (the scan takes val[-1]); measures are deterministic',
    'the measures themselves (pga, pgv, pgd, CAV) are re-evaluated by eqsig on the oracle combination - their correctness '
    'belongs to other properties; the final Arias intensity is recomputed by the oracle',
    'time_match is judged for equal-length signals whose lag is identifiable: the residual of the best lag over the full '
    'overlap is below half the residual of every other lag |L|<steps over the interior window [steps, n-steps); periodic, '
    'constant and edge-only signals are counted as observations, not judged',
    'integer records of every width (values using most of the dtype range, int64 up to 2**40) are in the domain and judged '
    'by the ordinary clauses',
    'the clause time_match.pad=edge-sample is taken from the comments in the source ("pad with initial/final value"), '
    'not from the property statement',
    'same_start is judged for windows 0 <= start <= end <= (n-1)*dt; the section average is whatever the public '
    'get_section_average(start, end) returns',
    'round 4: the sentinel end = -1 (default of get_section_average; time_indices passes it on as the slice end) is a window "from '
    'start to the end of the record", judged for 0 <= start <= (n-2)*dt by the same read-back clause and, when start is a sample '
    'time, by means computed by the oracle from the samples under both readings of "to the end" (without the last sample, as the '
    'source slices values[s:-1], or with it - the docstrings do not say): one reading must equalise every signal with the master. '
    'The FLOAT form -1.0 of the sentinel (docstring: int or float) raised TypeError before fix F44 of eqsig; judged like the int form',
    'round 4: records short relative to the search window (steps < npts < 2*steps+2) have no sample inside the overlap of every '
    'candidate lag; there the lag is called identifiable when the records coincide bit-for-bit at exactly one lag |L| < steps and at '
    'every other candidate EVERY aligned sample pair differs (1e-150 < |d| < 1e150), so that any residual search over any non-empty '
    'part of the overlaps must select L; npts <= steps (empty residual window) stays outside the domain',
    'compute_rotated with points = 1 returns the single angle -offset (numpy linspace convention); points < 1 and float32 '
    'offsets are not driven',
    'tolerances are local: rotation per sample (|ns_i|+|we_i|), the signed-sample measure at its own sample, section '
    'averages relative to the largest magnitude inside the section window plus the applied shift, constancy of the shift '
    'sample by sample; valid for amplitudes 1e-12..1e12 (squares stay far from the subnormal range) and |theta| <= 3600',
    'extreme scales: rotation, the linear measures and same_start are judged up to 1e+-250 (nice dt, so that integrals stay '
    'normal doubles); energy-type measures (Arias, cube mean) are not scanned there (their squares legitimately under/'
    'overflow); the lag search of time_match is a sum of SQUARED residuals, so clusters that go through time_match keep '
    'amplitudes within 1e-140..1e140; every tolerance is relative (no absolute floor)',
    'array-valued attributes: response spectra rows are scanned with dt in {0.005..0.1} and judged with rtol 1e-6 (their '
    'own conditioning belongs to C01/C03); a callable returning a series still contributes its last value',
    'a Cluster of one signal is judged for same_start only (time_match needs two signals: probed, counted, not judged)',
    'the index convention of the section window (int(start/dt), int(end/dt)+1) is not judged here: same_start and the '
    'read-back use the same public get_section_average, so only their agreement is decided',
    'the master of a cluster is the signal at the public attribute master_index AT CALL TIME (quantifier: "master_index in '
    'range"), whether it was given to the constructor or assigned afterwards as int / numpy integer; assignments to '
    'Cluster.master (the name), Cluster.dt and Cluster.names after construction are not driven: the statement does not say '
    'what they mean and the clean code ignores them',
    'a section given as sample indices (get_section_average(start, end, index=True), 0 <= start < end <= npts) is the samples '
    'start..end-1 (Python slice, from the source / docstring "if False then start and end are considered values in time"); a '
    'TIME window whose two ends are sample times (t == i*dt and t/dt == i exactly) is read as the closed interval: it holds '
    'the samples i0..i1, which is also what makes the existing single-sample window start == end non-empty. Other time windows '
    'keep the convention unjudged (previous assumption). index=True with the default end=-1, empty or negative index windows '
    'are not driven',
    'a same_start window that ends beyond the record is outside the quantifier: judged only for "refused completely" (if the '
    'call raises, every signal, npts and master_index are bit-for-bit as before); if a version serves it, it is counted, not '
    'judged. The same for rotation components of unequal length / time step',
    'shallow copies (copy.copy) of a signal share the value buffer by definition: only rebinding operations (reset_values) are '
    'driven on them; a shallow copy of a Cluster shares its signals and is not driven',
    'round 5: a 0-d array handed over where a scalar is usual counts as the scalar it holds and belongs to the caller (its value after '
    'the call is judged); float32 forms of the scan offset, of time steps and of window times are not driven (they change the arithmetic, '
    'not the form); unsigned steps (np.uint8(10): -steps wraps, eqsig raises ValueError) are not driven - the checklist names signed forms',
    'round 5: an unset flag in the forms np.False_ / 0-d False / 0 means False. On the clean tree get_section_average(index=np.False_) takes '
    'the index branch and time_match(set_step=np.False_) raises UnboundLocalError (`is False` tests): both mechanisms are routed to '
    'observations until ruled on - the index flag is judged since fix F46 of eqsig, the set_step form is ruled outside the statement; set_step=0 is not driven (an integer there may mean a step)',
    'round 5: "to the end of the record" (end = -1) has ONE reading per tree, taken from probe records at install on which the two readings '
    '(with / without the last sample) differ widely, in every calling form; a tree whose probes disagree is a violation',
    'round 5: response periods given to Cluster(resp_times=...) are a setting: stored value for value on the cluster and on every AccSignal '
    'member, never changed by reads or operations; the spectra read at them are not judged here (C01 / C03)',
    'a cluster handed over as float32 stays float32 inside eqsig; same_start is then judged with 1e-5 instead of 1e-12 '
    '(time_match and the rotation functions are judged as for float64: shifts are exact, rotation promotes to float64)',
]
MIN_EVALS = {
    'quick': {
        'cluster.caller-arrays-unchanged': 1200,
        'cluster.deepcopy-twin-same-result': 240,
        'cluster.first-result-intact-after-second-call': 360,
        'cluster.member-memo==fresh': 690,
        'cluster.members-own-their-data': 2400,
        'cluster.members-rotated(monitored)': 390,
        'cluster.twin-unaffected': 350,
        'rotation.arguments-unchanged': 170000,
        'rotation.caller-arrays-unchanged': 750,
        'rotation.component-objects-unchanged': 750,
        'rotation.derived-memo==fresh': 330,
        'rotation.first-result-intact-after-second-call': 740,
        'rotation.quadrant-identities': 7400,
        'rotation.result-is-AccSignal(dt,npts)': 170000,
        'rotation.result-owns-its-data': 170000,
        'rotation.theta+180-negates': 8900,
        'rotation==ns*cos+we*sin': 160000,
        'rotation==ns*cos+we*sin(float32-theta,single-precision-rtol)': 1700,
        'same_start.master-unchanged': 1600,
        'same_start.section-average==master': 4700,
        'same_start.shift-is-constant': 4700,
        'same_start.values-are-arrays': 1600,
        'scan.array-values==attribute(combination)': 740,
        'scan.angles==mod(linspace)': 6700,
        'scan.half-circle-endpoints': 1500,
        'scan.offset+180-relation': 620,
        'scan.parameter-vs-callable-twin': 1500,
        'scan.values==measure(combination)': 6700,
        'time_match.lag-removed(L<0)': 1100,
        'time_match.lag-removed(L=0)': 1800,
        'time_match.lag-removed(L>0)': 1100,
        'time_match.lag-removed(|L|=steps-1)': 1100,
        'time_match.lag0-after-lagged-unchanged': 600,
        'time_match.length-unchanged': 6000,
        'time_match.master-unchanged': 1500,
        'time_match.overlap==master': 2800,
        'time_match.pad=edge-sample': 2200,
        'time_match.values-are-arrays': 6000,
        # round 3
        'cluster.member-values-assignment(all-or-nothing)': 100,
        'cluster.third-run==first-run': 180,
        'rotation.copied-component-memo==fresh': 500,
        'rotation.copied-component==original': 800,
        'rotation.copy-leaves-original-alone': 500,
        'rotation.refused-call-leaves-components-unchanged': 85,
        'rotation.third-call==first-call': 370,
        'same_start.refused-call-leaves-cluster-unchanged': 240,
        'same_start.section-average(index-form)==master': 2300,
        'section-average(index=True)==mean(samples[start:end])': 12000,
        'section-average.signal-unchanged': 12000,
        'same_start.master-unchanged(master re-assigned after construction)': 650,
        'time_match.master-unchanged(master re-assigned after construction)': 600,
        # round 4
        'same_start.section-average(end=-1: to the end of the record)==master': 700,
        'section-average(end=-1)==mean(samples from start to the end of the record)': 4500,
        'time_match.lag-removed(short record, |L| >= npts//2)': 750,
        'time_match.lag-removed(short record: npts < 2*steps+2)': 2200,
        # round 5
        'cluster.settings-unchanged(master_index, dt, names, periods, member labels / steps / frequencies)': 7000,
        'cluster.step-and-periods-as-given(after reads and operations)': 1700,
        'rotation.result-belongs-to-caller(overwritten, same call repeated)': 740,
        'scalar-arguments-unchanged(0-d arrays are mutable)': 12000,
        'section-average(end=-1).one-reading-per-tree(probe records)': 8,
        'section-average(index=False-like flag: np.False_, 0-d, 0)==section-average(index=False)': 400,
    },
    'thorough': {
        'cluster.caller-arrays-unchanged': 21000,
        'cluster.deepcopy-twin-same-result': 4200,
        'cluster.first-result-intact-after-second-call': 6400,
        'cluster.member-memo==fresh': 12000,
        'cluster.members-own-their-data': 43000,
        'cluster.members-rotated(monitored)': 7300,
        'cluster.twin-unaffected': 6500,
        'rotation.arguments-unchanged': 3500000,
        'rotation.caller-arrays-unchanged': 15000,
        'rotation.component-objects-unchanged': 15000,
        'rotation.derived-memo==fresh': 6700,
        'rotation.first-result-intact-after-second-call': 14000,
        'rotation.quadrant-identities': 150000,
        'rotation.result-is-AccSignal(dt,npts)': 3400000,
        'rotation.result-owns-its-data': 3400000,
        'rotation.theta+180-negates': 180000,
        'rotation==ns*cos+we*sin': 3300000,
        'rotation==ns*cos+we*sin(float32-theta,single-precision-rtol)': 35000,
        'same_start.master-unchanged': 28000,
        'same_start.section-average==master': 85000,
        'same_start.shift-is-constant': 85000,
        'same_start.values-are-arrays': 28000,
        'scan.array-values==attribute(combination)': 14000,
        'scan.angles==mod(linspace)': 130000,
        'scan.half-circle-endpoints': 31000,
        'scan.offset+180-relation': 12000,
        'scan.parameter-vs-callable-twin': 30000,
        'scan.values==measure(combination)': 130000,
        'time_match.lag-removed(L<0)': 20000,
        'time_match.lag-removed(L=0)': 36000,
        'time_match.lag-removed(L>0)': 20000,
        'time_match.lag-removed(|L|=steps-1)': 21000,
        'time_match.lag0-after-lagged-unchanged': 11000,
        'time_match.length-unchanged': 110000,
        'time_match.master-unchanged': 28000,
        'time_match.overlap==master': 51000,
        'time_match.pad=edge-sample': 41000,
        'time_match.values-are-arrays': 110000,
        # round 3
        'cluster.member-values-assignment(all-or-nothing)': 2000,
        'cluster.third-run==first-run': 3200,
        'rotation.copied-component-memo==fresh': 10000,
        'rotation.copied-component==original': 17000,
        'rotation.copy-leaves-original-alone': 10000,
        'rotation.refused-call-leaves-components-unchanged': 1700,
        'rotation.third-call==first-call': 7500,
        'same_start.master-unchanged(master re-assigned after construction)': 11000,
        'same_start.refused-call-leaves-cluster-unchanged': 4800,
        'same_start.section-average(index-form)==master': 40000,
        'section-average(index=True)==mean(samples[start:end])': 210000,
        'section-average.signal-unchanged': 210000,
        'time_match.master-unchanged(master re-assigned after construction)': 11000,
        # round 4
        'same_start.section-average(end=-1: to the end of the record)==master': 12000,
        'section-average(end=-1)==mean(samples from start to the end of the record)': 75000,
        'time_match.lag-removed(short record, |L| >= npts//2)': 11000,
        'time_match.lag-removed(short record: npts < 2*steps+2)': 32000,
        # round 5
        'cluster.settings-unchanged(master_index, dt, names, periods, member labels / steps / frequencies)': 120000,
        'cluster.step-and-periods-as-given(after reads and operations)': 29000,
        'rotation.result-belongs-to-caller(overwritten, same call repeated)': 14000,
        'scalar-arguments-unchanged(0-d arrays are mutable)': 200000,
        'section-average(end=-1).one-reading-per-tree(probe records)': 8,
        'section-average(index=False-like flag: np.False_, 0-d, 0)==section-average(index=False)': 6500,
    },
}
EXHAUSTIVE = {'quick': 'every (cluster size 2..4, master index, lag-sign pattern in {0,+,-}^(size-1)) = 141 patterns, each '
                       'visited 16 times (the scan triples (offset kind, measure, points) are enumerated cyclically, not claimed complete)',
              'thorough': 'the same 141 patterns, each visited 284 times'}

RTOL_ROT = 1e-12      # rotation formula, relative to |ns_i| + |we_i|
RTOL_MEASURE = 1e-9   # measure of the real combination vs measure of the oracle combination (well-conditioned scale)
ATOL_ANGLE = 1e-9     # degrees, on the circle
RTOL_AVG = 1e-12      # section averages / constancy of the shift, relative to max|x|
RTOL_AVG_F32 = 1e-5   # the same for clusters stored in single precision (eqsig keeps a float32 record in float32)
G = 9.81

CTX = None
CTOR_MASTER = {}      # id(cluster) -> master index handed to the constructor (driver bookkeeping for the counter clauses)
CURRENT = None        # complete description of the case the driver is executing (witness for the monitors)
MEASURES = None       # key -> dict(parameter=|func=, parity, scale)

SPECIAL_ANGLES = [0, 90, 180, 270, 360, 450, -90, -180]
QUADRANT = {0: (1, 'ns'), 90: (1, 'we'), 180: (-1, 'ns'), 270: (-1, 'we'), 360: (1, 'ns'), 450: (1, 'we'),
            -90: (-1, 'we'), -180: (-1, 'ns')}
# 13 offset kinds, 16 measures, 15 point counts: pairwise coprime, so k -> (k % 13, k % 16, k % 15) walks the whole product
OFFSET_KINDS = [0, 90, 180, 270, 30, -45, 'random', 1, 57.29577951308232, 540, -725, 3.141592653589793, 'random-large']
POINTS = [2, 5, 100, 3, 7, 1, 31, 32, 33, 63, 64, 65, 127, 128, 256]
POINTS2 = [5, 2, 3, 7, 1, 129, 33, 65]
INT_FORMS = {'i64': 'int64', 'i32': 'int32', 'i16': 'int16', 'i8': 'int8', 'u8': 'uint8', 'u16': 'uint16',
             'bool': 'bool'}       # round 5: bool-dtype records (on/off, rectangular pulses) are cast to float like integer counts


def rtol_rot_f32(theta_deg):
    """theta handed over as np.float32: eqsig converts to radians and evaluates cos/sin in single precision, i.e. an
    absolute error of about eps32 * (1 + |theta in rad|) in cos and sin."""
    return 1e-6 + 2.4e-7 * abs(math.radians(float(theta_deg)))


def n_shards(tier):
    return 16


# ------------------------------------------------------------------------------------------------ containers / dtypes
def int_range(form):
    if form == 'bool':
        return 0, 1
    ii = np.iinfo(INT_FORMS[form])
    return max(int(ii.min), -2 ** 40), min(int(ii.max), 2 ** 40)


def apply_form(v, form):
    """The exact float64 values v handed over in another container / dtype (v is representable in that form)."""
    v = np.asarray(v, dtype=float)
    if form in INT_FORMS:
        return np.round(v).astype(INT_FORMS[form])
    if form == 'f32':
        return v.astype(np.float32)
    if form == 'list-float':
        return [float(x) for x in v]
    if form == 'list-int':
        return [int(x) for x in v]
    if form == 'list-bool':
        return [bool(x) for x in v]
    if form == 'tuple-float':
        return tuple(float(x) for x in v)
    if form == 'mixed-list':
        return [int(x) if i % 2 else float(x) for i, x in enumerate(v)]
    if form == 'noncontig':
        big = np.zeros(2 * len(v))
        big[::2] = v
        return big[::2]
    if form == 'reversed-view':
        return v[::-1].copy()[::-1]
    if form == 'readonly':
        w = v.copy()
        w.flags.writeable = False
        return w
    return v.copy()


def snapshot(container):
    return np.array(container, copy=True)


def unchanged(container, snap):
    now = np.asarray(container)
    return now.dtype == snap.dtype and now.shape == snap.shape and bool(np.array_equal(now, snap))


def _scalar(v):
    """A 0-d array handed over where a scalar is usual counts as that scalar (numpy scalar of the same dtype)."""
    if isinstance(v, np.ndarray) and v.ndim == 0:
        return v[()]
    return v


HELD = []             # (0-d array handed to eqsig as a scalar argument, its value at hand-over, what it was)


def hold(obj, what):
    """Round 5: 0-d arrays are MUTABLE scalars - remember what the caller handed over; judged by check_held."""
    if isinstance(obj, np.ndarray):
        HELD.append((obj, obj.copy(), what))
    return obj


def check_held(ctx, case, where):
    for obj, snap, what in HELD:
        ctx.check(unchanged(obj, snap), 'scalar-arguments-unchanged(0-d arrays are mutable)',
                  lambda: dict(case, failing={'relation': 'a 0-d array handed over as a scalar argument keeps its value', 'argument': what,
                                              'before': snap, 'after': np.array(obj), 'where': where}),
                  'the 0-d array handed over as %s was %r and is %r after the calls (%s): the function wrote into the caller\'s scalar'
                  % (what, snap[()], obj[()] if obj.ndim == 0 else obj, where))
    del HELD[:]


def scalar_obj(x, form):
    """The number x in one of the scalar forms a caller may use (round 5)."""
    if form in ('0d', '0d-float'):
        return np.array(float(x))
    if form == '0d-int':
        return np.array(int(x))
    if form == '0d-bool':
        return np.array(bool(x))
    if form == 'np.bool':
        return np.bool_(bool(x))
    if form == 'np.float64':
        return np.float64(x)
    if form == 'np.int64':
        return np.int64(int(x))
    if form == 'np.int32':
        return np.int32(int(x))
    if form == 'np.intp':
        return np.intp(int(x))
    if form == 'int':
        return int(x)
    if form == 'bool':
        return bool(x)
    if form == 'as-is':
        return x
    return float(x)


def angle_obj(th, form):
    if form == '0d-int':
        return np.array(int(th))
    if form == 'int':
        return int(th)
    if form == 'np.int64':
        return np.int64(int(th))
    if form == 'np.float64':
        return np.float64(th)
    if form == '0d':
        return np.array(float(th))
    if form == 'np.float32':
        return np.float32(th)
    return float(th)


# ------------------------------------------------------------------------------------------------ measures
def _m_signed_max(s):
    return np.max(s.values)


def _m_signed_min(s):
    return float(np.min(s.values))


def _m_sample(s):
    return s.values[len(s.values) // 3]


def _m_cube_mean(s):
    return float(np.mean(np.asarray(s.values, dtype=float) ** 3))


def _m_cumsum_series(s):
    return np.cumsum(s.values)


def _m_cumsum_list(s):
    return [float(v) for v in np.cumsum(s.values)]


def _m_velocity_series(s):
    return s.velocity


def _m_displacement_series(s):
    return s.displacement


def _m_pgv_callable(s):
    return s.pgv


def _m_abs_series(s):
    return np.abs(s.values)


def build_measures(eqsig):
    """The registry of measures scanned by the workload. scale(A, dt): A = |ns|+|we| per sample."""
    s_peak = lambda A, dt: float(np.max(A))
    s_vel = lambda A, dt: float(dt * np.sum(A))
    s_disp = lambda A, dt: float(dt * dt * len(A) * np.sum(A))
    s_sum = lambda A, dt: float(np.sum(A))
    return {
        'pga': dict(parameter='pga', parity='even', scale=s_peak),
        'pgv': dict(parameter='pgv', parity='even', scale=s_vel),
        'pgd': dict(parameter='pgd', parity='even', scale=s_disp),
        'arias_intensity': dict(parameter='arias_intensity', parity='even',
                                scale=lambda A, dt: float(math.pi / (2 * G) * dt * np.sum(A * A))),
        'f:signed-max': dict(func=_m_signed_max, parity=None, scale=s_peak),
        'f:signed-min': dict(func=_m_signed_min, parity=None, scale=s_peak),
        'f:signed-sample': dict(func=_m_sample, parity='odd', scale=lambda A, dt: float(A[len(A) // 3])),   # local scale
        'f:cube-mean': dict(func=_m_cube_mean, parity='odd', scale=lambda A, dt: float(np.float64(np.max(A)) ** 3)),
        'f:cumsum-series-last': dict(func=_m_cumsum_series, parity='odd', scale=s_sum),
        'f:cumsum-list-last': dict(func=_m_cumsum_list, parity='odd', scale=s_sum),
        'f:velocity-series-last': dict(func=_m_velocity_series, parity='odd', scale=s_vel),
        'f:displacement-series-last': dict(func=_m_displacement_series, parity='odd', scale=s_disp),
        'f:pgv-scalar': dict(func=_m_pgv_callable, parity='even', scale=s_vel),
        'f:abs-series-last': dict(func=_m_abs_series, parity='even', scale=s_peak),
        'f:calc_cav-series-last': dict(func=eqsig.im.calc_cav, parity='even', scale=s_vel),
        'f:calc_arias-series-last': dict(func=eqsig.im.calc_arias_intensity, parity='even',
                                         scale=lambda A, dt: float(math.pi / (2 * G) * dt * np.sum(A * A))),
    }


ENERGY_MEASURES = ('arias_intensity', 'f:calc_arias-series-last', 'f:cube-mean')     # squares / cubes of the record
APARAMS = ['velocity', 's_a', 'values', 'fa_spectrum', 'displacement', 's_v', 'fa_spectrum_abs', 's_d']   # array-valued


def build_array_measures():
    """Named AccSignal attributes that are ARRAYS: the scan returns one row per angle. ascale(A, dt, ref) is the local scale
    (A = |ns|+|we| per sample, ref = expected rows)."""
    rowmax = lambda A, dt, ref: np.max(np.abs(ref), axis=1, keepdims=True) if ref.size else 0.0
    return {
        'a:values': dict(parameter='values', parity='odd', array=True, rtol=RTOL_MEASURE, ascale=lambda A, dt, ref: A[None, :]),
        'a:velocity': dict(parameter='velocity', parity='odd', array=True, rtol=RTOL_MEASURE,
                           ascale=lambda A, dt, ref: (dt * np.cumsum(A))[None, :]),
        'a:displacement': dict(parameter='displacement', parity='odd', array=True, rtol=RTOL_MEASURE,
                               ascale=lambda A, dt, ref: (dt * dt * np.cumsum(np.cumsum(A)))[None, :]),
        'a:fa_spectrum': dict(parameter='fa_spectrum', parity='odd', array=True, rtol=RTOL_MEASURE, ascale=rowmax),
        'a:fa_spectrum_abs': dict(parameter='fa_spectrum_abs', parity='even', array=True, rtol=RTOL_MEASURE, ascale=rowmax),
        'a:s_a': dict(parameter='s_a', parity='even', array=True, rtol=1e-6, ascale=rowmax),
        'a:s_v': dict(parameter='s_v', parity='even', array=True, rtol=1e-6, ascale=rowmax),
        'a:s_d': dict(parameter='s_d', parity='even', array=True, rtol=1e-6, ascale=rowmax),
    }


AMEASURES = build_array_measures()


def measure_entry(key):
    return AMEASURES[key] if key in AMEASURES else MEASURES[key]


def _measure_of(eqsig, combo, dt, parameter, func):
    """The measure of one (oracle) combination, per the statement; monitors are paused by the caller."""
    if parameter == 'arias_intensity':
        return O.arias_final(combo, dt, G)
    sig = eqsig.AccSignal(np.array(combo, dtype=float), dt)
    if parameter is not None:
        return getattr(sig, parameter)
    val = func(sig)
    if hasattr(val, '__len__'):
        val = val[-1]
    return val


def _lookup_measure(parameter, func):
    if MEASURES is None:
        return None
    if parameter is not None:
        for k, m in AMEASURES.items():
            if m['parameter'] == parameter:
                return m
    for k, m in MEASURES.items():
        if parameter is not None and m.get('parameter') == parameter:
            return m
        if parameter is None and func is not None and m.get('func') is func:
            return m
    return None


# ------------------------------------------------------------------------------------------------ rotation monitors
def _arg(args, kwargs, i, name, default=None):
    if len(args) > i:
        return args[i]
    return kwargs.get(name, default)


def _rot_witness(ns, we, dt, **kw):
    if CURRENT is not None:
        d = dict(CURRENT)
        d['failing'] = kw
        return d
    d = {'kind': 'rotation-call', 'ns': np.asarray(ns), 'we': np.asarray(we), 'dt': dt}
    d.update(kw)
    return d


def _pre_rot(args, kwargs):
    """Snapshot of both components' values at call entry (raw dtype)."""
    try:
        ns = _arg(args, kwargs, 0, 'acc_sig_ns')
        we = _arg(args, kwargs, 1, 'acc_sig_we')
        a2 = args[2] if len(args) > 2 else kwargs.get('angle', kwargs.get('angle_off_ns', 0.0))
        if isinstance(a2, np.ndarray):       # a 0-d array is mutable: the oracle uses the value at call entry
            a2 = a2.copy()[()] if a2.ndim == 0 else a2.copy()
        return np.array(ns.values, copy=True), np.array(we.values, copy=True), float(ns.dt), a2      # dt may be a (mutable) 0-d array
    except Exception:
        return None


def _check_purity(ctx, ns, we, pre, call):
    okk = unchanged(ns.values, pre[0]) and unchanged(we.values, pre[1])
    ctx.check(okk, 'rotation.arguments-unchanged',
              lambda: _rot_witness(pre[0], pre[1], ns.dt, call=call),
              '%s changed the values (or dtype) of one of its component signals' % call)


def _post_combine(args, kwargs, result, pre):
    ctx = CTX
    ns = _arg(args, kwargs, 0, 'acc_sig_ns')
    we = _arg(args, kwargs, 1, 'acc_sig_we')
    angle = _arg(args, kwargs, 2, 'angle')
    try:
        angle = pre[3]
        a = np.asarray(pre[0], dtype=float)
        b = np.asarray(pre[1], dtype=float)
        th = float(angle)
    except Exception:
        ctx.observe('combine_at_angle.out-of-domain-call')
        return
    if a.ndim != 1 or a.shape != b.shape or a.size == 0 or not math.isfinite(th) or abs(th) > 3600.0 \
            or not (np.all(np.isfinite(a)) and np.all(np.isfinite(b))):
        ctx.observe('combine_at_angle.out-of-domain-call')
        return
    single = isinstance(angle, (np.floating, np.ndarray)) and getattr(angle, 'dtype', np.dtype(float)).itemsize < 8
    rtol = rtol_rot_f32(th) if single else RTOL_ROT
    clause = 'rotation==ns*cos+we*sin(float32-theta,single-precision-rtol)' if single else 'rotation==ns*cos+we*sin'
    ref = np.array(O.combine(a.tolist(), b.tolist(), th))
    sc = np.array(O.combine_scale(a.tolist(), b.tolist()))
    got = getattr(result, 'values', None)
    okk = isinstance(got, np.ndarray) and got.shape == ref.shape and tol.close(got, ref, scale=sc, rtol=rtol)
    ctx.check(okk, clause,
              lambda: _rot_witness(a, b, ns.dt, call='combine_at_angle', angle=th, got=np.asarray(got), expected=ref),
              'combine_at_angle(theta=%r): %s' % (angle, tol.describe(np.asarray(got), ref, scale=sc, rtol=rtol)
                                                  if isinstance(got, np.ndarray) else 'values is %s' % type(got).__name__))
    import eqsig
    ctx.check(isinstance(result, eqsig.AccSignal) and result.dt == ns.dt and result.npts == a.size,
              'rotation.result-is-AccSignal(dt,npts)',
              lambda: _rot_witness(a, b, ns.dt, call='combine_at_angle', angle=th),
              'combine_at_angle returned %s dt=%r npts=%r (components dt=%r npts=%d)'
              % (type(result).__name__, getattr(result, 'dt', None), getattr(result, 'npts', None), ns.dt, a.size))
    _check_purity(ctx, ns, we, pre, 'combine_at_angle')
    owns = result is not ns and result is not we and isinstance(got, np.ndarray) and got.flags.writeable \
        and not any(isinstance(x.values, np.ndarray) and np.shares_memory(got, x.values) for x in (ns, we))
    ctx.check(owns, 'rotation.result-owns-its-data', lambda: _rot_witness(a, b, ns.dt, call='combine_at_angle', angle=th),
              'combine_at_angle(theta=%r) returned one of its arguments / an object sharing memory with them' % (angle,))


def _post_scan(args, kwargs, result, pre):
    import eqsig
    ctx = CTX
    ns = _arg(args, kwargs, 0, 'acc_sig_ns')
    we = _arg(args, kwargs, 1, 'acc_sig_we')
    off = _arg(args, kwargs, 2, 'angle_off_ns', 0.0)
    parameter = _arg(args, kwargs, 3, 'parameter', None)
    func = _arg(args, kwargs, 4, 'func', None)
    points = _scalar(_arg(args, kwargs, 5, 'points', 100))      # a 0-d integer array counts as that integer
    off = _scalar(off) if pre is None else pre[3]                # the offset at call entry
    try:
        a = np.asarray(pre[0], dtype=float)
        b = np.asarray(pre[1], dtype=float)
        offf = float(off)
        dt = pre[2]                                              # the step at call entry (the caller's, round 5)
    except Exception:
        ctx.observe('compute_rotated.out-of-domain-call')
        return
    if (not isinstance(points, (int, np.integer))) or isinstance(points, (bool, np.bool_)) or points < 1 or not math.isfinite(offf) or abs(offf) > 3600 \
            or (isinstance(off, np.floating) and off.dtype.itemsize < 8) \
            or not (np.all(np.isfinite(a)) and np.all(np.isfinite(b))):
        ctx.observe('compute_rotated.out-of-domain-call')
        return
    points = int(points)
    wit = lambda **kw: _rot_witness(a, b, dt, call='compute_rotated', offset=offf, points=points,
                                    parameter=parameter, func=getattr(func, '__name__', None) if func is not None else None,
                                    **kw)
    try:
        degrees, pvalues = result
        degrees = np.asarray(degrees, dtype=float)
        pvalues = np.asarray(pvalues)
    except Exception:
        ctx.violation('scan.angles==mod(linspace)', wit(), 'compute_rotated did not return (angles, values)')
        return
    ref_deg = O.scan_angles(offf, points)
    ok_a = degrees.shape == (points,) and bool(np.all((degrees >= 0) & (degrees <= 360)))
    worst = 0.0
    if ok_a:
        worst = max(O.circular_distance(g, r) for g, r in zip(degrees.tolist(), ref_deg))
        ok_a = worst <= ATOL_ANGLE
    ctx.check(ok_a, 'scan.angles==mod(linspace)', lambda: wit(got_angles=degrees, expected_angles=np.array(ref_deg)),
              'compute_rotated(offset=%r, points=%d): angles %s... expected %s... (worst circular distance %.3g deg)'
              % (off, points, degrees[:4].tolist(), ref_deg[:4], worst))
    # i-th value == measure of the combination at the i-th requested angle
    refs = []
    al, bl = a.tolist(), b.tolist()
    with attach.paused():
        for th in ref_deg:
            refs.append(_measure_of(eqsig, O.combine(al, bl, th), dt, parameter, func))
    m = _lookup_measure(parameter, func)
    if parameter is not None and parameter != 'arias_intensity' and any(hasattr(r, '__len__') for r in refs):
        # an ARRAY-valued attribute: one row per angle, each row == the attribute of that combination
        try:
            ref_arr = np.array([np.asarray(r) for r in refs])
            complex_ok = ref_arr.dtype.kind == 'c' or pvalues.dtype.kind != 'c'
            rt = m['rtol'] if m is not None and m.get('array') else RTOL_MEASURE
            if m is not None and m.get('array'):
                sc_arr = m['ascale'](np.abs(a) + np.abs(b), dt, ref_arr)
            else:
                sc_arr = np.max(np.abs(ref_arr), axis=1, keepdims=True) if ref_arr.size else 0.0
            ok_arr = pvalues.shape == ref_arr.shape and complex_ok and pvalues.dtype.kind in 'fciu'
            worst_txt = 'shape %s dtype %s, expected shape %s' % (pvalues.shape, pvalues.dtype, ref_arr.shape)
            if ok_arr and ref_arr.size:
                err = np.abs(pvalues - ref_arr)
                err = np.where(np.isfinite(err), err, np.inf)
                excess = err - rt * np.broadcast_to(sc_arr, err.shape)
                j = np.unravel_index(int(np.argmax(excess)), err.shape)
                ok_arr = bool(excess[j] <= 0)
                worst_txt = 'at %s got %r expected %r (|diff| %.3g > %.3g)' % (j, pvalues[j], ref_arr[j], err[j],
                                                                               float(rt * np.broadcast_to(sc_arr, err.shape)[j]))
        except Exception as e:
            ok_arr, worst_txt = False, 'cannot compare: %r' % (e,)
        ctx.check(ok_arr, 'scan.array-values==attribute(combination)',
                  lambda: wit(got_shape=list(pvalues.shape), expected_shape=list(np.shape(refs))),
                  'compute_rotated(offset=%r, points=%d, parameter=%r): %s' % (off, points, parameter, worst_txt))
        _check_purity(ctx, ns, we, pre, 'compute_rotated')
        return
    try:
        refs = np.array([float(r) for r in refs])
        got = np.array([float(v) for v in pvalues.tolist()]) if pvalues.ndim == 1 else None
    except Exception:
        ctx.observe('compute_rotated.non-scalar-measure')
        return
    if m is not None:
        scale = m['scale'](np.abs(a) + np.abs(b), dt)
    else:
        scale = float(np.max(np.abs(refs))) if refs.size else 0.0
    ok_v = got is not None and got.shape == refs.shape and tol.close(got, refs, scale=scale, rtol=RTOL_MEASURE)
    ctx.check(ok_v, 'scan.values==measure(combination)', lambda: wit(got_values=pvalues, expected_values=refs, scale=scale),
              'compute_rotated(offset=%r, points=%d, %s): %s'
              % (off, points, parameter if parameter is not None else getattr(func, '__name__', func),
                 tol.describe(got, refs, scale=scale, rtol=RTOL_MEASURE) if got is not None else 'values shape %s'
                 % (pvalues.shape,)))
    _check_purity(ctx, ns, we, pre, 'compute_rotated')


# ------------------------------------------------------------------------------------------------ cluster monitors
def _settings(c):
    """Round 5: everything the user SET on a cluster and its members (never derived data): copies, taken at call entry / exit."""
    def arr(x):
        return None if x is None else np.array(x, copy=True)
    sigs = [c.signal_by_index(i) for i in range(len(c.signals))]
    return {'master_index': int(c.master_index), 'dt': float(c.dt), 'names': list(c.names), 'master': c.master,
            'n_signals': len(sigs), 'order': [c.name_by_index(i) for i in range(len(sigs))],
            'response_times': arr(getattr(c, 'response_times', None)), 'freq_range': arr(getattr(c, 'freq_range', None)),
            'members': [{'type': type(s_).__name__, 'label': s_.label, 'dt': float(s_.dt),
                         'smooth_fa_freqs': arr(s_.smooth_fa_freqs),
                         'response_times': arr(getattr(s_, 'response_times', None))} for s_ in sigs]}


def _same_setting(a, b):
    if isinstance(a, dict):
        return isinstance(b, dict) and sorted(a) == sorted(b) and all(_same_setting(a[k], b[k]) for k in a)
    if isinstance(a, list):
        return isinstance(b, list) and len(a) == len(b) and all(_same_setting(x, y) for x, y in zip(a, b))
    if isinstance(a, np.ndarray):
        return isinstance(b, np.ndarray) and unchanged(b, a)
    return type(a) is type(b) and a == b


def _check_settings(ctx, c, pre, op, kwargs):
    try:
        now = _settings(c)
        bad = sorted(k for k in now if not _same_setting(pre['settings'][k], now[k]))
    except Exception as e:
        bad = ['unreadable: %r' % (e,)]
    ctx.check(not bad, 'cluster.settings-unchanged(master_index, dt, names, periods, member labels / steps / frequencies)',
              lambda: _cluster_witness(pre, op, kwargs, changed=bad),
              '%s changed what the user had set on the cluster or its members: %s' % (op, bad))


def _pre_cluster(args, kwargs):
    c = args[0]
    sigs = [c.signal_by_index(i) for i in range(len(c.signals))]
    return {'values': [np.array(s.values, dtype=float, copy=True) for s in sigs], 'settings': _settings(c),
            'kwargs': {k: (v.copy()[()] if isinstance(v, np.ndarray) and v.ndim == 0 else v) for k, v in kwargs.items()},   # at call entry
            'npts': [s.npts for s in sigs], 'master': c.master_index, 'dt': float(c.dt),      # (dt may be a mutable 0-d array)
            'stypes': [type(s).__name__ for s in sigs],
            'dtypes': [str(getattr(s.values, 'dtype', type(s.values).__name__)) for s in sigs]}


def _cluster_witness(pre, op, kwargs, **kw):
    if CURRENT is not None:
        d = dict(CURRENT)
        d['failing'] = dict(kw, op=op, kwargs={k: (int(v) if isinstance(v, np.integer) else v) for k, v in kwargs.items()})
        return d
    d = {'kind': 'cluster-state', 'values': pre['values'], 'dt': pre['dt'], 'master_index': pre['master'],
         'stypes': ['acc' if t == 'AccSignal' else 'custom' for t in pre['stypes']], 'op': op, 'kwargs': dict(kwargs),
         'dtypes': pre['dtypes']}
    d.update(kw)
    return d


def _post_time_match(args, kwargs, result, pre):
    ctx = CTX
    c = args[0]
    kwargs = pre['kwargs']                         # the arguments as they were at call entry (0-d arrays are mutable)
    steps = _scalar(kwargs.get('steps', 10))       # a 0-d integer array counts as that integer (round 5)
    vals = pre['values']
    m = pre['master']
    nsig = len(vals)
    n = len(vals[m])
    _check_settings(ctx, c, pre, 'time_match', kwargs)
    sst = _scalar(kwargs.get('set_step', False))
    if (not (sst is False or (isinstance(sst, np.bool_) and not sst)) or nsig < 2 or not isinstance(steps, (int, np.integer))
            or isinstance(steps, (bool, np.bool_)) or steps < 1
            or any(len(v) != n for v in vals) or n <= steps
            or not all(np.all(np.isfinite(v)) for v in vals)):
        ctx.observe('time_match.out-of-domain-call')
        return
    steps = int(steps)
    wit = lambda **kw: _cluster_witness(pre, 'time_match', kwargs, **kw)
    after = [c.signal_by_index(i).values for i in range(nsig)]
    for i in range(nsig):
        ctx.check(isinstance(after[i], np.ndarray), 'time_match.values-are-arrays',
                  lambda: wit(signal=i, type_after=type(after[i]).__name__),
                  'after time_match(steps=%d) the values of signal %d (master %d) are a %s, not an ndarray'
                  % (steps, i, m, type(after[i]).__name__))
        ctx.check(len(after[i]) == n and c.signal_by_index(i).npts == n, 'time_match.length-unchanged',
                  lambda: wit(signal=i, len_after=len(after[i])),
                  'time_match changed the length of signal %d: %d -> %d (npts %r)'
                  % (i, n, len(after[i]), c.signal_by_index(i).npts))
    aft = [np.asarray(v, dtype=float) for v in after]
    ctx.check(np.array_equal(aft[m], vals[m]), 'time_match.master-unchanged', lambda: wit(signal=m),
              'time_match changed the master signal (index %d)' % m)
    if CTOR_MASTER.get(id(c), m) != m and np.array_equal(aft[m], vals[m]):
        ctx.ok('time_match.master-unchanged(master re-assigned after construction)')      # counter only; a failure is recorded above
    lagged_before = False
    ml = vals[m].tolist()
    for i in range(nsig):
        if i == m:
            continue
        L, exact = O.identify_lag(ml, vals[i].tolist(), steps)
        if L is None:
            ctx.observe('time_match.' + exact)
            continue
        if len(aft[i]) != n:
            continue
        lo, hi = O.overlap_after_removal(n, L)
        kind = 'L>0' if L > 0 else ('L<0' if L < 0 else 'L=0')
        ok_shift = np.array_equal(aft[i][lo:hi], vals[i][lo + L:hi + L])
        ctx.check(ok_shift, 'time_match.lag-removed(%s)' % kind,
                  lambda: wit(signal=i, lag=L, exact=exact, dtype=pre['dtypes'][i]),
                  'time_match(steps=%d), master %d, dtype %s: signal %d lags the master by %d samples; afterwards it is not its '
                  'own samples shifted by that lag on [%d, %d)' % (steps, m, pre['dtypes'][i], i, L, lo, hi))
        if abs(L) == steps - 1 and L != 0:
            if ok_shift:
                ctx.ok('time_match.lag-removed(|L|=steps-1)')      # counter only; a failure is recorded above
        if n < 2 * steps + 2 and ok_shift:       # counters only (round 4): records short relative to the search window
            ctx.ok('time_match.lag-removed(short record: npts < 2*steps+2)')
            if abs(L) >= max(1, n // 2):
                ctx.ok('time_match.lag-removed(short record, |L| >= npts//2)')
        if L == 0 and lagged_before:
            ctx.check(np.array_equal(aft[i], vals[i]), 'time_match.lag0-after-lagged-unchanged',
                      lambda: wit(signal=i, lag=L),
                      'time_match(steps=%d), master %d: signal %d was already aligned (lag 0) and comes after a lagged '
                      'signal; it was changed' % (steps, m, i))
        if exact:
            ctx.check(np.array_equal(aft[i][lo:hi], aft[m][lo:hi]), 'time_match.overlap==master',
                      lambda: wit(signal=i, lag=L),
                      'time_match(steps=%d), master %d: signal %d (lag %d) does not coincide with the master on the '
                      'overlap [%d, %d) afterwards' % (steps, m, i, L, lo, hi))
        if L != 0 and ok_shift:
            ok_pad = bool(np.all(aft[i][:lo] == vals[i][0])) and bool(np.all(aft[i][hi:] == vals[i][-1]))
            ctx.check(ok_pad, 'time_match.pad=edge-sample', lambda: wit(signal=i, lag=L),
                      'time_match(steps=%d): signal %d (lag %d): the %d padded samples are not the %s sample of the signal'
                      % (steps, i, L, abs(L), 'first' if L < 0 else 'last'))
        if L != 0:
            lagged_before = True


def _post_same_start(args, kwargs, result, pre):
    ctx = CTX
    c = args[0]
    kwargs = pre['kwargs']                         # the arguments as they were at call entry (0-d arrays are mutable)
    start = _scalar(kwargs.get('start', 0))        # 0-d arrays count as the scalars they hold (round 5)
    end = _scalar(kwargs.get('end', 1))
    vals = pre['values']
    m = pre['master']
    dt = pre['dt']
    if CURRENT is not None and CURRENT.get('kind') == 'cluster':
        dt = float(CURRENT['dt'])                  # the step the CALLER gave, not the object's copy of it
    nsig = len(vals)
    _check_settings(ctx, c, pre, 'same_start', kwargs)
    # the documented sentinel of get_section_average / time_indices: end = -1 means "to the end of the record"
    sentinel = _is_number(end) and end == -1
    try:
        if sentinel:
            in_dom = nsig >= 1 and _is_number(start) and 0 <= start and all(len(v) >= 2 and start <= (len(v) - 2) * dt for v in vals) \
                and all(np.all(np.isfinite(v)) for v in vals)
        else:
            in_dom = nsig >= 1 and 0 <= start <= end and all(end <= (len(v) - 1) * dt and len(v) > 0 for v in vals) \
                and all(np.all(np.isfinite(v)) for v in vals)
    except Exception:
        in_dom = False
    if not in_dom:
        ctx.observe('same_start.out-of-domain-call')
        return
    wit = lambda **kw: _cluster_witness(pre, 'same_start', kwargs, **kw)
    sigs = [c.signal_by_index(i) for i in range(nsig)]
    after = [s.values for s in sigs]
    ctx.check(all(isinstance(v, np.ndarray) for v in after), 'same_start.values-are-arrays',
              lambda: wit(types_after=[type(v).__name__ for v in after]), 'same_start left non-array values')
    aft = [np.asarray(v, dtype=float) for v in after]
    ctx.check(np.array_equal(aft[m], vals[m]), 'same_start.master-unchanged', lambda: wit(signal=m),
              'same_start(start=%r, end=%r) changed the master signal (index %d of %d)' % (start, end, m, nsig))
    if CTOR_MASTER.get(id(c), m) != m and np.array_equal(aft[m], vals[m]):
        ctx.ok('same_start.master-unchanged(master re-assigned after construction)')      # counter only; a failure is recorded above
    with attach.paused():
        try:
            avs = [float(s.get_section_average(start=start, end=end)) for s in sigs]
        except Exception as e:
            ctx.exception('same_start.section-average==master', wit(), e)
            return
    # the same section given as SAMPLE INDICES: when both ends of the window are sample times (t == i*dt and t/dt == i exactly)
    # the window holds the samples i0..i1 under every rounding convention; read back through the public index form
    avx = None
    nmin = min(len(v) for v in vals)
    i0, i1 = O.whole_sample_time(start, dt, nmin), (None if sentinel else O.whole_sample_time(end, dt, nmin))
    if sentinel:
        ctx.observe('same_start.window-to-the-end-of-the-record(end=-1)')
    elif i0 is not None and i1 is not None and i0 <= i1 and all(len(a_) == len(v_) for a_, v_ in zip(aft, vals)):
        try:
            avx = [float(s.get_section_average(start=i0, end=i1 + 1, index=True)) for s in sigs]      # monitored as well
        except Exception as e:
            ctx.exception('same_start.section-average(index-form)==master', wit(index_window=[i0, i1 + 1]), e)
            avx = None
    else:
        ctx.observe('same_start.window-not-on-whole-samples')
    # LOCAL scale: the largest magnitudes inside (a one-sample superset of) the section window, plus the applied shift
    wmax = []
    for v in vals:
        lo, hi = O.window_superset(len(v), dt, start, (len(v) - 1) * dt if sentinel else end)
        wmax.append(float(np.max(np.abs(v[lo:hi]))))
    # end = -1 with the start at a sample time i0: the section is "from sample i0 to the end of the record". Computed by the
    # oracle from the samples under BOTH readings of "to the end" (the source slices values[i0:-1], i.e. without the last sample;
    # the docstring does not say): one and the same reading must equalise the averages of every signal
    sent_means = None
    if sentinel and i0 is not None and all(len(a_) == len(v_) and i0 <= len(a_) - 2 for a_, v_ in zip(aft, vals)):
        sent_means = [[O.section_mean(a_.tolist(), i0, len(a_) - drop)[0] for a_ in aft] for drop in (1, 0)]
    for i in range(nsig):
        if i == m:
            continue
        rt_avg = RTOL_AVG_F32 if 'float32' in (pre['dtypes'][i], pre['dtypes'][m]) else RTOL_AVG
        okc, shift, jw, dev, allowed = O.shift_deviation(vals[i].tolist(), aft[i].tolist(), rt_avg)
        scale = wmax[i] + wmax[m] + abs(shift)
        okk = math.isfinite(avs[i]) and abs(avs[i] - avs[m]) <= rt_avg * scale
        ctx.check(okk, 'same_start.section-average==master',
                  lambda: wit(signal=i, average=avs[i], master_average=avs[m], allowed=rt_avg * scale),
                  'same_start(start=%r, end=%r), %d signals, master %d: section average of signal %d is %r, the master\'s '
                  'is %r (|diff| %.3g > %.3g)' % (start, end, nsig, m, i, avs[i], avs[m], abs(avs[i] - avs[m]),
                                                   rt_avg * scale))
        ctx.check(okc, 'same_start.shift-is-constant',
                  lambda: wit(signal=i, shift=shift, sample=jw, deviation=dev, allowed=allowed),
                  'same_start changed signal %d by something other than a constant (at sample %r after-before deviates from '
                  'the shift %r by %.3g > %.3g; length %d -> %d)' % (i, jw, shift, dev, allowed, len(vals[i]), len(aft[i])))
        if sent_means is not None:
            devs = [abs(sm[i] - sm[m]) for sm in sent_means]
            # round 5: ONE reading of "to the end" per tree (fixed by probe records at install), applied to every record
            oks = [math.isfinite(d_) and d_ <= rt_avg * scale for d_ in devs][_end_reading()]
            ctx.check(oks, 'same_start.section-average(end=-1: to the end of the record)==master',
                      lambda: wit(signal=i, first_sample=i0, means_without_last_sample=[sent_means[0][i], sent_means[0][m]],
                                  means_with_last_sample=[sent_means[1][i], sent_means[1][m]], allowed=rt_avg * scale),
                      'same_start(start=%r, end=%r), %d signals, master %d: afterwards the mean of signal %d from sample %d to the end '
                      'of the record (%s, the reading this tree shows on the probe records) differs from the master\'s: |diff| %.3g '
                      'without the last sample, %.3g with it; allowed %.3g'
                      % (start, end, nsig, m, i, i0, END_READINGS[_end_reading()], devs[0], devs[1], rt_avg * scale))
        if avx is not None:
            okx = math.isfinite(avx[i]) and abs(avx[i] - avx[m]) <= rt_avg * scale
            ctx.check(okx, 'same_start.section-average(index-form)==master',
                      lambda: wit(signal=i, average=avx[i], master_average=avx[m], allowed=rt_avg * scale, index_window=[i0, i1 + 1]),
                      'same_start(start=%r, end=%r) = samples %d..%d, %d signals, master %d: section average of signal %d read '
                      'back with (start=%d, end=%d, index=True) is %r, the master\'s is %r (|diff| %.3g > %.3g)'
                      % (start, end, i0, i1, nsig, m, i, i0, i1 + 1, avx[i], avx[m], abs(avx[i] - avx[m]), rt_avg * scale))


def _pre_section(args, kwargs):
    try:
        return np.array(_arg(args, kwargs, 0, 'series').values, copy=True)
    except Exception:
        return None


def _is_index(v):
    return isinstance(v, (int, np.integer)) and not isinstance(v, (bool, np.bool_))


def _is_number(v):
    return isinstance(v, (int, float, np.integer, np.floating)) and not isinstance(v, (bool, np.bool_))


END_READINGS = ('without the last sample', 'with the last sample')
END_READING = None    # round 5 (checklist 33): the ONE reading of "end = -1: to the end of the record" this tree shows on probe records


def _end_reading():
    return 0 if END_READING is None else END_READING       # (probe failed: already reported; judge with the source's reading)


def probe_end_convention(eqsig, ctx):
    """The oracle of the end = -1 sentinel accepts two readings of "to the end of the record" (the source slices values[s:-1], the
    docstrings do not say). Accepting either PER CALL lets a degenerate record satisfy "some reading" trivially, so the reading is
    fixed ONCE per tree here, from probe records on which the two readings differ widely, in every calling form (defaults,
    explicit int / float sentinel, start at a later sample, Signal / AccSignal, through same_start), and is then applied to every record."""
    global END_READING
    seen = {}
    probes = [([0.0, 0.0, 0.0, 0.0, 8.0], 1.0), ([1.0, 2.0, 4.0, 8.0, 16.0, 32.0, 64.0], 0.01), ([5.0, -3.0], 0.5),
              ([2.0, 2.0, 2.0, -40.0], 0.25)]
    with attach.paused():
        for v, dt in probes:
            for cls in (eqsig.Signal, eqsig.AccSignal):
                for j0 in sorted({0, 1, len(v) - 2}):
                    if j0 > len(v) - 2 or O.whole_sample_time(j0 * dt, dt, len(v)) != j0:
                        continue
                    calls = {'end=-1': lambda s_: s_.get_section_average(start=j0 * dt, end=-1),
                             'end=-1.0': lambda s_: s_.get_section_average(start=j0 * dt, end=-1.0),
                             'function': lambda s_: eqsig.fns.average.get_section_average(s_, j0 * dt)}
                    if j0 == 0:
                        calls['defaults'] = lambda s_: s_.get_section_average()
                    refs = [O.section_mean(v, j0, len(v) - drop)[0] for drop in (1, 0)]
                    for name, f in calls.items():
                        key = '%s %s n=%d start=%d*dt' % (name, cls.__name__, len(v), j0)
                        try:
                            got = float(f(cls(np.array(v), dt)))
                            fits = [abs(got - r_) <= 1e-12 * max(abs(x) for x in v) for r_ in refs]
                            seen[key] = 0 if fits == [True, False] else (1 if fits == [False, True] else 'neither (%r)' % got)
                        except Exception as e:
                            seen[key] = 'raises %r' % (e,)
    kinds = set(seen.values())
    okk = len(kinds) == 1 and kinds <= {0, 1}
    if okk:
        END_READING = kinds.pop()
    ctx.check(okk, 'section-average(end=-1).one-reading-per-tree(probe records)',
              {'kind': 'end-convention-probe', 'seen': {k: str(v) for k, v in seen.items()}},
              'on the probe records the sentinel end = -1 does not follow ONE reading of "to the end of the record": %s'
              % sorted((k, v if not isinstance(v, int) else END_READINGS[v]) for k, v in seen.items())[:8])
    ctx.note('end=-1 reading of this tree', END_READINGS[_end_reading()] if okk else 'none')


def _flag_true(index):
    """Boolean-like forms of a set flag: True, np.True_, a 0-d bool array, 1 (round 5)."""
    index = _scalar(index)
    return index is True or (isinstance(index, np.bool_) and bool(index)) or (type(index) is int and index == 1)


def _post_section_average(args, kwargs, result, pre):
    """get_section_average with the section given as sample indices (index=True): the mean of the samples start..end-1."""
    ctx = CTX
    index = _arg(args, kwargs, 3, 'index', False)
    series = _arg(args, kwargs, 0, 'series')
    start = _scalar(_arg(args, kwargs, 1, 'start', 0))
    end = _scalar(_arg(args, kwargs, 2, 'end', -1))
    if _flag_true(index) and _is_index(start) and _is_index(end) and end == -1 and pre is not None and pre.ndim == 1 \
            and pre.dtype.kind in 'fiu' and 0 <= start <= pre.size - 2 and np.all(np.isfinite(pre)):
        # round 5: the index form with the sentinel / default end = -1: from sample `start` to the end of the record, in the ONE
        # reading of "to the end" this tree shows on the probe records
        start = int(start)
        ref, wmax = O.section_mean(pre.tolist(), start, pre.size - (1, 0)[_end_reading()])
        rt = RTOL_AVG_F32 if pre.dtype.itemsize < 8 and pre.dtype.kind == 'f' else RTOL_AVG
        try:
            got = float(result)
            okk = np.ndim(result) == 0 and math.isfinite(got) and abs(got - ref) <= rt * wmax
        except Exception:
            got, okk = result, False
        ctx.check(okk, 'section-average(end=-1)==mean(samples from start to the end of the record)',
                  lambda: dict(CURRENT or {'kind': 'section-average-call', 'values': pre, 'dt': getattr(series, 'dt', None)},
                               failing={'call': 'get_section_average', 'start': start, 'end': -1, 'index': True, 'got': got, 'expected': ref}),
                  'get_section_average(start=%d, end=-1, index=True) on %d samples returned %r; the mean from sample %d to the end of the '
                  'record (%s) is %r' % (start, pre.size, got, start, END_READINGS[_end_reading()], ref))
        return
    if index is False:
        # time form: read back by the same_start monitor (its index convention is not judged), except the documented defaults /
        # sentinel end = -1 ("to the end of the record") with the start at a sample time: either reading of "to the end"
        if not (_is_number(end) and end == -1 and _is_number(start)) or pre is None or pre.ndim != 1 or pre.dtype.kind not in 'fiu' \
                or pre.size < 2 or not np.all(np.isfinite(pre)):
            return
        i0 = O.whole_sample_time(start, getattr(series, 'dt', 0.0), pre.size - 1)
        if i0 is None:
            return
        refs = [O.section_mean(pre.tolist(), i0, pre.size - drop) for drop in (1, 0)]
        rt = RTOL_AVG_F32 if pre.dtype.itemsize < 8 and pre.dtype.kind == 'f' else RTOL_AVG
        try:
            got = float(result)
            r_, w_ = refs[_end_reading()]      # round 5: one reading per tree (probe records), not "either" per call
            okk = np.ndim(result) == 0 and math.isfinite(got) and abs(got - r_) <= rt * w_
        except Exception:
            got, okk = result, False

        def wit_t(**kw):
            if CURRENT is not None:
                d = dict(CURRENT)
                d['failing'] = dict(kw, call='get_section_average', start=start, end=end, index=False)
                return d
            return dict(kw, kind='section-average-call', values=pre, dt=getattr(series, 'dt', None), start=start, end=end)
        ctx.check(okk, 'section-average(end=-1)==mean(samples from start to the end of the record)',
                  lambda: wit_t(got=got, expected_without_last_sample=refs[0][0], expected_with_last_sample=refs[1][0]),
                  'get_section_average(start=%r, end=%r) on %d samples (dt %r) returned %r; the mean from sample %d to the end of the '
                  'record is %r without the last sample, %r with it; this tree reads "to the end" %s on the probe records'
                  % (start, end, pre.size, getattr(series, 'dt', None), got, i0, refs[0][0], refs[1][0], END_READINGS[_end_reading()]))
        return
    if not _flag_true(index) or pre is None or pre.ndim != 1 \
            or pre.dtype.kind not in 'fiu' or not _is_index(start) or not _is_index(end) or not (0 <= start < end <= pre.size) \
            or not np.all(np.isfinite(pre)):
        ctx.observe('section-average.out-of-domain-call')
        return
    start, end = int(start), int(end)
    ref, wmax = O.section_mean(pre.tolist(), start, end)
    rt = RTOL_AVG_F32 if pre.dtype.itemsize < 8 and pre.dtype.kind == 'f' else RTOL_AVG

    def wit(**kw):
        if CURRENT is not None:
            d = dict(CURRENT)
            d['failing'] = dict(kw, call='get_section_average', start=start, end=end, index=True)
            return d
        return dict(kw, kind='section-average-call', values=pre, dt=getattr(series, 'dt', None), start=start, end=end)
    try:
        got = float(result)
        okk = np.ndim(result) == 0 and math.isfinite(got) and abs(got - ref) <= rt * wmax
    except Exception:
        got, okk = result, False
    ctx.check(okk, 'section-average(index=True)==mean(samples[start:end])', lambda: wit(got=got, expected=ref),
              'get_section_average(start=%d, end=%d, index=True) on %d samples returned %r; the mean of the samples %d..%d is %r '
              '(allowed %.3g)' % (start, end, pre.size, got, start, end - 1, ref, rt * wmax))
    ctx.check(unchanged(series.values, pre), 'section-average.signal-unchanged', lambda: wit(),
              'get_section_average(start=%d, end=%d, index=True) changed the values of its signal' % (start, end))


def install(ctx):
    """Attach the C18 monitors to the imported eqsig (idempotent per process)."""
    global CTX, MEASURES
    CTX = ctx
    import eqsig
    if MEASURES is None:
        MEASURES = build_measures(eqsig)
    if getattr(install, '_done', False):
        return
    mm = eqsig.multiple
    attach.wrap(mm, 'combine_at_angle', _post_combine, pre=_pre_rot)
    attach.wrap(mm, 'compute_rotated', _post_scan, pre=_pre_rot)
    attach.wrap_method(mm.Cluster, 'time_match', _post_time_match, pre=_pre_cluster)
    attach.wrap_method(mm.Cluster, 'same_start', _post_same_start, pre=_pre_cluster)
    import eqsig.fns.average as _fa
    attach.wrap(_fa, 'get_section_average', _post_section_average, pre=_pre_section)      # rebinds the alias used by Signal
    install._done = True
    probe_end_convention(eqsig, ctx)


# ------------------------------------------------------------------------------------------------ rotation workload
VEC_FORMS = ['f64', 'f64', 'f64', 'f64', 'f32', 'i64', 'i32', 'i16', 'i8', 'u8', 'u16', 'list-float', 'list-int',
             'tuple-float', 'mixed-list', 'noncontig', 'reversed-view', 'readonly', 'bool', 'list-bool']
ROT_LENGTHS = [1, 2, 3, 5, 15, 16, 17, 31, 32, 33, 63, 64, 65, 127, 128, 129, 150, 255, 256, 257, 300]
LONG_N = 70000
ROT_LONG_CASES = (3, 500, 1000)
SENSITIVE = ['f:signed-max', 'f:cumsum-series-last', 'f:signed-sample', 'f:velocity-series-last', 'f:signed-min',
             'f:cumsum-list-last', 'f:displacement-series-last', 'f:cube-mean']


def _wide_dt(rng):
    r = rng.random()
    if r < 0.25:
        return float(10.0 ** rng.uniform(-9, 3))
    if r < 0.4:       # steps for which dt/(dt/k) != k, int(t/dt) lands one off ...
        return float(gen.awkward_dt(rng, int(rng.integers(2, 21))))
    return gen.dt(rng)


LINEAR_SENSITIVE = ['f:signed-max', 'f:cumsum-series-last', 'f:signed-sample', 'f:velocity-series-last', 'f:signed-min',
                    'f:cumsum-list-last', 'f:displacement-series-last']
EXTREME_FORMS = ['f64', 'f64', 'list-float', 'tuple-float', 'noncontig', 'reversed-view', 'readonly']


def clamp_scale(x, lo, hi):
    """Rescale x so that its largest magnitude lies in [lo, hi] (every value stays a finite double)."""
    x = np.asarray(x, dtype=float)
    m = float(np.max(np.abs(x))) if x.size else 0.0
    if m == 0 or not np.isfinite(m):
        return x
    if m < lo:
        return x * (lo / m)
    if m > hi:
        return x * (hi / m)
    return x


def extreme_vector(rng, n, lim=250):
    """A record at a numerically special but valid scale: uniformly tiny / huge (1e-lim..1e+lim), extreme dynamic range inside
    the record, small ripple on a large baseline, integer counts above 2**24 (gen.special_scale), or gen.record amplitudes
    1e+-165..1e+-220. Linear operations stay exact in relative terms; squares and products under/overflow."""
    x, cls = gen.record(rng, n, allow_const=False)
    if rng.random() < 0.6:
        y, suffix = gen.special_scale(rng, x)
        return clamp_scale(y, 10.0 ** (-lim), 10.0 ** lim), cls + suffix
    e = float(rng.choice([-1.0, 1.0])) * rng.uniform(min(165, lim - 30), min(220, lim))
    return clamp_scale(x, 1e-3, 1e3) * 10.0 ** e, cls + '/extreme-scale'


EXTRA_CLASSES = ['ramp+noise', 'pure-ramp', 'monotone', 'one-sided', 'tail-heavy', 'spike', 'nyquist+noise',
                 'single-changed-sample']


def extra_record(rng, n, cls=None):
    """Record shapes the statement does not forbid: trend-dominated, monotone, one-sided, tail-heavy, one sample 1e3..1e12
    times larger than the rest, energy at the Nyquist frequency, a single changed sample."""
    if cls is None:
        cls = EXTRA_CLASSES[int(rng.integers(len(EXTRA_CLASSES)))]
    t = np.arange(n, dtype=float)
    amp = float(10.0 ** rng.uniform(-12, 12)) if rng.random() < 0.3 else float(10.0 ** rng.uniform(-1, 1))
    if cls == 'ramp+noise':
        x = float(rng.choice([-1.0, 1.0])) * rng.uniform(0.5, 5) * t + rng.normal(size=n) * float(10.0 ** rng.uniform(-3, 0))
    elif cls == 'pure-ramp':
        x = (t + float(rng.integers(-5, 6))) * float(rng.choice([-2.0, 0.5, 3.0]))
        amp = 1.0
    elif cls == 'monotone':
        x = np.cumsum(np.abs(rng.normal(size=n)) + 0.01)
    elif cls == 'one-sided':
        x = -np.abs(np.cumsum(rng.normal(size=n))) - rng.uniform(0.5, 3)
    elif cls == 'tail-heavy':
        x = np.zeros(n)
        m = max(1, n // int(rng.integers(4, 11)))
        x[-m:] = rng.normal(size=m)
    elif cls == 'spike':
        x = rng.normal(size=n) * float(10.0 ** rng.uniform(-3, 0))
        x[int(rng.integers(n))] = float(rng.choice([-1.0, 1.0])) * float(10.0 ** rng.uniform(3, 12))
        amp = 1.0
    elif cls == 'nyquist+noise':
        x = (-1.0) ** t * rng.uniform(1, 10) + rng.normal(size=n) * 0.1
    else:
        x = np.full(n, float(rng.choice([-2.0, 0.5, 3.0])))
        x[int(rng.integers(n))] += float(rng.choice([-1.0, 0.25]))
        amp = 1.0
    return np.asarray(x, dtype=float) * amp, cls


def pulses(rng, n):
    """An on/off record (exact 0.0 / 1.0): runs of random length 1..6, starting on or off."""
    out, state = [], bool(rng.random() < 0.5)
    while len(out) < n:
        out += [1.0 if state else 0.0] * int(rng.integers(1, 7))
        state = not state
    return np.array(out[:n], dtype=float)


def draw_vector(rng, n, form, edge=None):
    """Exact float64 values that the form can represent, and a class label."""
    if rng.random() < 0.035:       # a silent (all-zero) component is a valid record
        return np.zeros(n), 'silent'
    if form in ('bool', 'list-bool'):       # rectangular pulses: runs of on / off of random length
        x = pulses(rng, n)
        cls = 'bool-pulses'
    elif form in INT_FORMS:
        lo, hi = int_range(form)
        x = rng.integers(lo, hi + 1, size=n).astype(float)
        cls = 'int-' + form
    elif form in ('list-int', 'mixed-list'):
        x = rng.integers(-1000, 1001, size=n).astype(float)
        cls = 'int-small'
    else:
        amp = float(10.0 ** rng.uniform(-12, 12)) if rng.random() < 0.35 else None
        if rng.random() < 0.3:
            x, cls = extra_record(rng, n)
        else:
            x, cls = gen.record(rng, n, amp=amp)
        if edge == 'first' and n > 1:
            x[0] = 3.0 * (np.max(np.abs(x)) or 1.0)
        elif edge == 'last' and n > 1:
            x[-1] = -3.0 * (np.max(np.abs(x)) or 1.0)
        if form == 'f32':
            x = x.astype(np.float32).astype(float)
    return x, cls


def _angle_form(rng, th):
    forms = ['float', 'float', 'np.float64', '0d', 'np.float32']
    if float(th) == int(th):
        forms += ['int', 'int', 'np.int64', '0d-int']
    return forms[int(rng.integers(len(forms)))]


def _make_scan(rng, okind, mkey, points, pair180, style):
    if okind == 'random':
        off = float(rng.uniform(-400, 400))
    elif okind == 'random-large':
        off = float(rng.uniform(-3400, 3400))
    else:
        off = float(okind)
    off_form = ['float', 'float', 'np.float64', '0d'][int(rng.integers(4))]       # round 5: 0-d arrays (mutable scalars)
    if okind not in ('random', 'random-large'):
        off_form = ['float', 'np.float64', '0d'][int(rng.integers(3))]
        if off == int(off):
            off_form = ['float', 'int', 'np.float64', 'np.int64', '0d', '0d-int'][int(rng.integers(6))]
    points_form = ['int', 'int', 'int', 'np.int64', 'np.int32', '0d-int'][int(rng.integers(6))]
    if style == 'defaults':      # angle_off_ns and points left at their defaults (0.0, 100)
        off, off_form, points, okind, points_form = 0.0, 'float', 100, 0, 'int'
    return {'offset': off, 'offset_kind': str(okind), 'offset_form': off_form, 'points': int(points), 'points_form': points_form,
            'measure': mkey, 'pair180': bool(pair180), 'style': style}


def make_rotation_case(rng, k):
    long_case = k in ROT_LONG_CASES
    n = LONG_N + int(rng.integers(0, 3)) if long_case else int(ROT_LENGTHS[int(rng.integers(len(ROT_LENGTHS)))])
    forms = [VEC_FORMS[int(rng.integers(len(VEC_FORMS)))] for _ in range(2)]
    edge = [None, None, None, 'first', 'last'][int(rng.integers(5))]
    extreme = (k % 9 == 4) and not long_case and n >= 2
    aparam = None if long_case else 'a:' + APARAMS[k % len(APARAMS)]
    if extreme and aparam.startswith('a:s_'):
        aparam = 'a:velocity'
    if extreme:      # extreme but valid scales: float64 / list containers only, one or both components
        forms = [EXTREME_FORMS[int(rng.integers(len(EXTREME_FORMS)))] for _ in range(2)]
        ns, c1 = extreme_vector(rng, n)
        we, c2 = extreme_vector(rng, n) if rng.random() < 0.7 else draw_vector(rng, n, forms[1], None)
        dt = gen.dt(rng, 'nice')
    else:
        ns, c1 = draw_vector(rng, n, forms[0], edge)
        we, c2 = draw_vector(rng, n, forms[1], None)
        dt = _wide_dt(rng)
    if aparam is not None and aparam.startswith('a:s_'):       # response spectra: keep T/dt inside the range of their own checks
        dt = float(rng.choice([0.005, 0.01, 0.02, 0.05, 0.1]))
    same_object = (not long_case) and rng.random() < 0.06
    twin = (not same_object) and rng.random() < 0.1
    if same_object:
        we, forms[1], c2 = ns, forms[0], c1
    r1 = float(np.round(rng.uniform(-360, 360), 3))
    r2 = float(rng.uniform(-3400, 3400))
    base_angles = [float(a) for a in SPECIAL_ANGLES] + [37.5, r1, r2]
    # neighbourhoods of the quadrant angles, both ends of the judged range, denormal and tiny angles
    q90 = 90.0 * float(rng.integers(-8, 9))
    base_angles += [[q90 + 1e-9, q90 - 1e-9, q90 + 1e-13 * max(1.0, abs(q90)), float(np.nextafter(q90, 1e9)), float(np.nextafter(q90, -1e9))][k % 5],
                    [3600.0, -3600.0, 3420.0 - 1e-9, 5e-324, 1e-300, -1e-17, 359.99999999999994, 1e-9][(k // 5) % 8]]
    if long_case:
        base_angles = [0.0, 90.0, r1]
    angles, aforms = [], []
    for a in base_angles:
        f = _angle_form(rng, a)
        if f == 'np.float32':
            a = float(np.float32(a))
        for x, fx in ((a, f), (a + 180.0, _angle_form(rng, a + 180.0))):
            if fx == 'np.float32':
                fx = 'float' if float(np.float32(x)) != x else fx
            if x not in angles:
                angles.append(x)
                aforms.append(fx)
    # scans: the (offset kind, measure, points) triple is enumerated by the case index
    mkeys = sorted(MEASURES)
    okind = OFFSET_KINDS[k % len(OFFSET_KINDS)]
    mkey = mkeys[k % len(mkeys)]
    if extreme and mkey in ENERGY_MEASURES:       # squares / cubes legitimately under/overflow at these scales
        mkey = ['pga', 'pgv', 'pgd', 'f:calc_cav-series-last'][k % 4]
    sens = LINEAR_SENSITIVE if extreme else SENSITIVE
    points = POINTS[k % len(POINTS)]
    style = ['kw', 'positional', 'kw', 'defaults' if n <= 64 and k % 12 == 7 else 'kw'][k % 4]
    if long_case:
        points, style = 2, 'kw'
    ncap = 32 if points >= 63 else (64 if points >= 31 else n)      # keep points x samples bounded
    if n > ncap and not long_case:
        ns, we = ns[:ncap].copy(), we[:ncap].copy()
        if same_object:
            we = ns
        n = ncap
    scans = [_make_scan(rng, okind, mkey, points, k % 2 == 0 and not long_case, style)]
    # a second, cheap scan with a sign-sensitive callable so that every case carries one
    okind2 = OFFSET_KINDS[(k // 3) % len(OFFSET_KINDS)]
    scans.append(_make_scan(rng, okind2, sens[(k // 5) % len(sens)],
                            2 if long_case else (POINTS2[(k // 21) % len(POINTS2)] if n <= 64 else [5, 2, 3, 7, 1][(k // 21) % 5]),
                            k % 2 == 1 and not long_case, 'kw'))
    if aparam is not None:      # a named ARRAY-valued attribute: one row per angle
        scans.append(_make_scan(rng, OFFSET_KINDS[(k // 2) % len(OFFSET_KINDS)], aparam, [3, 1, 2, 5, 4][(k // 8) % 5], False,
                                ['kw', 'positional'][(k // 3) % 2]))
    types = [['acc', 'acc'], ['sig', 'acc'], ['acc', 'sig'], ['sig', 'sig']][int(rng.integers(4))]
    dtf = ['float', 'float', 'float', 'np.float64', '0d']       # round 5: the same step in two scalar forms ("equally sampled")
    case = {'kind': 'rotation', 'extreme': bool(extreme), 'ns': ns, 'we': we, 'dt': dt, 'types': types, 'forms': forms, 'same_object': bool(same_object),
            'dt_forms': [dtf[int(rng.integers(5))], dtf[int(rng.integers(5))]], 'share_dt': bool(rng.random() < 0.3),
            'twin': bool(twin), 'angles': angles, 'angle_forms': aforms, 'scans': scans, 'classes': [c1, c2], 'edge': edge}
    # a second pair of the same shape (process-wide state) and a history on the same objects
    if not long_case:
        s_ns, _ = draw_vector(rng, n, 'f64')
        s_we, _ = draw_vector(rng, n, 'f64')
        case['second'] = {'ns': s_ns, 'we': s_we}
    if not long_case and rng.random() < 0.45:
        # objects derived by the library from warm objects, then used as components / corrected in place
        d1 = float(SPECIAL_ANGLES[int(rng.integers(len(SPECIAL_ANGLES)))]) if rng.random() < 0.5 else float(np.round(rng.uniform(-360, 360), 2))
        case['derived'] = {'theta1': d1, 'theta2': float(np.round(rng.uniform(-360, 360), 2)),
                           'const': float(rng.normal()) * float(np.max(np.abs(ns)) or 1.0),
                           'scan': _make_scan(rng, OFFSET_KINDS[int(rng.integers(len(OFFSET_KINDS)))],
                                              sens[int(rng.integers(len(sens)))], int(rng.choice([1, 2, 3])), False, 'kw')}
    if not long_case:
        # round 3: copies of warm components (copy / deepcopy / pickle), refused calls (unequal lengths / time steps), a third
        # call after other data of another shape, sections given as sample indices
        if rng.random() < 0.35:
            case['copies'] = {'kinds': [['copy', 'deepcopy', 'pickle'][int(i)] for i in rng.permutation(3)[:int(rng.integers(1, 4))]],
                              'warm': [['pga', 'pgv', 'velocity', 'displacement', 'fa_spectrum', 's_a', 'none'][int(i)]
                                       for i in rng.integers(0, 7, size=2)],
                              'order': ['copy-first', 'original-first'][int(rng.integers(2))], 'read_first': bool(rng.random() < 0.6),
                              'const': float(rng.normal()), 'new': rng.normal(size=n),      # in units of the component's largest magnitude
                              'theta': float(np.round(rng.uniform(-360, 360), 2))}
        if rng.random() < 0.12:
            case['mismatch'] = {'extra': int(rng.choice([1, 2, 7, -1])), 'dt_factor': float(rng.choice([1.0, 2.0, 1.0000001])),
                                'theta': float(np.round(rng.uniform(-360, 360), 2))}
        if rng.random() < 0.5:
            n3 = n + int(rng.integers(1, 9))
            case['third'] = {'ns': rng.normal(size=n3), 'we': rng.normal(size=n3)}
        reads = []
        for _ in range(2):
            s0 = int(rng.integers(0, n))
            reads.append([['ns', 'we', 'result'][int(rng.integers(3))], s0, int(rng.integers(s0 + 1, n + 1)) if rng.random() < 0.7 else n])
        case['index_reads'] = reads
    if not long_case and rng.random() < 0.5:
        n2 = [n, n, max(1, n // 2), n + int(rng.integers(1, 9))][int(rng.integers(4))]
        hf = [VEC_FORMS[int(rng.integers(len(VEC_FORMS)))] for _ in range(2)]
        h_ns, _ = draw_vector(rng, n2, hf[0])
        h_we, _ = draw_vector(rng, n2, hf[1])
        rh = float(np.round(rng.uniform(-360, 360), 2))
        const = float(rng.normal()) * float(np.max(np.abs(h_ns)) or 1.0) if hf[0] not in INT_FORMS else float(rng.integers(-5, 6))
        case['history'] = {'reads': [['pga', 'velocity', 'pgv', 'displacement', 'fa_spectrum'][int(i)]
                                     for i in rng.integers(0, 5, size=2)],
                           'reset': {'ns': h_ns, 'we': h_we, 'forms': hf},
                           'angles': [float(SPECIAL_ANGLES[int(rng.integers(len(SPECIAL_ANGLES)))]), rh, rh + 180.0],
                           'scan': _make_scan(rng, OFFSET_KINDS[int(rng.integers(len(OFFSET_KINDS)))],
                                              SENSITIVE[int(rng.integers(len(SENSITIVE)))], 3, False, 'kw'),
                           'add_constant': [['ns', 'we'][int(rng.integers(2))], const]}
    return case


def _mk_sig(eqsig, v, dt, kind):
    return eqsig.AccSignal(v, dt) if kind == 'acc' else eqsig.Signal(v, dt)


def _scan_call(eqsig, ns, we, sc, offset):
    m = measure_entry(sc['measure'])
    style = sc.get('style', 'kw')
    off = hold(angle_obj(offset, sc.get('offset_form', 'float')), 'compute_rotated(angle_off_ns)')
    pts = hold(scalar_obj(sc['points'], sc.get('points_form', 'int')), 'compute_rotated(points)')
    if 'parameter' in m:
        if style == 'positional':
            return eqsig.compute_rotated(ns, we, off, m['parameter'], None, pts)
        if style == 'defaults' and float(offset) == 0.0 and sc['points'] == 100:
            return eqsig.compute_rotated(ns, we, parameter=m['parameter'])
        return eqsig.compute_rotated(ns, we, angle_off_ns=off, parameter=m['parameter'], points=pts)
    if style == 'positional':
        return eqsig.compute_rotated(ns, we, off, None, m['func'], pts)
    if style == 'defaults' and float(offset) == 0.0 and sc['points'] == 100:
        return eqsig.compute_rotated(acc_sig_ns=ns, acc_sig_we=we, func=m['func'])
    return eqsig.compute_rotated(ns, we, angle_off_ns=off, func=m['func'], points=pts)


def _combine_and_relate(eqsig, ctx, case, ns, we, angles, aforms, tag):
    """combine_at_angle at every angle (monitored) and the relations between those executions, judged against the values
    the components have at entry."""
    ns_v = np.array(ns.values, dtype=float)
    we_v = np.array(we.values, dtype=float)
    if ns_v.shape != we_v.shape:
        return {}
    sc = np.abs(ns_v) + np.abs(we_v)
    res, rt = {}, {}
    for th, f in zip(angles, aforms):
        try:
            res[th] = np.array(eqsig.combine_at_angle(ns, we, hold(angle_obj(th, f), 'combine_at_angle(angle)')).values, dtype=float, copy=True)
            rt[th] = rtol_rot_f32(th) if f == 'np.float32' else RTOL_ROT
        except Exception as e:
            ctx.exception('rotation==ns*cos+we*sin', dict(case, failing={'call': 'combine_at_angle', 'angle': th, 'form': f,
                                                                         'where': tag}), e)
    comp = {'ns': ns_v, 'we': we_v}
    for th, (sign, which) in QUADRANT.items():
        if float(th) in res:
            exp = sign * comp[which]
            r = rt[float(th)]
            ctx.check(tol.close(res[float(th)], exp, scale=sc, rtol=r), 'rotation.quadrant-identities',
                      lambda: dict(case, failing={'relation': 'theta=%d gives %s%s' % (th, '-' if sign < 0 else '', which),
                                                  'where': tag}),
                      'combine_at_angle(theta=%d) != %s%s (%s): %s'
                      % (th, '-' if sign < 0 else '', which, tag, tol.describe(res[float(th)], exp, scale=sc, rtol=r)))
    for th in angles:
        if th in res and (th + 180.0) in res and th + 180.0 != th:
            r = max(rt[th], rt[th + 180.0])
            ctx.check(tol.close(res[th + 180.0], -res[th], scale=sc, rtol=r), 'rotation.theta+180-negates',
                      lambda: dict(case, failing={'relation': 'theta+180 negates', 'angle': th, 'where': tag}),
                      'combine_at_angle(theta=%r+180) != -combine_at_angle(theta=%r) (%s): %s'
                      % (th, th, tag, tol.describe(res[th + 180.0], -res[th], scale=sc, rtol=r)))
    return res


def _array_scan_and_relate(eqsig, ctx, case, ns_a, we_a, scn, tag, m, sc):
    """Scan of an array-valued attribute (judged row by row by the monitor) + the half-circle relation between its rows."""
    try:
        d0, p0 = _scan_call(eqsig, ns_a, we_a, scn, scn['offset'])
    except Exception as e:
        ctx.exception('scan.array-values==attribute(combination)',
                      dict(case, failing={'call': 'compute_rotated', 'scan': scn, 'where': tag}), e)
        return None
    p0a = np.asarray(p0)
    if p0a.ndim == 2 and p0a.shape[0] >= 2:
        sgn = -1.0 if m['parity'] == 'odd' else 1.0
        if m['parameter'] in ('values', 'velocity', 'displacement'):
            scl = np.broadcast_to(m['ascale'](sc, ns_a.dt, p0a), p0a.shape)[0]
        else:       # spectra: scale = the same attribute of a record as large as the parts, |ns|+|we| (the other component
            with attach.paused():      # leaks in with a factor cos(90 deg) ~ 6e-17, however small the row itself is)
                ref_a = np.abs(getattr(eqsig.AccSignal(sc, ns_a.dt), m['parameter']))
                scl = float(np.max(ref_a)) if ref_a.size else 0.0
        ctx.check(bool(np.all(np.abs(p0a[-1] - sgn * p0a[0]) <= m['rtol'] * scl)), 'scan.half-circle-endpoints',
                  lambda: dict(case, failing={'relation': 'last row == %+d * first row' % sgn, 'scan': scn, 'where': tag}),
                  'compute_rotated(parameter=%r, offset=%r): the row at the last angle is not %+d x the row at the first; the '
                  'angles are half a circle apart' % (m['parameter'], scn['offset'], sgn))
    return d0, p0


def _scan_and_relate(eqsig, ctx, case, ns_a, we_a, scn, tag):
    m = measure_entry(scn['measure'])
    sc = np.abs(np.asarray(ns_a.values, dtype=float)) + np.abs(np.asarray(we_a.values, dtype=float))
    if m.get('array'):
        return _array_scan_and_relate(eqsig, ctx, case, ns_a, we_a, scn, tag, m, sc)
    scale = m['scale'](sc, ns_a.dt)
    try:
        d0, p0 = _scan_call(eqsig, ns_a, we_a, scn, scn['offset'])
    except Exception as e:
        ctx.exception('scan.values==measure(combination)',
                      dict(case, failing={'call': 'compute_rotated', 'scan': scn, 'where': tag}), e)
        return None
    p0f = np.asarray(p0, dtype=float)
    if m['parity'] is not None and p0f.ndim == 1 and len(p0f) >= 2:
        sgn = -1.0 if m['parity'] == 'odd' else 1.0
        ctx.check(abs(p0f[-1] - sgn * p0f[0]) <= RTOL_MEASURE * scale, 'scan.half-circle-endpoints',
                  lambda: dict(case, failing={'relation': 'last value == %+d * first value' % sgn, 'scan': scn,
                                              'values': p0f, 'where': tag}),
                  'compute_rotated(%s, offset=%r): value at the last angle (%r) is not %+d x the value at the first '
                  '(%r); the angles are half a circle apart' % (scn['measure'], scn['offset'], p0f[-1], sgn, p0f[0]))
    if scn.get('pair180') and m['parity'] is not None:
        try:
            d1, p1 = _scan_call(eqsig, ns_a, we_a, dict(scn, style='kw', offset_form='float'), scn['offset'] + 180.0)
        except Exception as e:
            ctx.exception('scan.values==measure(combination)',
                          dict(case, failing={'call': 'compute_rotated', 'scan': scn, 'offset+180': True}), e)
            return d0, p0
        sgn = -1.0 if m['parity'] == 'odd' else 1.0
        p1 = np.asarray(p1, dtype=float)
        ctx.check(p1.shape == p0f.shape and tol.close(p1, sgn * p0f, scale=scale, rtol=RTOL_MEASURE),
                  'scan.offset+180-relation',
                  lambda: dict(case, failing={'relation': 'scan(offset+180) == %+d * scan(offset)' % sgn, 'scan': scn}),
                  'compute_rotated(%s): scan with offset %r+180 is not %+d x the scan with offset %r'
                  % (scn['measure'], scn['offset'], sgn, scn['offset']))
    return d0, p0


def _observables(sig):
    """Public observables of a signal object, read on a deep copy (so that looking does not warm the object)."""
    import copy
    d = copy.deepcopy(sig)
    out = {'type': type(d).__name__, 'values': np.array(d.values, copy=True), 'dt': d.dt, 'npts': d.npts, 'label': d.label,
           'smooth_fa_freqs': np.array(d.smooth_fa_freqs, copy=True)}
    if hasattr(d, 'response_times'):
        out['response_times'] = np.array(d.response_times, copy=True)
        if d.npts:
            out['pga'] = float(d.pga)
    return out


def _same_observables(a, b):
    if sorted(a) != sorted(b):
        return False
    for k in a:
        if isinstance(a[k], np.ndarray):
            if not unchanged(b[k], a[k]):
                return False
        elif a[k] != b[k]:
            return False
    return True


def derived_objects(eqsig, ctx, case, d, ns_a, we_a):
    """Objects derived by the library from warm objects are used as components; the returned object owns its data; whatever
    memo it carries equals a fresh computation from its current values."""
    import copy
    if not d or ns_a.npts != we_a.npts:
        return
    for attr in ('pga', 'velocity', 'fa_spectrum'):
        getattr(ns_a, attr)
        getattr(we_a, attr)
    r = eqsig.combine_at_angle(ns_a, we_a, d['theta1'])          # derived from warm components (monitored)
    r.pga, r.pgv, r.velocity                                      # warm the derived object
    eqsig.combine_at_angle(r, we_a, d['theta2'])                  # judged from r's current values
    _scan_and_relate(eqsig, ctx, case, r, we_a, d['scan'], 'derived component')
    snap = [np.array(ns_a.values, copy=True), np.array(we_a.values, copy=True)]
    okk = isinstance(r.values, np.ndarray) and r.values.flags.writeable
    if okk:
        r.values[:] = r.values * 2.0 + 1.0                        # in-place correction of the RESULT ...
    r.add_constant(d['const'])
    okk = okk and unchanged(ns_a.values, snap[0]) and unchanged(we_a.values, snap[1])      # ... leaves the arguments alone
    ctx.check(okk, 'rotation.result-owns-its-data',
              lambda: dict(case, failing={'relation': 'in-place correction of the result leaves the arguments alone',
                                          'theta': d['theta1']}),
              'correcting the signal returned by combine_at_angle(theta=%r) in place changed one of its arguments' % d['theta1'])
    with attach.paused():
        fresh = eqsig.AccSignal(np.array(r.values, dtype=float), r.dt)
        pairs = [(float(r.pga), float(fresh.pga)), (float(r.pgv), float(fresh.pgv)),
                 (float(r.velocity[-1]), float(fresh.velocity[-1]))]
    ctx.check(all(abs(x - y) <= 1e-12 * (abs(y) + abs(x)) for x, y in pairs), 'rotation.derived-memo==fresh',
              lambda: dict(case, failing={'relation': 'memo of a derived, corrected object == fresh computation', 'pairs': pairs}),
              'pga/pgv/final velocity memoised on a signal derived by combine_at_angle and then corrected: %r (memo, fresh)' % (pairs,))
    eqsig.combine_at_angle(r, ns_a, d['theta2'])                  # the corrected derived object as a component again
    dc = copy.deepcopy(ns_a)                                      # deepcopy + mutate
    dc.add_constant(d['const'])
    eqsig.combine_at_angle(dc, we_a, d['theta1'])
    ctx.check(unchanged(ns_a.values, snap[0]), 'rotation.result-owns-its-data',
              lambda: dict(case, failing={'relation': 'mutating a deep copy leaves the original alone'}),
              'add_constant on a deep copy of a component changed the original')


def copied_components(eqsig, ctx, case, cp, ns_a, we_a):
    """Copies (copy.copy / copy.deepcopy / pickle round trip) of a warm component are used as components; the copy and the
    original are then changed in either order. Judged: the combination follows each object's OWN current values (monitor) and
    whatever an object memoises equals a fresh computation from its own values."""
    import copy
    import pickle
    if not cp or ns_a.npts != we_a.npts or ns_a.npts == 0:
        return
    for attr in cp['warm']:
        if attr != 'none':
            getattr(ns_a, attr)
    n = ns_a.npts
    for kind in cp['kinds']:
        amp = float(np.max(np.abs(np.asarray(ns_a.values, dtype=float)))) or 1.0      # the component's CURRENT scale (and dtype)
        const = float(cp['const']) * amp
        orig_before = np.array(ns_a.values, copy=True)
        twin = pickle.loads(pickle.dumps(ns_a)) if kind == 'pickle' else (copy.deepcopy(ns_a) if kind == 'deepcopy' else copy.copy(ns_a))
        ctx.check(type(twin) is type(ns_a) and twin.dt == ns_a.dt and twin.npts == n and unchanged(twin.values, orig_before),
                  'rotation.copied-component==original', lambda: dict(case, failing={'relation': '%s of a warm component' % kind}),
                  'a %s of a warm AccSignal differs from it in type, dt, npts or values' % kind)
        if cp.get('read_first', True):      # READ the copy before anything changes it: a copy that lost derived arrays but kept
            bad0 = []                        # their validity flags fails here
            with attach.paused():
                for attr in ['pga', 'pgv'] + [a_ for a_ in cp['warm'] if a_ != 'none']:
                    x, y = np.asarray(getattr(twin, attr)), np.asarray(getattr(ns_a, attr))
                    if x.shape != y.shape or not np.all(np.abs(x - y) <= 1e-9 * (np.abs(x) + np.abs(y))):
                        bad0.append(attr)
            ctx.check(not bad0, 'rotation.copied-component==original',
                      lambda: dict(case, failing={'relation': 'observables of a fresh %s == those of the original' % kind, 'bad': bad0}),
                      '%s read on a fresh %s of a warm AccSignal differ from the original' % (bad0, kind))
        eqsig.combine_at_angle(twin, we_a, cp['theta'])                   # monitored: judged from the copy's values
        new = np.resize(np.asarray(cp['new'], dtype=float), n) * amp

        def change_copy():
            if kind == 'copy':       # a shallow copy shares the buffer by definition: only rebinding operations
                twin.reset_values(new.copy())
            else:
                twin.add_constant(const)
                if twin.values.flags.writeable:
                    twin.values[0] += 1.0           # in-place edit of the copy's own buffer
                    twin.reset_values(twin.values)

        def change_orig():
            ns_a.add_constant(-const)
        for f in ((change_copy, change_orig) if cp['order'] == 'copy-first' else (change_orig, change_copy)):
            f()
        separate = isinstance(twin.values, np.ndarray) and not np.shares_memory(twin.values, ns_a.values)
        ctx.check(separate and unchanged(ns_a.values, orig_before - const), 'rotation.copy-leaves-original-alone',
                  lambda: dict(case, failing={'relation': 'changing a %s leaves the original alone' % kind, 'order': cp['order']}),
                  'after changing a %s of a component (%s) the original is not its own values minus the constant added to it'
                  % (kind, cp['order']))
        eqsig.combine_at_angle(twin, ns_a, cp['theta'])                   # both as components (monitored)
        eqsig.combine_at_angle(ns_a, we_a, cp['theta'] + 90.0)
        bad = []
        with attach.paused():
            for name, obj in (('copy', twin), ('original', ns_a)):
                fresh = eqsig.AccSignal(np.array(obj.values, copy=True), obj.dt)      # same dtype as the object
                for x, y in ((float(obj.pga), float(fresh.pga)), (float(obj.pgv), float(fresh.pgv)),
                             (float(obj.velocity[-1]), float(fresh.velocity[-1])), (float(obj.npts), float(fresh.npts))):
                    if not abs(x - y) <= 1e-9 * (abs(x) + abs(y)):
                        bad.append((name, x, y))
        ctx.check(not bad, 'rotation.copied-component-memo==fresh',
                  lambda: dict(case, failing={'relation': 'memo of a %s and of its original == fresh computation' % kind, 'bad': bad}),
                  'pga/pgv/final velocity of a %s of a warm component or of the original (changed in the order %s) differ from a '
                  'fresh computation on their current values: %r (object, memo, fresh)' % (kind, cp['order'], bad[:3]))


def refused_calls(eqsig, ctx, case, mm, ns_a, we_a):
    """Companions the functions refuse (unequal lengths, unequal time steps in a scan): whether they raise or not, the
    components stay as they were."""
    if not mm or ns_a.npts + mm['extra'] < 1:
        return
    other = eqsig.AccSignal(np.resize(np.asarray(we_a.values, dtype=float), ns_a.npts + mm['extra']), ns_a.dt * mm['dt_factor'])
    snaps = [np.array(ns_a.values, copy=True), np.array(other.values, copy=True)]
    raised = 0
    for call in (lambda: eqsig.combine_at_angle(ns_a, other, mm['theta']),
                 lambda: eqsig.compute_rotated(ns_a, other, angle_off_ns=mm['theta'], parameter='pga', points=3),
                 lambda: eqsig.compute_rotated(other, ns_a, func=_m_signed_max, points=2)):
        try:
            call()
        except Exception:
            raised += 1
    ctx.observe('rotation.mismatched-companions.%s' % ('all-refused' if raised == 3 else 'some-served'))
    okk = unchanged(ns_a.values, snaps[0]) and unchanged(other.values, snaps[1]) and ns_a.npts == len(snaps[0]) \
        and other.npts == len(snaps[1]) and ns_a.dt == case['dt'] and other.dt == case['dt'] * mm['dt_factor']
    ctx.check(okk, 'rotation.refused-call-leaves-components-unchanged',
              lambda: dict(case, failing={'relation': 'components of unequal length / step unchanged', 'mismatch': mm}),
              'combine_at_angle / compute_rotated on components of %d and %d samples (dt x %r) changed one of them'
              % (len(snaps[0]), len(snaps[1]), mm['dt_factor']))


def self_history(eqsig, ctx, case, h, ns_a, we_a):
    """History on the same objects: cache reads, reset_values, more calls, add_constant."""
    if not h:
        return
    for attr in h['reads']:
        getattr(ns_a, attr)
        getattr(we_a, attr)
    hf = h['reset']['forms']
    h_ns = apply_form(h['reset']['ns'], hf[0])
    ns_a.reset_values(h_ns)
    if we_a is not ns_a:
        we_a.reset_values(apply_form(h['reset']['we'], hf[1]))
    _combine_and_relate(eqsig, ctx, case, ns_a, we_a, h['angles'], ['float'] * len(h['angles']), 'after reset_values')
    _scan_and_relate(eqsig, ctx, case, ns_a, we_a, h['scan'], 'after reset_values')
    which, const = h['add_constant']
    getattr(ns_a, 'pga')
    (ns_a if which == 'ns' else we_a).add_constant(const)
    _combine_and_relate(eqsig, ctx, case, ns_a, we_a, [0.0, 90.0, 270.0], ['int', 'float', 'np.float64'],
                        'after add_constant')


def run_rotation_case(eqsig, ctx, case):
    """Execute one rotation case through the public API (monitors attached) and check the relations between calls."""
    global CURRENT
    ns_v = np.asarray(case['ns'], dtype=float)
    we_v = np.asarray(case['we'], dtype=float)
    dt = case['dt']
    forms = case.get('forms', ['f64', 'f64'])
    CURRENT = case
    del HELD[:]
    try:
        ns_in = apply_form(ns_v, forms[0])
        we_in = ns_in if case.get('same_object') else apply_form(we_v, forms[1])
        snaps = [snapshot(ns_in), snapshot(we_in)]
        # round 5: the common step in the scalar forms a caller may use (float, np.float64, a 0-d array - shared by both
        # components in 30% of the cases); the monitors judge with the value at call entry, check_held with the caller's value
        dtfs = case.get('dt_forms', ['float', 'float'])
        dt_ns = hold(scalar_obj(dt, dtfs[0]), 'the time step of the ns component')
        dt_we = dt_ns if case.get('share_dt') else hold(scalar_obj(dt, dtfs[1]), 'the time step of the we component')
        ns = _mk_sig(eqsig, ns_in, dt_ns, case['types'][0])
        if case.get('same_object'):
            we = ns
        elif case.get('twin'):      # built from the other component's values, then given its own record
            we = _mk_sig(eqsig, ns.values, dt_we, case['types'][1])
            we.reset_values(we_in)
        else:
            we = _mk_sig(eqsig, we_in, dt_we, case['types'][1])
        for s, f in ((ns, forms[0]), (we, forms[1])):
            if f == 'readonly' and isinstance(s.values, np.ndarray):
                s.values.flags.writeable = False     # a function writing into its component would raise
        angles = case['angles']
        aforms = case.get('angle_forms', ['float'] * len(angles))
        ns_a = eqsig.AccSignal(ns_in, dt_ns)
        we_a = ns_a if case.get('same_object') else eqsig.AccSignal(we_in, dt_we)
        watched = [ns, we, ns_a, we_a]
        obs_before = [_observables(x) for x in watched]
        first = None
        if angles:
            try:
                first = eqsig.combine_at_angle(ns, we, angle_obj(angles[0], aforms[0]))
                first_copy = np.array(first.values, copy=True)
            except Exception as e:
                ctx.exception('rotation==ns*cos+we*sin', dict(case, failing={'call': 'combine_at_angle', 'angle': angles[0]}), e)
        _combine_and_relate(eqsig, ctx, case, ns, we, angles, aforms, 'main')
        # scans (compute_rotated asserts AccSignal components)
        first_scan = None
        for j, scn in enumerate(case['scans']):
            r = _scan_and_relate(eqsig, ctx, case, ns_a, we_a, scn, 'main')
            if j == 0 and r is not None:
                first_scan = (r[0], r[1], np.array(r[0], copy=True), np.array(r[1], copy=True))
        # the parameter name and the callable that mean the same measure must agree (two sites, one definition)
        try:
            o2, p2 = case['scans'][1]['offset'], min(3, case['scans'][1]['points'])
            for par, fkey in (('arias_intensity', 'f:calc_arias-series-last'), ('pgv', 'f:pgv-scalar')):
                if case.get('extreme') and par == 'arias_intensity':
                    continue
                da, pa = eqsig.compute_rotated(ns_a, we_a, angle_off_ns=o2, parameter=par, points=p2)
                db, pb = eqsig.compute_rotated(ns_a, we_a, angle_off_ns=o2, func=MEASURES[fkey]['func'], points=p2)
                sc_t = MEASURES[fkey]['scale'](np.abs(ns_v) + np.abs(we_v if not case.get('same_object') else ns_v), dt)
                ctx.check(tol.close(np.asarray(pa, dtype=float), np.asarray(pb, dtype=float), scale=sc_t, rtol=1e-12)
                          and unchanged(da, np.asarray(db)), 'scan.parameter-vs-callable-twin',
                          lambda: dict(case, failing={'relation': 'parameter=%r vs callable %s' % (par, fkey), 'offset': o2,
                                                      'points': p2}),
                          'compute_rotated(parameter=%r) and compute_rotated(func=%s) disagree: %r vs %r' % (par, fkey, pa, pb))
        except Exception as e:
            ctx.exception('scan.parameter-vs-callable-twin', dict(case, failing={'where': 'twin scans'}), e)
        # round 5: a result belongs to the caller - every array of an earlier result is overwritten, the same call is repeated with
        # the same arguments and must give the first values again (tables handed out by reference from a cache)
        if angles:
            try:
                r1 = eqsig.combine_at_angle(ns, we, angle_obj(angles[0], aforms[0]))
                keep = np.array(r1.values, copy=True)
                if isinstance(r1.values, np.ndarray) and r1.values.flags.writeable:
                    r1.values[...] = -7.25
                r2 = eqsig.combine_at_angle(ns, we, angle_obj(angles[0], aforms[0]))
                okk = unchanged(r2.values, keep)
                for scn in case['scans'][1:]:
                    d1, p1 = _scan_call(eqsig, ns_a, we_a, scn, scn['offset'])
                    kd, kp = np.array(d1, copy=True), np.array(p1, copy=True)
                    for arr, junk in ((d1, -1.0), (p1, 12345.0)):
                        if isinstance(arr, np.ndarray) and arr.flags.writeable:
                            arr[...] = junk
                    d2, p2 = _scan_call(eqsig, ns_a, we_a, scn, scn['offset'])
                    okk = okk and unchanged(np.asarray(d2), kd) and unchanged(np.asarray(p2), kp)
                ctx.check(okk, 'rotation.result-belongs-to-caller(overwritten, same call repeated)',
                          lambda: dict(case, failing={'relation': 'overwrite the arrays of a result, repeat the call: first values again'}),
                          'after the arrays of an earlier combine_at_angle / compute_rotated result were overwritten by the caller, the same '
                          'call with the same arguments no longer returns the first values')
            except Exception as e:
                ctx.exception('rotation.result-belongs-to-caller(overwritten, same call repeated)',
                              dict(case, failing={'where': 'overwrite and repeat'}), e)
        # every public observable of the component objects is as before (read on deep copies)
        ctx.check(all(_same_observables(b, _observables(x)) for b, x in zip(obs_before, watched)),
                  'rotation.component-objects-unchanged',
                  lambda: dict(case, failing={'relation': 'public observables of the components unchanged'}),
                  'a component signal handed to combine_at_angle / compute_rotated changed a public observable '
                  '(values, dt, npts, label, smooth_fa_freqs, response_times, pga)')
        try:
            derived_objects(eqsig, ctx, case, case.get('derived'), ns_a, we_a)
        except Exception as e:
            ctx.exception('rotation.derived-op(no-exception)', dict(case, failing={'where': 'derived objects'}), e)
        # sections given as sample indices on the components and on a result (judged by the monitor)
        for which, s0, e0 in case.get('index_reads') or []:
            obj = {'ns': ns, 'we': we, 'result': first}.get(which)
            if obj is not None and 0 <= s0 < e0 <= obj.npts:
                try:
                    obj.get_section_average(start=s0, end=e0, index=True)
                except Exception as e:
                    ctx.exception('section-average(index=True)==mean(samples[start:end])',
                                  dict(case, failing={'call': 'get_section_average', 'on': which, 'start': s0, 'end': e0}), e)
        try:
            refused_calls(eqsig, ctx, case, case.get('mismatch'), ns_a, we_a)
        except Exception as e:
            ctx.exception('rotation.refused-call-leaves-components-unchanged', dict(case, failing={'where': 'refused calls'}), e)
        # history on the same objects: cache reads, reset, more calls, in-place style mutator
        h = case.get('history')
        try:
            self_history(eqsig, ctx, case, h, ns_a, we_a)
        except Exception as e:
            ctx.exception('rotation.history-op(no-exception)', dict(case, failing={'where': 'history'}), e)
        # a second pair of the same shape; then the first results are looked at again
        sec = case.get('second')
        if sec is not None and first is not None:
            ns2 = eqsig.AccSignal(np.asarray(sec['ns'], dtype=float), dt)
            we2 = eqsig.AccSignal(np.asarray(sec['we'], dtype=float), dt)
            try:
                eqsig.combine_at_angle(ns2, we2, angle_obj(angles[0], aforms[0]))
                if first_scan is not None:
                    _scan_call(eqsig, ns2, we2, dict(case['scans'][0], style='kw', offset_form='float'),
                               case['scans'][0]['offset'] + 17.0)      # other data AND other angles, same shape
            except Exception as e:
                ctx.exception('rotation.first-result-intact-after-second-call', dict(case, failing={'call': 'second pair'}), e)
            okk = unchanged(first.values, first_copy)
            if first_scan is not None:
                okk = okk and unchanged(first_scan[0], first_scan[2]) and unchanged(first_scan[1], first_scan[3])
            ctx.check(okk, 'rotation.first-result-intact-after-second-call',
                      lambda: dict(case, failing={'relation': 'first result intact after a second call on other data'}),
                      'the result of the first combine_at_angle / compute_rotated call changed after calls on another pair')
        # f(A); f(B); f(A) with B of another shape: the third result is the first, bit for bit
        th3 = case.get('third')
        if th3 is not None and first is not None:
            try:
                ns3 = eqsig.AccSignal(np.asarray(th3['ns'], dtype=float), dt)
                we3 = eqsig.AccSignal(np.asarray(th3['we'], dtype=float), dt)
                eqsig.combine_at_angle(ns3, we3, angle_obj(angles[0], aforms[0]))
                eqsig.compute_rotated(ns3, we3, angle_off_ns=case['scans'][0]['offset'] + 5.0, parameter='pga', points=4)
                again = eqsig.combine_at_angle(ns, we, angle_obj(angles[0], aforms[0]))
                okk = unchanged(again.values, first_copy)
                if first_scan is not None and h is None and not case.get('copies'):      # components not changed in between
                    r3 = _scan_call(eqsig, ns_a, we_a, case['scans'][0], case['scans'][0]['offset'])
                    okk = okk and unchanged(np.asarray(r3[0]), first_scan[2]) and unchanged(np.asarray(r3[1]), first_scan[3])
                ctx.check(okk, 'rotation.third-call==first-call',
                          lambda: dict(case, failing={'relation': 'f(A); f(B); f(A): third == first'}),
                          'combine_at_angle / compute_rotated repeated on the same components after calls on a pair of another '
                          'length did not reproduce the first result bit for bit')
            except Exception as e:
                ctx.exception('rotation.third-call==first-call', dict(case, failing={'where': 'third call'}), e)
        try:
            copied_components(eqsig, ctx, case, case.get('copies'), ns_a, we_a)
        except Exception as e:
            ctx.exception('rotation.copied-component(no-exception)', dict(case, failing={'where': 'copies of components'}), e)
        # the caller's containers are untouched
        check_held(ctx, case, 'rotation case')
        ctx.check(unchanged(ns_in, snaps[0]) and unchanged(we_in, snaps[1]), 'rotation.caller-arrays-unchanged',
                  lambda: dict(case, failing={'relation': 'caller arrays unchanged'}),
                  'a record handed to Signal/AccSignal (%s, %s) was modified by the rotation calls' % tuple(forms))
    finally:
        CURRENT = None


# ------------------------------------------------------------------------------------------------ cluster workload
PATTERNS = [(nsig, master, signs) for nsig in (2, 3, 4) for master in range(nsig)
            for signs in itertools.product((0, 1, -1), repeat=nsig - 1)]
MODES = ['exact', 'samestart', 'workflow', 'exact', 'noisy', 'history', 'levels']
BASE_CLASSES = ['noise', 'walk', 'quake', 'intnoise', 'chirp', 'beat', 'zeropad']
CLUSTER_FORMS = ['array2d', 'array2d', 'array2d', 'list-of-arrays', 'list-of-lists', 'tuple-of-arrays', 'f32', 'i64', 'i32',
                 'i16', 'i8', 'u8', 'u16', 'list-of-int-lists', 'noncontig-cols', 'noncontig-rows', 'fortran', 'readonly', 'bool',
                 'list-of-bool-lists']
CLUSTER_INT_FORMS = ('i64', 'i32', 'i16', 'i8', 'u8', 'u16', 'list-of-int-lists', 'bool', 'list-of-bool-lists')
CLUSTER_BOOL_FORMS = ('bool', 'list-of-bool-lists')
CLU_LONG_CASES = {5: 'exact', 143: 'samestart'}
CLU_LENGTHS = [31, 32, 33, 63, 64, 65, 127, 128, 129, 255, 256, 257]


def cluster_container(vals, form):
    """The equal-length records `vals` (exact float64 values) in the container / dtype `form`."""
    vals = [np.asarray(v, dtype=float) for v in vals]
    if form == 'list-of-arrays':
        return [v.copy() for v in vals]
    if form == 'list-of-lists':
        return [v.tolist() for v in vals]
    if form == 'list-of-int-lists':
        return [[int(x) for x in v] for v in vals]
    if form == 'list-of-bool-lists':
        return [[bool(x) for x in v] for v in vals]
    if form == 'tuple-of-arrays':
        return tuple(v.copy() for v in vals)
    if len(set(len(v) for v in vals)) != 1:
        return [v.copy() for v in vals]
    a = np.array(vals)
    if form in INT_FORMS:
        return np.round(a).astype(INT_FORMS[form])
    if form == 'f32':
        return a.astype(np.float32)
    if form == 'noncontig-cols':
        big = np.zeros((a.shape[0], 2 * a.shape[1]))
        big[:, ::2] = a
        return big[:, ::2]
    if form == 'noncontig-rows':
        big = np.zeros((2 * a.shape[0], a.shape[1]))
        big[::2] = a
        return big[::2]
    if form == 'fortran':
        return np.asfortranarray(a)
    if form == 'readonly':
        a.flags.writeable = False
        return a
    return a


def container_snapshot(data):
    if isinstance(data, np.ndarray):
        return data.copy()
    return [np.array(v, copy=True) for v in data]


def container_unchanged(data, snap):
    if isinstance(data, np.ndarray):
        return unchanged(data, snap)
    return len(data) == len(snap) and all(unchanged(v, s) for v, s in zip(data, snap))


def _window(rng, n, dt):
    """Round 5: in 12% of the windows start and / or end are handed over as 0-d arrays (mutable scalars); the forms are stored under
    '_forms' (popped by the driver) so that a witness replays them."""
    kw = _window0(rng, n, dt)
    if rng.random() < 0.12 and ('start' in kw or 'end' in kw):
        forms = {}
        for key in ('start', 'end'):
            if key in kw and rng.random() < 0.7:
                isint = isinstance(kw[key], (int, np.integer))
                forms[key] = '0d-int' if isint else '0d'
                kw[key] = int(kw[key]) if isint else float(kw[key])
        if forms:
            kw['_forms'] = forms
    return kw


def _window0(rng, n, dt):
    """same_start keyword arguments: the default window (0, 1) when it fits, boundary windows, else random inside."""
    T = (n - 1) * dt
    if n >= 2 and rng.random() < 0.14:
        # round 4: the documented sentinel end = -1 ("to the end of the record", the default of get_section_average) with the
        # default start, start = 0, a start at a sample time and a start anywhere; -1 as int, float and numpy scalars
        e = [-1, -1, -1, -1.0, np.int64(-1), np.float64(-1.0)][int(rng.integers(6))]
        j = int(rng.integers(6))
        if j == 0:
            return {'end': e}
        if j == 1:
            return {'start': 0, 'end': e}
        if j == 2:
            return {'start': 0.0, 'end': e, 'base': 0}
        if j == 3:
            return {'start': int(rng.integers(0, n - 1)) * dt, 'end': e}
        if j == 4:
            return {'start': (n - 2) * dt, 'end': e}                      # the last sample but one (alone or with the last)
        return {'start': float(rng.uniform(0, (n - 2) * dt)), 'end': e}
    if rng.random() < 0.1:        # ends of the admissible range and numpy scalar forms of start / end
        j = int(rng.integers(7))
        if j == 0:
            return {'start': T, 'end': T}                                 # the last sample alone
        if j == 1:
            return {'start': 0, 'end': T * (1.0 - 1e-12)}                 # just short of the whole record
        if j == 2:
            return {'start': 1e-300, 'end': float(rng.uniform(0, T)) if T > 0 else 0.0}
        if j == 3:
            return {'start': dt * 1e-9, 'end': T}
        if j == 4:
            i0 = int(rng.integers(0, n))
            return {'start': np.float64(i0 * dt), 'end': np.float64(T)}
        if j == 5 and T >= 1:
            return {'start': np.int64(0), 'end': np.int64(rng.integers(1, int(T) + 1))}
        return {'start': max(0.0, T - dt), 'end': T}                      # the last two samples
    r = rng.random()
    if T >= 1.0 and r < 0.3:
        return {} if rng.random() < 0.7 else {'base': 0}
    if r < 0.4:
        return {'start': 0, 'end': float(rng.uniform(0, T))}
    if r < 0.47:
        return {'start': 0.0, 'end': T}                       # the whole record, end exactly at the last sample
    if r < 0.54:
        x = float(rng.uniform(0, T))
        return {'start': x, 'end': x}                         # a single sample
    if r < 0.6 and T >= 1:
        return {'start': 0, 'end': int(rng.integers(1, int(T) + 1)), 'verbose': 0}   # integer times
    if r < 0.8:                      # window given in whole samples (awkward dt: i*dt/dt need not be i)
        i0 = int(rng.integers(0, n))
        i1 = int(rng.integers(i0, n))
        return {'start': i0 * dt, 'end': min(i1 * dt, T)}
    s = float(rng.uniform(0, T))
    return {'start': s, 'end': float(rng.uniform(s, T))}


def _tm_kwargs(rng, steps, default_steps):
    if default_steps:
        return {} if rng.random() < 0.7 else {'verbose': 0}
    r = rng.random()
    if r < 0.7:
        return {'steps': steps}
    if r < 0.85:
        return {'steps': steps, 'verbose': 0}
    if rng.random() < 0.3:       # round 5: the flag in a non-Python-bool form (`set_step is False` holds for False only)
        return {'steps': steps, 'set_step': False, 'trim': True, '_forms': {'set_step': ['np.bool', '0d-bool'][int(rng.integers(2))]}}
    return {'steps': steps, 'set_step': False, 'trim': True}


def _draw_steps(rng):
    r = rng.random()
    if r < 0.13:
        return 10, True
    if r < 0.21:
        return int(rng.choice([1, 2])), False
    if r < 0.25:
        return int(rng.choice([25, 40])), False
    return int(rng.integers(3, 16)), False


EXTRA_SIZES = [1, 5, 6, 8, 12, 1, 7, 16]


SHORT_MODES = ['exact', 'exact', 'history', 'exact', 'exact']


def make_cluster_case(rng, k, extra=False, short=False):
    """short (round 4): records SHORT relative to the search window, steps < npts < 2*steps+2 (with the default steps=10: 11..21
    samples), exact lags up to +-(steps-1), mostly |lag| >= npts//2; the same 141 (size, master, sign) patterns."""
    if extra:       # clusters of one and of many signals, master anywhere (mostly not index 0)
        nsig = EXTRA_SIZES[k % len(EXTRA_SIZES)]
        master = 0 if nsig == 1 else (int(rng.integers(1, nsig)) if rng.random() < 0.85 else 0)
        signs = tuple(int(x) for x in rng.choice([0, 1, -1], size=nsig - 1))
        mode = 'samestart' if nsig == 1 else ['exact', 'samestart', 'workflow', 'levels', 'history', 'exact'][(k // len(EXTRA_SIZES)) % 6]
        long_case = False
    else:
        nsig, master, signs = PATTERNS[k % len(PATTERNS)]
        mode = MODES[(k // len(PATTERNS)) % len(MODES)]
        long_case = k in CLU_LONG_CASES
    steps, default_steps = _draw_steps(rng)
    if short:
        mode, long_case = SHORT_MODES[(k // len(PATTERNS)) % len(SHORT_MODES)], False
        if rng.random() < 0.35:
            steps, default_steps = 10, True
    form = CLUSTER_FORMS[int(rng.integers(len(CLUSTER_FORMS)))]
    if long_case:
        mode, steps, default_steps, form = CLU_LONG_CASES[k], 3, False, 'array2d'
    if form in CLUSTER_INT_FORMS and mode not in ('exact', 'samestart'):
        form = 'array2d'
    nmin = 2 * steps + 2 if rng.random() < 0.3 else 4 * steps + 5
    r = rng.random()
    if long_case:
        n = LONG_N + int(rng.integers(0, 5))
    elif short:
        n = nmin = int(rng.integers(steps + 1, 2 * steps + 2))
    elif mode == 'samestart' and r < 0.08:
        n, nmin = int(rng.integers(1, 4)), 1                  # 1-, 2-, 3-sample records (same_start only)
    elif r < 0.25:
        n = max(nmin, int(CLU_LENGTHS[int(rng.integers(len(CLU_LENGTHS)))]))
    elif r < 0.75:
        n = int(rng.integers(nmin, max(nmin + 1, 401)))
    else:
        n = int(rng.integers(nmin, nmin + 40))
    dt = _wide_dt(rng)
    # round 5: the step in the scalar forms a caller may use; a 0-d array is shared by the cluster and all its members
    dt_form = ['float', 'float', 'float', 'np.float64', '0d'][int(rng.integers(5))]
    if rng.random() < 0.05:
        dt, dt_form = float(rng.choice([1.0, 2.0])), 'int'
    steps_form = ['int', 'int', 'int', 'int', 'np.int64', 'np.int32', '0d-int', 'np.int64'][int(rng.integers(8))]
    # the base record
    if form in CLUSTER_BOOL_FORMS:        # round 5: on/off records (NumPy adds bools with OR; eqsig casts them to float)
        base = pulses(rng, n + 2 * steps)
        bcls = 'bool-pulses'
    elif form in CLUSTER_INT_FORMS:
        lo, hi = int_range(form) if form in INT_FORMS else (-30000, 30000)
        base = rng.integers(lo, hi + 1, size=n + 2 * steps).astype(float)
        bcls = 'int-' + form
    else:
        bcls = BASE_CLASSES[int(rng.integers(len(BASE_CLASSES)))] if rng.random() < 0.75 else None
        amp = float(10.0 ** rng.uniform(-12, 12)) if rng.random() < 0.3 else None
        if rng.random() < 0.3:
            base, bcls = extra_record(rng, n + 2 * steps)
        else:
            base, bcls = gen.record(rng, n + 2 * steps, cls=bcls, amp=amp, allow_const=False)
        e = rng.random()
        if e < 0.08:        # extreme at the master's first / last sample
            base[steps] = 3.0 * (np.max(np.abs(base)) or 1.0)
        elif e < 0.16:
            base[steps + n - 1] = -3.0 * (np.max(np.abs(base)) or 1.0)
        if form == 'f32':
            base = base.astype(np.float32).astype(float)
        elif k % 8 == 3 and form not in CLUSTER_INT_FORMS and not long_case:
            # special but valid scales; the lag search is a sum of SQUARES, so the modes with time_match stay within 1e+-140
            lim = 250 if mode in ('samestart', 'levels') else 140
            base, suffix = gen.special_scale(rng, base)
            base = clamp_scale(base, 10.0 ** (-lim), 10.0 ** lim)
            bcls = str(bcls) + suffix
    force_edge = (k % 5 == 0)      # every non-zero lag at exactly +-(steps-1)
    lags = []
    it = iter(signs)
    for i in range(nsig):
        if i == master:
            lags.append(0)
            continue
        s = next(it)
        if steps == 1:
            s = 0
        if s == 0 or (mode in ('samestart', 'levels') and rng.random() < 0.5):
            lags.append(0 if s == 0 else None)
            continue
        r = rng.random()
        mag = steps - 1 if (force_edge or r < 0.3) else (1 if r < 0.5 else int(rng.integers(1, steps)))
        if short and not force_edge and steps - 1 >= max(1, n // 2) and rng.random() < 0.6:
            mag = int(rng.integers(max(1, n // 2), steps))        # half of the record or more
        lags.append(s * mag)
    amp = float(np.max(np.abs(base))) or 1.0
    values = []
    for i, l in enumerate(lags):
        if l is None:     # an unrelated record (same_start modes only)
            if form in CLUSTER_BOOL_FORMS:
                v = pulses(rng, n)
            elif form in CLUSTER_INT_FORMS:
                lo, hi = int_range(form) if form in INT_FORMS else (-30000, 30000)
                v = rng.integers(lo, hi + 1, size=n).astype(float)
            else:
                v, _ = gen.record(rng, n, allow_const=True)
        else:             # sig_i[t] = base[steps + t - l] = master[t - l]
            v = base[steps - l: steps + n - l].copy()
        values.append(v)
    ops = []
    tm_kw = _tm_kwargs(rng, steps, default_steps)
    can_tm = n > steps if short else n >= 2 * steps + 2
    if mode == 'exact':
        ops.append(['time_match', tm_kw])
        if rng.random() < 0.5:
            ops.append(['same_start', _window(rng, n, dt)])
    elif mode == 'noisy':
        for i in range(nsig):
            values[i] = values[i] + 1e-7 * amp * rng.normal(size=n)
        ops.append(['time_match', tm_kw])
    elif mode == 'levels':
        # a static level 1e-9..1e6 carrying a signal, plus offsets from 1e-12 to 1e3 (relative 1e-10..1e-5 half of the time)
        level = float(rng.choice([-1.0, 1.0])) * float(10.0 ** rng.uniform(-9, 6))
        a = abs(level) * float(10.0 ** rng.uniform(-6, 0)) if rng.random() < 0.6 else float(10.0 ** rng.uniform(-12, 3))
        for i in range(nsig):
            if rng.random() < 0.5:
                off = abs(level) * float(10.0 ** rng.uniform(-10, -5))
            else:
                off = float(10.0 ** rng.uniform(-12, 3))
            off *= float(rng.choice([-1.0, 1.0]))
            values[i] = level + a * (values[i] / (float(np.max(np.abs(values[i]))) or 1.0)) + (off if i != master or rng.random() < 0.5 else 0.0)
        ops.append(['same_start', _window(rng, n, dt)])
    elif mode == 'history':
        ops.append(['time_match', tm_kw])
        n_ops = int(rng.integers(3, 8))
        for _ in range(n_ops):
            r = rng.random()
            i = int(rng.integers(nsig))
            if r < 0.25:
                ops.append(['time_match', _tm_kwargs(rng, steps, default_steps)])
            elif r < 0.45:
                ops.append(['same_start', _window(rng, n, dt)])
            elif r < 0.6:
                ops.append(['sig.read', i, ['pga', 'velocity', 'fa_spectrum', 'npts', 'pgv'][int(rng.integers(5))]])
            elif r < 0.85 and steps > 1:
                l2 = int(rng.integers(-steps + 1, steps))
                ops.append(['sig.reset_values', i, base[steps - l2: steps + n - l2].copy()])
            else:
                ops.append(['sig.add_constant', i, float(rng.normal()) * amp * float(rng.choice([1e-3, 1.0]))])
        if rng.random() < 0.4:      # a length-changing reset; afterwards only same_start windows inside the shortest record
            i = int(rng.integers(nsig))
            n2 = max(2, n - int(rng.integers(1, 6))) if rng.random() < 0.5 else n + int(rng.integers(1, 6))
            newv, _ = gen.record(rng, n2, allow_const=True)
            ops.append(['sig.reset_values', i, newv])
            ops.append(['sig.read', i, 'npts'])
            ops.append(['same_start', _window(rng, min(n, n2), dt)])
            ops.append(['same_start', _window(rng, min(n, n2), dt)])
    else:       # samestart / workflow
        if form not in CLUSTER_INT_FORMS:
            for i in range(nsig):
                if rng.random() < 0.85:
                    values[i] = values[i] + float(rng.normal()) * amp * float(rng.choice([1e-9, 0.01, 1.0, 30.0, 1e6]))
        ops.append(['same_start', _window(rng, n, dt)])
        if mode == 'workflow' and can_tm:
            ops.append(['time_match', tm_kw])
        elif rng.random() < 0.3:
            ops.append(['same_start', _window(rng, n, dt)])
    if mode in ('samestart', 'levels') and form not in CLUSTER_INT_FORMS and n >= 4 and rng.random() < 0.25:
        # dynamic range inside one record: one sample 1e3..1e12 times larger than everything else
        for i in range(nsig):
            j = int(rng.integers(n))
            values[i][j] += float(rng.choice([-1.0, 1.0])) * float(10.0 ** rng.uniform(3, 12)) * (float(np.max(np.abs(values[i]))) or 1.0)
        bcls = str(bcls) + '+spike'
    if not can_tm:
        ops = [o for o in ops if o[0] != 'time_match']
    if mode in ('samestart', 'levels') and form not in CLUSTER_INT_FORMS and rng.random() < 0.07:
        # a silent (all-zero) record as the master or as another signal
        j = master if rng.random() < 0.5 else int(rng.integers(nsig))
        values[j] = np.zeros(n)
        bcls = str(bcls) + '+silent'
    if form == 'f32':
        values = [v.astype(np.float32).astype(float) for v in values]
    # ---- round 3: the master is chosen through the public attribute after construction (and re-chosen during the history)
    n_eff, equal_len = n, True
    for o in ops:
        if o[0] == 'sig.reset_values' and len(o[2]) != n:
            n_eff, equal_len = min(n_eff, len(o[2])), False
    mforms = ['int', 'int', 'np.int64', 'np.int32', 'np.intp']
    ctor_master = master
    if nsig >= 2 and rng.random() < 0.4:
        ctor_master = int([i for i in range(nsig) if i != master][int(rng.integers(nsig - 1))])
        ops.insert(0, ['set_master', master, mforms[int(rng.integers(len(mforms)))]])
    if nsig >= 2 and not long_case and rng.random() < 0.3:
        cur = master
        for _ in range(int(rng.integers(1, 3))):
            cur = int([i for i in range(nsig) if i != cur][int(rng.integers(nsig - 1))]) if rng.random() < 0.85 else master
            ops.append(['set_master', cur, mforms[int(rng.integers(len(mforms)))]])
            r = rng.random()
            tm_ok = can_tm and equal_len and not ('extreme' in str(bcls) and mode in ('samestart', 'levels'))   # squares overflow
            if r < 0.6 or not tm_ok:
                ops.append(['same_start', _window(rng, n_eff, dt)])
            if r >= 0.4 and tm_ok:
                ops.append(['time_match', _tm_kwargs(rng, steps, default_steps)])
    if mode == 'history' and rng.random() < 0.5:       # assignment to the read-only public `values` of a member (ignored)
        # (one sample longer: a half-done assignment shows in npts; a complete one only makes later time_match calls out of domain)
        ops.insert(int(rng.integers(1, len(ops) + 1)), ['sig.assign_values', int(rng.integers(nsig)), rng.normal(size=n + 1)])
    if equal_len and n >= 2 and rng.random() < 0.15:
        # a window that ends beyond the record: the call is refused (or served completely); nothing half-done
        T = (n - 1) * dt
        bad = [{'start': 0, 'end': T + 2.5 * dt}, {'start': T + 3 * dt, 'end': T + 4 * dt}, {'start': 0.0, 'end': 10 * T + 10 * dt},
               {'end': T + 1.5 * dt}][int(rng.integers(4))]
        first_len_change = min([j for j, o in enumerate(ops) if o[0] == 'sig.reset_values' and len(o[2]) != n] + [len(ops)])
        ops.insert(int(rng.integers(0, first_len_change + 1)), ['same_start!', bad])
    if not long_case and rng.random() < 0.06:          # console output requested (captured): verbose=1 / True / np.True_ / 0-d
        vf = ['int', 'bool', 'np.bool', '0d-bool'][int(rng.integers(4))]
        for o in ops:
            if o[0] in ('same_start', 'time_match'):
                o[1] = dict(o[1], verbose=1, _forms=dict(o[1].get('_forms', {}), verbose=vf))
    # round 5: user-given response periods of the cluster (a setting): 0.5 dt .. 300 dt, i.e. also below 2 dt where a "robust"
    # reader is tempted to tidy; one entry, two, three (a 2-tuple looks like a range) or 31; read as s_a when the step is ordinary
    resp_times, resp_form = None, 'array'
    if not long_case and rng.random() < 0.3:
        k_ = int(rng.choice([1, 2, 3, 31]))
        resp_times = [float(x) for x in np.sort(dt * 10.0 ** rng.uniform(-0.3, 2.5, size=k_))]
        resp_form = ['array', 'list', 'tuple'][int(rng.integers(3))]
        if 0.002 <= dt <= 0.1 and n_eff >= 2:
            ops.append(['sig.read', int(rng.integers(nsig)), 's_a'])
            if rng.random() < 0.5:
                ops.append(['same_start', _window(rng, n_eff, dt)])
    # round 5: the index flag in boolean-like forms that are not the Python bool
    flag_reads = []
    if n_eff >= 2:
        i0_ = int(rng.integers(0, n_eff - 1))
        flag_reads.append([int(rng.integers(nsig)), ['np.bool', '0d-bool', 'int'][int(rng.integers(3))],
                           ['samples', 'int-times', 'defaults', 'samples'][int(rng.integers(4))], i0_, int(rng.integers(i0_, n_eff))])
    # sections given as SAMPLE INDICES, read on the members before and after the operations
    index_reads = []
    for _ in range(3):
        j = int(rng.integers(5))
        s0 = [0, 0, n_eff - 1, int(rng.integers(0, n_eff)), int(rng.integers(0, n_eff))][j]
        e0 = [n_eff, 1, n_eff, s0 + 1, int(rng.integers(s0 + 1, n_eff + 1))][j]
        index_reads.append([int(rng.integers(nsig)), int(s0), int(e0),
                            ['kw', 'positional', 'np.int64', 'np.bool', 'function', '0d-bool', 'int-1', '0d-indices', 'end=-1'][int(rng.integers(9))]])
    # round 4: the documented defaults / sentinel of the time form (start=0, end=-1: to the end of the record), read on a member
    default_reads = [[int(rng.integers(nsig)), ['defaults', 'start=0', 'end=-1', 'start=i*dt', 'function-defaults', 'index=False'][int(rng.integers(6))],
                      int(rng.integers(0, max(1, n_eff - 1)))]] if n_eff >= 2 else []
    st = rng.random()
    stypes = 'custom' if st < 0.35 else ('acc' if st < 0.7 else [str(rng.choice(['acc', 'custom'])) for _ in range(nsig)])
    names = None if rng.random() < 0.6 else ['rec%d' % i for i in range(nsig)]
    if nsig == 1:       # time_match needs a second signal: probed, never judged
        ops = [o for o in ops if o[0] != 'time_match'] + [['time_match?', tm_kw]]
    case = {'kind': 'cluster', 'values': values, 'dt': dt, 'master_index': master, 'stypes': stypes, 'names': names,
            'container': form, 'ops': ops, 'lags': [l if l is not None else 'unrelated' for l in lags],
            'steps': steps, 'mode': mode, 'base_class': bcls, 'steps_form': steps_form, 'dt_form': dt_form,
            'resp_times': resp_times, 'resp_form': resp_form, 'flag_reads': flag_reads,
            'twin': bool(rng.random() < 0.3 and not long_case),
            'warm': bool(rng.random() < 0.6), 'deepcopy_twin': bool(rng.random() < 0.3 and not long_case),
            'ctor_master': ctor_master, 'ctor_style': ['kw', 'kw', 'positional'][int(rng.integers(3))],
            'index_reads': index_reads, 'default_reads': default_reads, 'copy_kind': ['deepcopy', 'pickle'][int(rng.integers(2))],
            'copy_after': int(rng.integers(0, len(ops) + 1)) if rng.random() < 0.5 else 0,
            'third_run': bool(rng.random() < 0.5)}
    if nsig >= 2 and not long_case and rng.random() < 0.35:
        # members of the (aligned) cluster are then used as the two components of a rotation
        case['rotate_members'] = {'other': int([i for i in range(nsig) if i != master][int(rng.integers(nsig - 1))]),
                                  'theta': float(np.round(rng.uniform(-360, 360), 2)),
                                  'scan': _make_scan(rng, OFFSET_KINDS[int(rng.integers(len(OFFSET_KINDS)))],
                                                     (LINEAR_SENSITIVE if 'extreme' in str(bcls) else SENSITIVE)[int(rng.integers(7))],
                                                     int(rng.choice([1, 2, 3])), False, 'kw')}
    if not long_case and rng.random() < 0.3:
        # a second cluster of the same shape (negated lags on another base) for the process-wide-state relation
        n2 = n + (int(rng.integers(1, 9)) if rng.random() < 0.5 else 0)        # same shape or a longer one
        b2, _ = gen.record(rng, n2 + 2 * steps, cls='noise')
        if form in CLUSTER_INT_FORMS:
            b2 = rng.integers(0, 2 if form in CLUSTER_BOOL_FORMS else 101, size=n2 + 2 * steps).astype(float)
        case['second'] = [b2[steps + (l if isinstance(l, int) else 0): steps + n2 + (l if isinstance(l, int) else 0)].copy()
                          for l in case['lags']]
    return case


def _index_obj(k, form):
    return {'np.int64': np.int64, 'np.int32': np.int32, 'np.intp': np.intp}.get(form, int)(int(k))


def _index_reads(eqsig, ctx, case, c):
    """Sections given as sample indices, read on the members through the public index form (judged by the monitor)."""
    for i_, s0, e0, style in case.get('index_reads') or []:
        if i_ >= len(c.signals):
            continue
        sig = c.signal_by_index(int(i_))
        if not (0 <= s0 < e0 <= sig.npts):
            continue
        try:
            if style == 'positional':
                sig.get_section_average(s0, e0, True)
            elif style == 'np.int64':
                sig.get_section_average(start=np.int64(s0), end=np.int64(e0), index=True)
            elif style == 'np.bool':
                sig.get_section_average(start=s0, end=e0, index=np.bool_(True))
            elif style == 'function':
                eqsig.fns.average.get_section_average(sig, s0, e0, index=True)
            elif style == '0d-bool':        # round 5: a set flag as a 0-d bool array / as 1
                sig.get_section_average(start=s0, end=e0, index=hold(np.array(True), 'get_section_average(index)'))
            elif style == 'int-1':
                sig.get_section_average(s0, e0, 1)
            elif style == '0d-indices':
                sig.get_section_average(start=hold(np.array(s0), 'get_section_average(start)'),
                                        end=hold(np.array(e0), 'get_section_average(end)'), index=True)
            elif style == 'end=-1':         # the index form with the default / sentinel end
                if s0 <= sig.npts - 2:
                    sig.get_section_average(start=s0, index=True) if e0 % 2 else sig.get_section_average(s0, -1, np.True_)
            else:
                sig.get_section_average(start=s0, end=e0, index=True)
        except Exception as e:
            ctx.exception('section-average(index=True)==mean(samples[start:end])',
                          dict(case, failing={'call': 'get_section_average', 'signal': int(i_), 'start': s0, 'end': e0, 'style': style}), e)
    for i_, style, j0 in case.get('default_reads') or []:
        if i_ >= len(c.signals):
            continue
        sig = c.signal_by_index(int(i_))
        if sig.npts < 2 or not isinstance(sig.values, np.ndarray):
            continue
        try:
            if style == 'defaults':
                sig.get_section_average()
            elif style == 'start=0':
                sig.get_section_average(start=0)
            elif style == 'end=-1':
                sig.get_section_average(end=-1)
            elif style == 'start=i*dt':
                sig.get_section_average(start=min(int(j0), sig.npts - 2) * sig.dt, end=-1)
            elif style == 'function-defaults':
                eqsig.fns.average.get_section_average(sig)
            else:
                sig.get_section_average(0, -1, False)
        except Exception as e:
            ctx.exception('section-average(end=-1)==mean(samples from start to the end of the record)',
                          dict(case, failing={'call': 'get_section_average', 'signal': int(i_), 'style': style}), e)


PENDING_FLAG_FORMS = False     # round 5: the index-flag mechanism was ruled a genuine defect and repaired in eqsig (fix F46); see below for set_step
FLAG_CLAUSE = 'section-average(index=False-like flag: np.False_, 0-d, 0)==section-average(index=False)'


def _flag_reads(eqsig, ctx, case, c):
    """Round 5: an UNSET flag handed over as np.False_, a 0-d bool array or 0 means what False means: the same section read with
    index=False (the Python bool) and with the other form must give the same average (`index is False` holds for the first only)."""
    for i_, form, kind, i0, i1 in case.get('flag_reads') or []:
        if i_ >= len(c.signals):
            continue
        sig = c.signal_by_index(int(i_))
        if sig.npts < 2 or not isinstance(sig.values, np.ndarray) or i1 >= sig.npts:
            continue
        dt = case['dt']
        if kind == 'int-times' and (sig.npts - 1) * dt >= 1:
            kw = {'start': 0, 'end': int(min(3, (sig.npts - 1) * dt))}
        elif kind == 'defaults':
            kw = {}
        else:
            kw = {'start': i0 * dt, 'end': min(i1 * dt, (sig.npts - 1) * dt)}
        flag = hold(scalar_obj(False, form), 'get_section_average(index)')
        try:
            ref = float(sig.get_section_average(index=False, **kw))
        except Exception:
            ctx.observe('section-average.flag-form-reference-raises')
            continue
        try:
            got = float(sig.get_section_average(index=flag, **kw))
            okk = got == ref
            txt = 'returned %r, with index=False %r' % (got, ref)
        except Exception as e:
            okk, txt = False, 'raised %r, with index=False it returns %r' % (e, ref)
        if not okk and PENDING_FLAG_FORMS:
            ctx.observe('pending-finding: get_section_average(index=np.False_ / 0-d False / 0) is read as index=True (time_indices tests `index is False`)')
            continue
        ctx.check(okk, FLAG_CLAUSE, lambda: dict(case, failing={'call': 'get_section_average', 'signal': int(i_), 'kwargs': kw, 'index_form': form}),
                  'get_section_average(%r, index=%r) on %d samples (dt %r) %s' % (kw, flag, sig.npts, dt, txt))


def _run_ops(eqsig, ctx, case, c, ops, judged=True):
    for op in ops:
        name = op[0]
        try:
            if name == 'sig.read' and op[2] == 's_a':      # a read at the user-given periods (not judged here; may refuse odd periods)
                try:
                    getattr(c.signal_by_index(int(op[1])), 's_a', None)
                except Exception:
                    ctx.observe('member.s_a-read-refused')
            elif name == 'sig.read':
                getattr(c.signal_by_index(int(op[1])), op[2], None)
            elif name == 'sig.reset_values':
                c.signal_by_index(int(op[1])).reset_values(np.array(op[2], dtype=float))
            elif name == 'sig.add_constant':
                c.signal_by_index(int(op[1])).add_constant(op[2])
            elif name == 'sig.assign_values':      # the public `values` attribute has no effective setter: ignored as a whole
                s_ = c.signal_by_index(int(op[1]))
                b_ = (np.array(s_.values, copy=True), s_.npts)
                try:
                    s_.values = np.array(op[2], dtype=float)
                except Exception:
                    ctx.observe('member.values-assignment-rejected')
                same_ = unchanged(s_.values, b_[0]) and s_.npts == b_[1]
                full_ = isinstance(s_.values, np.ndarray) and np.array_equal(s_.values, np.asarray(op[2], dtype=float)) \
                    and s_.npts == len(op[2])
                ctx.check(same_ or full_, 'cluster.member-values-assignment(all-or-nothing)',
                          lambda: dict(case, failing={'op': ['sig.assign_values', int(op[1])]}),
                          'assigning to the public `values` of member %d was neither ignored nor carried out completely '
                          '(npts %r -> %r)' % (int(op[1]), b_[1], s_.npts))
            elif name == 'set_master':
                c.master_index = _index_obj(op[1], op[2] if len(op) > 2 else 'int')
            elif name == 'same_start!':
                before = [(np.array(c.values_by_index(i_), copy=True), c.signal_by_index(i_).npts) for i_ in range(len(c.signals))]
                mi = c.master_index
                try:
                    c.same_start(**dict(op[1]))
                    ctx.observe('same_start.window-beyond-record-served')
                except Exception:
                    okk = mi == c.master_index and all(unchanged(c.values_by_index(i_), b_[0]) and c.signal_by_index(i_).npts == b_[1]
                                                       for i_, b_ in enumerate(before))
                    ctx.check(okk, 'same_start.refused-call-leaves-cluster-unchanged',
                              lambda: dict(case, failing={'op': ['same_start!', op[1]]}),
                              'same_start(%r) raised (window beyond the record) and left the cluster changed' % (op[1],))
            elif name == 'time_match?':
                try:
                    c.time_match(**dict(op[1]))
                    ctx.observe('time_match.single-signal-cluster-returns')
                except Exception:
                    ctx.observe('time_match.single-signal-cluster-raises')
            else:
                okw = dict(op[1])
                forms = dict(okw.pop('_forms', None) or {})
                if 'steps' in okw:
                    forms.setdefault('steps', 'np.int64' if case.get('steps_as_np_int') else case.get('steps_form', 'int'))
                for k_, f_ in forms.items():        # round 5: scalar forms (0-d arrays are held and must keep their value)
                    if k_ in okw:
                        okw[k_] = hold(scalar_obj(okw[k_], f_), '%s(%s)' % (name, k_))
                if name == 'time_match' and 'set_step' in forms:
                    try:        # an unset flag in a non-Python-bool form: `set_step is False` fails -> nothing is matched, then
                        getattr(c, name)(**okw)       # UnboundLocalError at `return min_ind`
                        if judged:
                            ctx.ok('%s.returns(no-exception)' % name)
                    except UnboundLocalError:
                        # ruled outside the statement: set_step means "False or a step", the lag-matching clause says nothing
                        # about a false value in another form; counted only
                        ctx.observe('ruled outside the statement: time_match(set_step=np.False_ / 0-d False) raises UnboundLocalError (`set_step is False`)')
                    continue
                if okw.get('verbose'):
                    import contextlib
                    import io
                    with contextlib.redirect_stdout(io.StringIO()):
                        getattr(c, name)(**okw)
                else:
                    getattr(c, name)(**okw)
                if judged:
                    ctx.ok('%s.returns(no-exception)' % name)
        except Exception as e:
            # (round 4: the sentinel handed over as a FLOAT, -1.0 == -1, was recognised by time_indices and then used as a slice
            # index -> TypeError; routed to an observation until it was ruled a genuine defect - docstring "end: int or float" -
            # and repaired in eqsig, fix F44; it is judged like any other exception now)
            clause = '%s.returns(no-exception)' % name if not name.startswith('sig.') else 'cluster.history-op(no-exception)'
            ctx.exception(clause, dict(case, failing={'op': [o if not isinstance(o, np.ndarray) else 'array' for o in op]}), e)
            return False
    return True


def run_cluster_case(eqsig, ctx, case):
    global CURRENT
    vals = [np.asarray(v, dtype=float) for v in case['values']]
    data = cluster_container(vals, case.get('container', 'list-of-arrays'))
    snap = container_snapshot(data)
    kw = {'master_index': int(case.get('ctor_master', case['master_index']))}
    if case.get('stypes') is not None:
        kw['stypes'] = case['stypes']
    if case.get('names') is not None:
        kw['names'] = list(case['names'])
    CURRENT = case
    del HELD[:]
    # round 5: the step in the caller's scalar form (a 0-d array is one object shared by every cluster built here and all members)
    dt_obj = hold(scalar_obj(case['dt'], case.get('dt_form', 'float')), 'Cluster(dt)')
    rt_in = rt_snap = None
    if case.get('resp_times') is not None:
        rt_in = {'list': list, 'tuple': tuple}.get(case.get('resp_form'), np.array)(case['resp_times'])
        rt_snap = np.array(case['resp_times'], dtype=float)
    try:
        try:
            if case.get('ctor_style') == 'positional' and rt_in is None:        # Cluster(values, dt, names, master_index, stypes)
                c = eqsig.Cluster(data, dt_obj, kw.get('names'), kw['master_index'], kw.get('stypes', 'custom'))
            elif rt_in is not None:
                c = eqsig.Cluster(data, dt_obj, resp_times=rt_in, **kw)
            else:
                c = eqsig.Cluster(data, dt_obj, **kw)
            twin = eqsig.Cluster(data, dt_obj, **kw) if case.get('twin') else None
        except Exception as e:
            ctx.exception('cluster.constructs', dict(case), e)
            return
        CTOR_MASTER.clear()
        CTOR_MASTER[id(c)] = kw['master_index']
        if twin is not None:
            twin_snap = [np.array(twin.values_by_index(i), copy=True) for i in range(len(vals))]
        members = [c.signal_by_index(i) for i in range(len(vals))]

        def own():       # no member shares memory with the caller's container or with another member
            arrs = [m_.values for m_ in members]
            if not all(isinstance(a_, np.ndarray) for a_ in arrs):
                return True          # judged by the values-are-arrays clauses
            ext = [data] if isinstance(data, np.ndarray) else [x for x in data if isinstance(x, np.ndarray)]
            return not any(np.shares_memory(a_, e_) for a_ in arrs for e_ in ext) and \
                not any(np.shares_memory(arrs[i_], arrs[j_]) for i_ in range(len(arrs)) for j_ in range(i_))
        ctx.check(own(), 'cluster.members-own-their-data', lambda: dict(case, failing={'relation': 'ownership after construction'}),
                  'a Cluster member shares memory with the caller container / another member right after construction')
        if case.get('warm'):       # warm the members: whatever memo they carry must follow their values
            for m_ in members:
                for attr in ('pga', 'pgv', 'velocity', 'fa_spectrum'):
                    getattr(m_, attr, None)
        _index_reads(eqsig, ctx, case, c)
        _flag_reads(eqsig, ctx, case, c)
        dc = None
        j_copy = int(case.get('copy_after', 0)) if case.get('deepcopy_twin') else 0
        if j_copy and not _run_ops(eqsig, ctx, case, c, case['ops'][:j_copy]):
            return
        if case.get('deepcopy_twin'):      # a deep copy / pickle round trip taken cold, warm or in the middle of the history
            import copy
            import pickle
            try:
                dc = pickle.loads(pickle.dumps(c)) if case.get('copy_kind') == 'pickle' else copy.deepcopy(c)
            except Exception as e:
                ctx.exception('cluster.deepcopy-twin-same-result', dict(case, failing={'where': case.get('copy_kind', 'deepcopy')}), e)
                return
        if not _run_ops(eqsig, ctx, case, c, case['ops'][j_copy:]):
            return
        _index_reads(eqsig, ctx, case, c)
        # round 5: after every read and operation the step and the periods are what the CALLER gave (value for value), on the
        # cluster and on every member; the caller's own period container is untouched
        try:
            sigs_ = [c.signal_by_index(i_) for i_ in range(len(c.signals))]
            okk = float(c.dt) == float(case['dt']) and all(float(s_.dt) == float(case['dt']) for s_ in sigs_)
            if rt_snap is not None:
                okk = okk and np.array_equal(np.asarray(c.response_times), rt_snap) and np.array_equal(np.asarray(rt_in), rt_snap) \
                    and type(rt_in) is {'list': list, 'tuple': tuple}.get(case.get('resp_form'), np.ndarray) \
                    and all(np.array_equal(np.asarray(s_.response_times), rt_snap) for s_ in sigs_ if hasattr(s_, 'response_times'))
        except Exception:
            okk = False
        ctx.check(okk, 'cluster.step-and-periods-as-given(after reads and operations)',
                  lambda: dict(case, failing={'relation': 'dt / response periods of the cluster and its members == what the caller gave'}),
                  'after %s the time step or the response periods of the cluster / its members are not what the caller gave '
                  '(dt %r, periods %r)' % ([o[0] for o in case['ops']], case['dt'], case.get('resp_times')))
        ctx.check(own(), 'cluster.members-own-their-data', lambda: dict(case, failing={'relation': 'ownership after the operations'}),
                  'a Cluster member shares memory with the caller container / another member after %s' % [o[0] for o in case['ops']])
        if case.get('warm'):
            bad = []
            with attach.paused():
                for i_, m_ in enumerate(members):
                    if hasattr(m_, 'pga') and isinstance(m_.values, np.ndarray) and m_.npts > 0:
                        fresh = eqsig.AccSignal(np.array(m_.values, copy=True), m_.dt)      # same dtype as the member
                        for x, y in ((float(m_.pga), float(fresh.pga)), (float(m_.pgv), float(fresh.pgv)),
                                     (float(m_.velocity[-1]), float(fresh.velocity[-1]))):
                            if not abs(x - y) <= 1e-9 * (abs(x) + abs(y)):
                                bad.append((i_, x, y))
            ctx.check(not bad, 'cluster.member-memo==fresh',
                      lambda: dict(case, failing={'relation': 'memo of warm members == fresh computation', 'bad': bad}),
                      'pga/pgv/final velocity memoised on warm Cluster members differ from a fresh computation on their current '
                      'values after %s: %r (signal, memo, fresh)' % ([o[0] for o in case['ops']], bad[:3]))
        if dc is not None:
            _run_ops(eqsig, ctx, case, dc, [o for o in case['ops'][j_copy:] if o[0] != 'time_match?'], judged=False)
            same = all(unchanged(dc.values_by_index(i), np.asarray(c.values_by_index(i))) for i in range(len(vals))) \
                and dc.master_index == c.master_index
            ctx.check(same, 'cluster.deepcopy-twin-same-result',
                      lambda: dict(case, failing={'relation': 'copy processed the same way gives the same signals',
                                                  'copy_kind': case.get('copy_kind', 'deepcopy'), 'copy_after': j_copy}),
                      'a %s copy of the cluster, taken after the first %d operations and processed the same way afterwards, ends '
                      'with different signals' % (case.get('copy_kind', 'deepcopy'), j_copy))
        rm = case.get('rotate_members')
        if rm is not None:
            m0, m1 = members[int(case['master_index'])], members[int(rm['other'])]
            if m0.npts == m1.npts and isinstance(m0.values, np.ndarray) and isinstance(m1.values, np.ndarray):
                try:
                    eqsig.combine_at_angle(m0, m1, rm['theta'])
                    if isinstance(m0, eqsig.AccSignal) and isinstance(m1, eqsig.AccSignal):
                        _scan_call(eqsig, m0, m1, rm['scan'], rm['scan']['offset'])
                    ctx.ok('cluster.members-rotated(monitored)')
                except Exception as e:
                    ctx.exception('cluster.members-rotated(monitored)', dict(case, failing={'where': 'rotation of members'}), e)
        ctx.check(container_unchanged(data, snap), 'cluster.caller-arrays-unchanged',
                  lambda: dict(case, failing={'relation': 'caller container unchanged'}),
                  'the %s container handed to Cluster() was modified by %s' % (case.get('container'), [o[0] for o in case['ops']]))
        if twin is not None:
            ctx.check(all(unchanged(twin.values_by_index(i), twin_snap[i]) for i in range(len(vals))), 'cluster.twin-unaffected',
                      lambda: dict(case, failing={'relation': 'twin cluster unaffected'}),
                      'a second Cluster built from the same caller object changed when the first was processed')
        sec = case.get('second')
        if sec is not None:
            held = [c.values_by_index(i) for i in range(len(vals))]
            held_copy = [np.array(v, copy=True) for v in held]
            try:
                c2 = eqsig.Cluster(cluster_container(sec, case.get('container', 'list-of-arrays')), dt_obj, **kw)
            except Exception as e:
                ctx.exception('cluster.constructs', dict(case, failing={'which': 'second'}), e)
                return
            _run_ops(eqsig, ctx, case, c2, [o for o in case['ops'] if not o[0].startswith('sig.')])
            okk = all(unchanged(h, hc) for h, hc in zip(held, held_copy)) and \
                all(unchanged(c.values_by_index(i), held_copy[i]) for i in range(len(vals)))
            ctx.check(okk, 'cluster.first-result-intact-after-second-call',
                      lambda: dict(case, failing={'relation': 'first cluster intact after processing a second one'}),
                      'the aligned signals of the first cluster changed while a second cluster of the same shape was processed')
            if case.get('third_run'):      # f(A); f(B); f(A): the result depends on the arguments only
                try:
                    c3 = eqsig.Cluster(data, dt_obj, **({} if rt_in is None else {'resp_times': rt_in}), **kw)
                except Exception as e:
                    ctx.exception('cluster.constructs', dict(case, failing={'which': 'third'}), e)
                    return
                if case.get('warm'):
                    for i_ in range(len(vals)):
                        for attr in ('pga', 'pgv', 'velocity', 'fa_spectrum'):
                            getattr(c3.signal_by_index(i_), attr, None)
                _run_ops(eqsig, ctx, case, c3, [o for o in case['ops'] if o[0] != 'time_match?'], judged=False)
                ctx.check(all(unchanged(c3.values_by_index(i), held_copy[i]) for i in range(len(vals))),
                          'cluster.third-run==first-run',
                          lambda: dict(case, failing={'relation': 'same data processed again after another cluster gives the same signals'}),
                          'the same container processed the same way a second time (after a cluster of another record was '
                          'processed in between) ends with different signals')
    finally:
        try:
            check_held(ctx, case, 'cluster case')
        finally:
            CURRENT = None


# ------------------------------------------------------------------------------------------------ shard driver
def run_shard(ctx):
    eqsig = core.import_eqsig()
    install(ctx)
    rng = ctx.rng
    n_rot = 1500 if ctx.tier == 'quick' else 30000
    n_clu = 16 * len(PATTERNS) if ctx.tier == 'quick' else 284 * len(PATTERNS)
    n_extra = 192 if ctx.tier == 'quick' else 3200
    n_short = 8 * len(PATTERNS) if ctx.tier == 'quick' else 120 * len(PATTERNS)       # round 4: records short relative to the search window
    todo = [('c', k) for k in core.split_range(n_clu, ctx.shard, ctx.nshards)] + \
        [('x', j) for j in core.split_range(n_extra, ctx.shard, ctx.nshards)] + \
        [('s', j) for j in core.split_range(n_short, ctx.shard, ctx.nshards)]
    for what, k in todo:
        case = make_cluster_case(rng, k, extra=(what == 'x'), short=(what == 's'))
        if what == 's':
            ctx.observe('cluster.short-record-case')
        nontriv = any(l not in (0,) for i, l in enumerate(case['lags']) if i != case['master_index']) \
            or case['mode'] in ('samestart', 'workflow', 'levels', 'history')
        ctx.case(core.digest(case['values'], case['dt'], case['master_index'], repr(case['stypes']), case['container'],
                             repr([o[:2] for o in case['ops']])),
                 nontrivial=nontriv,
                 cls='cluster-%s-n%d-m%d' % (case['mode'], len(case['values']), case['master_index']),
                 sample={'kind': 'cluster', 'mode': case['mode'], 'n_signals': len(case['values']),
                         'master_index': case['master_index'], 'lags': case['lags'], 'steps': case['steps'],
                         'npts': len(case['values'][0]), 'dt': case['dt'], 'container': case['container'],
                         'ops': [[x if not isinstance(x, np.ndarray) else 'array(%d)' % len(x) for x in o] for o in case['ops']],
                         'base_class': case['base_class']})
        ctx.observe('cluster.container.%s' % case['container'])
        ctx.observe('cluster.size.%d' % len(case['values']))
        for tag in ('-extreme-tiny', '-extreme-huge', '-extreme-range', '-ripple-on-baseline', '-counts-above-2**24'):
            if tag in str(case['base_class']):
                ctx.observe('cluster.special-scale%s.%s' % (tag, 'with-time_match' if any(o[0] == 'time_match' for o in case['ops']) else 'same_start-only'))
        ctx.observe('cluster.steps.%d' % case['steps'])
        run_cluster_case(eqsig, ctx, case)
        if ctx.out_of_time():
            break
    for k in core.split_range(n_rot, ctx.shard, ctx.nshards):
        case = make_rotation_case(rng, k)
        nontriv = len(set(case['ns'].tolist())) > 1 or len(set(case['we'].tolist())) > 1
        ctx.case(core.digest(case['ns'], case['we'], case['dt'], case['angles'], repr(case['scans']), repr(case['forms'])),
                 nontrivial=nontriv, cls='rotation-%s' % case['scans'][0]['measure'],
                 sample={'kind': 'rotation', 'npts': len(case['ns']), 'dt': case['dt'], 'classes': case['classes'],
                         'forms': case['forms'], 'angles': case['angles'][:6], 'angle_forms': case['angle_forms'][:6],
                         'scans': case['scans'], 'ns_head': case['ns'][:5], 'we_head': case['we'][:5]})
        for scn in case['scans']:
            ctx.observe('scan.offset-kind.%s' % scn['offset_kind'])
        for f in case['forms']:
            ctx.observe('rotation.form.%s' % f)
        if case.get('extreme'):
            ctx.observe('rotation.extreme-scale-case')
            for c_ in case['classes']:
                if 'extreme' in str(c_) or 'ripple' in str(c_) or 'counts' in str(c_):
                    ctx.observe('rotation.extreme-class.%s' % str(c_).split('/')[-1].split('-', 1)[-1])
        run_rotation_case(eqsig, ctx, case)
        if ctx.out_of_time():
            break
    ctx.note('monitored_calls', dict(attach.CALLS))
    ctx.exhaustive['cluster_patterns(size,master,lag-signs)'] = len(PATTERNS)


# ------------------------------------------------------------------------------------------------ replay
def replay(w):
    """Re-execute one witness against the current tree; return the list of violation messages."""
    eqsig = core.import_eqsig()
    ctx = core.Ctx(PROP_ID, 'quick', 0, 0, 1)
    install(ctx)
    w = dict(w)
    w.pop('failing', None)
    kind = w.get('kind')
    if kind == 'rotation':
        run_rotation_case(eqsig, ctx, w)
    elif kind == 'cluster':
        run_cluster_case(eqsig, ctx, w)
    elif kind == 'cluster-state':
        case = {'kind': 'cluster', 'values': w['values'], 'dt': w['dt'], 'master_index': w['master_index'],
                'stypes': w.get('stypes'), 'names': None, 'container': 'list-of-arrays',
                'ops': [[w['op'], w.get('kwargs', {})]]}
        run_cluster_case(eqsig, ctx, case)
    elif kind == 'rotation-call':
        ns = eqsig.AccSignal(np.asarray(w['ns'], dtype=float), w['dt'])
        we = eqsig.AccSignal(np.asarray(w['we'], dtype=float), w['dt'])
        try:
            if w.get('call') == 'compute_rotated':
                if w.get('parameter') is None:
                    return ['cannot replay a scan with a foreign callable (%r)' % w.get('func')]
                eqsig.compute_rotated(ns, we, angle_off_ns=w['offset'], parameter=w['parameter'], points=w['points'])
            else:
                eqsig.combine_at_angle(ns, we, w['angle'])
        except Exception as e:
            ctx.exception('rotation==ns*cos+we*sin', w, e)
    elif kind == 'end-convention-probe':
        pass                   # the probe ran inside install(); its verdict is in ctx.violations
    else:
        return ['unknown witness kind %r' % kind]
    return ['%s: %s' % (v['clause'], v['msg']) for v in ctx.violations]
