"""C18 - two-component rotation and cluster alignment do what they say.

Monitors (post-conditions on the real functions, wherever the call comes from):
  eqsig.multiple.combine_at_angle   result == ns*cos(theta) + we*sin(theta)            (oracle: vf/oracles/rotation.py)
  eqsig.multiple.compute_rotated    angles == mod(linspace(-off, 180-off, points), 360); i-th value == the measure
                                    re-evaluated on an AccSignal built from the oracle combination at the i-th angle
  Cluster.time_match                state post-condition with a pre-state snapshot of every signal: the oracle identifies
                                    the integer lag of every non-master signal from the pre-state; afterwards the signal
                                    must be its own samples shifted by that lag, coincide with the master on the overlap,
                                    keep its length and stay an ndarray; master untouched
  Cluster.same_start                state post-condition: master untouched, every other signal changed by a constant,
                                    section averages (read back through the public get_section_average) equal the master's
Relations between executions (theta=0/90/180/..., theta+180 negates, half-circle end points of a scan, offset+180) are
checked by the driver after the related calls return.
"""
import itertools
import math

import numpy as np

from vf import attach, core, gen, tol
from vf.oracles import rotation as O

PROP_ID = 'C18'
TECHNIQUE = ('runtime post-condition monitors on combine_at_angle / compute_rotated / Cluster.time_match / '
             'Cluster.same_start (state post-conditions with pre-state snapshots), scalar reference oracles, constructed '
             'lags; offline relation checks between related executions')
RULE = ('rotation cases = (ns, we, dt) pairs of gen.record classes (independent amplitudes 1e-6..1e6, 2..300 samples, Signal '
        'or AccSignal, integer-valued records also as int64) combined at theta in {0,90,180,270,360,450,-90,-180, 37.5, random in +-360, random in +-3600} and at '
        'every theta+180, plus scans with offset in {0,90,180,270,30,-45,random} x points in {2,3,5,7,100} x 16 measures '
        '(pga/pgv/pgd/arias_intensity parameters; callables returning scalars and series, among them the sign-sensitive '
        'signed max/min, one signed sample, last value of cumsum / velocity / displacement series), the triple '
        '(offset, measure, points) enumerated cyclically. cluster cases = 2..4 equal-length slices (2*steps+3..400 samples, '
        'steps 3..15) of one longer base record displaced by known lags; the (size, master index, lag-sign pattern in '
        '{0,+,-}^(size-1)) space (141 patterns, i.e. every order of already-aligned and lagged signals for every master) is '
        'enumerated cyclically, magnitudes in {1, steps-1, random}; modes: exact lags -> time_match [-> same_start], '
        'offsets -> same_start, offsets+lags -> same_start -> time_match, lags + 1e-7 noise -> time_match; section windows '
        'default (0,1) when it fits, else random inside the record. distinct = digest of all inputs and options; '
        'non-trivial = components not both constant / at least one non-master signal with non-zero lag or offset.')
ASSUMPTIONS = [
    'NaN-free real records; both components have the same length and dt',
    '|theta| <= 3600 degrees (the degree->radian rounding stays far below the 1e-12 relative allowance)',
    'a callable returning a series contributes its LAST value (the scan takes val[-1]); measures are deterministic',
    'the measures themselves (pga, pgv, pgd, CAV) are re-evaluated by eqsig on the oracle combination - their correctness '
    'belongs to other properties; the final Arias intensity is recomputed by the oracle',
    'time_match is judged for equal-length signals whose lag is identifiable: the residual of the best lag over the full '
    'overlap is below half the residual of every other lag |L|<steps over the interior window [steps, n-steps); periodic, '
    'constant and edge-only signals are counted as observations, not judged',
    'the clause time_match.pad=edge-sample is taken from the comments in the source ("pad with initial/final value"), '
    'not from the property statement',
    'same_start is judged for windows 0 <= start <= end <= (n-1)*dt; the section average is whatever the public '
    'get_section_average(start, end) returns',
]
MIN_EVALS = {
    'quick': {'rotation==ns*cos+we*sin': 45000, 'rotation.quadrant-identities': 6000, 'rotation.theta+180-negates': 8000,
              'scan.angles==mod(linspace)': 2000, 'scan.values==measure(combination)': 2000,
              'scan.half-circle-endpoints': 1200, 'scan.offset+180-relation': 600,
              'time_match.lag-removed(L>0)': 500, 'time_match.lag-removed(L<0)': 500, 'time_match.lag-removed(L=0)': 500,
              'time_match.lag0-after-lagged-unchanged': 200, 'time_match.overlap==master': 850,
              'time_match.values-are-arrays': 2200, 'time_match.length-unchanged': 2200,
              'time_match.master-unchanged': 600,
              'same_start.section-average==master': 1300, 'same_start.master-unchanged': 450,
              'same_start.shift-is-constant': 1300},
    'thorough': {'rotation==ns*cos+we*sin': 850000, 'rotation.quadrant-identities': 120000,
                 'rotation.theta+180-negates': 165000, 'scan.angles==mod(linspace)': 42000,
                 'scan.values==measure(combination)': 42000, 'scan.half-circle-endpoints': 24000,
                 'scan.offset+180-relation': 12000,
                 'time_match.lag-removed(L>0)': 10000, 'time_match.lag-removed(L<0)': 10000,
                 'time_match.lag-removed(L=0)': 10000, 'time_match.lag0-after-lagged-unchanged': 4000,
                 'time_match.overlap==master': 16000, 'time_match.values-are-arrays': 44000,
                 'time_match.length-unchanged': 44000, 'time_match.master-unchanged': 12000,
                 'same_start.section-average==master': 27000, 'same_start.master-unchanged': 10000,
                 'same_start.shift-is-constant': 27000},
}
EXHAUSTIVE = {'quick': 'every (cluster size 2..4, master index, lag-sign pattern in {0,+,-}^(size-1)) = 141 patterns, each '
                       'visited >= 10 times; every (offset kind, measure, points) triple of the scan',
              'thorough': 'the same 141 patterns, each visited >= 200 times; every (offset kind, measure, points) triple'}

RTOL_ROT = 1e-12      # rotation formula, relative to |ns_i| + |we_i|
RTOL_MEASURE = 1e-9   # measure of the real combination vs measure of the oracle combination (well-conditioned scale)
ATOL_ANGLE = 1e-9     # degrees, on the circle
RTOL_AVG = 1e-12      # section averages / constancy of the shift, relative to max|x|
G = 9.81

CTX = None
CURRENT = None        # complete description of the case the driver is executing (witness for the monitors)
MEASURES = None       # key -> dict(parameter=|func=, parity, scale)

SPECIAL_ANGLES = [0, 90, 180, 270, 360, 450, -90, -180]
QUADRANT = {0: (1, 'ns'), 90: (1, 'we'), 180: (-1, 'ns'), 270: (-1, 'we'), 360: (1, 'ns'), 450: (1, 'we'),
            -90: (-1, 'we'), -180: (-1, 'ns')}
OFFSET_KINDS = [0, 90, 180, 270, 30, -45, 'random']
POINTS = [2, 5, 100, 3, 7]


def n_shards(tier):
    return 16


# ------------------------------------------------------------------------------------------------ measures
def _m_signed_max(s):
    return np.max(s.values)


def _m_signed_min(s):
    return float(np.min(s.values))


def _m_sample(s):
    return s.values[len(s.values) // 3]


def _m_cube_mean(s):
    return float(np.mean(np.asarray(s.values, dtype=float) ** 3))


def _m_cumsum_series(s):
    return np.cumsum(s.values)


def _m_cumsum_list(s):
    return [float(v) for v in np.cumsum(s.values)]


def _m_velocity_series(s):
    return s.velocity


def _m_displacement_series(s):
    return s.displacement


def _m_pgv_callable(s):
    return s.pgv


def _m_abs_series(s):
    return np.abs(s.values)


def build_measures(eqsig):
    """The registry of measures scanned by the workload. scale(A, dt): A = |ns|+|we| per sample."""
    s_peak = lambda A, dt: float(np.max(A))
    s_vel = lambda A, dt: float(dt * np.sum(A))
    s_disp = lambda A, dt: float(dt * dt * len(A) * np.sum(A))
    s_sum = lambda A, dt: float(np.sum(A))
    return {
        'pga': dict(parameter='pga', parity='even', scale=s_peak),
        'pgv': dict(parameter='pgv', parity='even', scale=s_vel),
        'pgd': dict(parameter='pgd', parity='even', scale=s_disp),
        'arias_intensity': dict(parameter='arias_intensity', parity='even',
                                scale=lambda A, dt: float(math.pi / (2 * G) * dt * np.sum(A * A))),
        'f:signed-max': dict(func=_m_signed_max, parity=None, scale=s_peak),
        'f:signed-min': dict(func=_m_signed_min, parity=None, scale=s_peak),
        'f:signed-sample': dict(func=_m_sample, parity='odd', scale=s_peak),
        'f:cube-mean': dict(func=_m_cube_mean, parity='odd', scale=lambda A, dt: float(np.max(A)) ** 3),
        'f:cumsum-series-last': dict(func=_m_cumsum_series, parity='odd', scale=s_sum),
        'f:cumsum-list-last': dict(func=_m_cumsum_list, parity='odd', scale=s_sum),
        'f:velocity-series-last': dict(func=_m_velocity_series, parity='odd', scale=s_vel),
        'f:displacement-series-last': dict(func=_m_displacement_series, parity='odd', scale=s_disp),
        'f:pgv-scalar': dict(func=_m_pgv_callable, parity='even', scale=s_vel),
        'f:abs-series-last': dict(func=_m_abs_series, parity='even', scale=s_peak),
        'f:calc_cav-series-last': dict(func=eqsig.im.calc_cav, parity='even', scale=s_vel),
        'f:calc_arias-series-last': dict(func=eqsig.im.calc_arias_intensity, parity='even',
                                         scale=lambda A, dt: float(math.pi / (2 * G) * dt * np.sum(A * A))),
    }


def _measure_of(eqsig, combo, dt, parameter, func):
    """The measure of one (oracle) combination, per the statement; monitors are paused by the caller."""
    if parameter == 'arias_intensity':
        return O.arias_final(combo, dt, G)
    sig = eqsig.AccSignal(np.array(combo, dtype=float), dt)
    if parameter is not None:
        return getattr(sig, parameter)
    val = func(sig)
    if hasattr(val, '__len__'):
        val = val[-1]
    return val


def _lookup_measure(parameter, func):
    if MEASURES is None:
        return None
    for k, m in MEASURES.items():
        if parameter is not None and m.get('parameter') == parameter:
            return m
        if parameter is None and func is not None and m.get('func') is func:
            return m
    return None


# ------------------------------------------------------------------------------------------------ rotation monitors
def _arg(args, kwargs, i, name, default=None):
    if len(args) > i:
        return args[i]
    return kwargs.get(name, default)


def _rot_witness(ns, we, dt, **kw):
    if CURRENT is not None:
        d = dict(CURRENT)
        d['failing'] = kw
        return d
    d = {'kind': 'rotation-call', 'ns': np.asarray(ns), 'we': np.asarray(we), 'dt': dt}
    d.update(kw)
    return d


def _post_combine(args, kwargs, result, pre):
    ctx = CTX
    ns = _arg(args, kwargs, 0, 'acc_sig_ns')
    we = _arg(args, kwargs, 1, 'acc_sig_we')
    angle = _arg(args, kwargs, 2, 'angle')
    try:
        a = np.asarray(ns.values, dtype=float)
        b = np.asarray(we.values, dtype=float)
        th = float(angle)
    except Exception:
        ctx.observe('combine_at_angle.out-of-domain-call')
        return
    if a.ndim != 1 or a.shape != b.shape or a.size == 0 or not math.isfinite(th) or abs(th) > 3600.0 \
            or not (np.all(np.isfinite(a)) and np.all(np.isfinite(b))):
        ctx.observe('combine_at_angle.out-of-domain-call')
        return
    ref = np.array(O.combine(a.tolist(), b.tolist(), th))
    sc = np.array(O.combine_scale(a.tolist(), b.tolist()))
    got = getattr(result, 'values', None)
    okk = isinstance(got, np.ndarray) and got.shape == ref.shape and tol.close(got, ref, scale=sc, rtol=RTOL_ROT)
    ctx.check(okk, 'rotation==ns*cos+we*sin',
              lambda: _rot_witness(a, b, ns.dt, call='combine_at_angle', angle=th, got=np.asarray(got), expected=ref),
              'combine_at_angle(theta=%r): %s' % (th, tol.describe(np.asarray(got), ref, scale=sc, rtol=RTOL_ROT)
                                                  if isinstance(got, np.ndarray) else 'values is %s' % type(got).__name__))
    import eqsig
    ctx.check(isinstance(result, eqsig.AccSignal) and result.dt == ns.dt and result.npts == a.size,
              'rotation.result-is-AccSignal(dt,npts)',
              lambda: _rot_witness(a, b, ns.dt, call='combine_at_angle', angle=th),
              'combine_at_angle returned %s dt=%r npts=%r (components dt=%r npts=%d)'
              % (type(result).__name__, getattr(result, 'dt', None), getattr(result, 'npts', None), ns.dt, a.size))


def _post_scan(args, kwargs, result, pre):
    import eqsig
    ctx = CTX
    ns = _arg(args, kwargs, 0, 'acc_sig_ns')
    we = _arg(args, kwargs, 1, 'acc_sig_we')
    off = _arg(args, kwargs, 2, 'angle_off_ns', 0.0)
    parameter = _arg(args, kwargs, 3, 'parameter', None)
    func = _arg(args, kwargs, 4, 'func', None)
    points = _arg(args, kwargs, 5, 'points', 100)
    a = np.asarray(ns.values, dtype=float)
    b = np.asarray(we.values, dtype=float)
    dt = ns.dt
    if (not isinstance(points, (int, np.integer))) or points < 2 or not math.isfinite(float(off)) or abs(float(off)) > 3600 \
            or not (np.all(np.isfinite(a)) and np.all(np.isfinite(b))):
        ctx.observe('compute_rotated.out-of-domain-call')
        return
    points = int(points)
    wit = lambda **kw: _rot_witness(a, b, dt, call='compute_rotated', offset=float(off), points=points,
                                    parameter=parameter, func=getattr(func, '__name__', None) if func is not None else None,
                                    **kw)
    try:
        degrees, pvalues = result
        degrees = np.asarray(degrees, dtype=float)
        pvalues = np.asarray(pvalues)
    except Exception:
        ctx.violation('scan.angles==mod(linspace)', wit(), 'compute_rotated did not return (angles, values)')
        return
    ref_deg = O.scan_angles(off, points)
    ok_a = degrees.shape == (points,) and bool(np.all((degrees >= 0) & (degrees <= 360)))
    worst = 0.0
    if ok_a:
        worst = max(O.circular_distance(g, r) for g, r in zip(degrees.tolist(), ref_deg))
        ok_a = worst <= ATOL_ANGLE
    ctx.check(ok_a, 'scan.angles==mod(linspace)', lambda: wit(got_angles=degrees, expected_angles=np.array(ref_deg)),
              'compute_rotated(offset=%r, points=%d): angles %s... expected %s... (worst circular distance %.3g deg)'
              % (off, points, degrees[:4].tolist(), ref_deg[:4], worst))
    # i-th value == measure of the combination at the i-th requested angle
    refs = []
    with attach.paused():
        for th in ref_deg:
            refs.append(_measure_of(eqsig, O.combine(a.tolist(), b.tolist(), th), dt, parameter, func))
    try:
        refs = np.array([float(r) for r in refs])
        got = np.array([float(v) for v in pvalues.tolist()]) if pvalues.ndim == 1 else None
    except Exception:
        ctx.observe('compute_rotated.non-scalar-measure')
        return
    m = _lookup_measure(parameter, func)
    if m is not None:
        scale = m['scale'](np.abs(a) + np.abs(b), dt)
    else:
        scale = float(np.max(np.abs(refs))) if refs.size else 0.0
    ok_v = got is not None and got.shape == refs.shape and tol.close(got, refs, scale=scale, rtol=RTOL_MEASURE)
    ctx.check(ok_v, 'scan.values==measure(combination)', lambda: wit(got_values=pvalues, expected_values=refs, scale=scale),
              'compute_rotated(offset=%r, points=%d, %s): %s'
              % (off, points, parameter if parameter is not None else getattr(func, '__name__', func),
                 tol.describe(got, refs, scale=scale, rtol=RTOL_MEASURE) if got is not None else 'values shape %s'
                 % (pvalues.shape,)))


# ------------------------------------------------------------------------------------------------ cluster monitors
def _pre_cluster(args, kwargs):
    c = args[0]
    sigs = [c.signal_by_index(i) for i in range(len(c.signals))]
    return {'values': [np.array(s.values, dtype=float, copy=True) for s in sigs],
            'npts': [s.npts for s in sigs], 'master': c.master_index, 'dt': c.dt,
            'stypes': [type(s).__name__ for s in sigs]}


def _cluster_witness(pre, op, kwargs, **kw):
    if CURRENT is not None:
        d = dict(CURRENT)
        d['failing'] = dict(kw, op=op, kwargs=dict(kwargs))
        return d
    d = {'kind': 'cluster-state', 'values': pre['values'], 'dt': pre['dt'], 'master_index': pre['master'],
         'stypes': ['acc' if t == 'AccSignal' else 'custom' for t in pre['stypes']], 'op': op, 'kwargs': dict(kwargs)}
    d.update(kw)
    return d


def _post_time_match(args, kwargs, result, pre):
    ctx = CTX
    c = args[0]
    steps = kwargs.get('steps', 10)
    vals = pre['values']
    m = pre['master']
    nsig = len(vals)
    n = len(vals[m])
    if (kwargs.get('set_step', False) is not False or nsig < 2 or not isinstance(steps, (int, np.integer)) or steps < 1
            or any(len(v) != n for v in vals) or n < 2 * steps + 2
            or not all(np.all(np.isfinite(v)) for v in vals)):
        ctx.observe('time_match.out-of-domain-call')
        return
    steps = int(steps)
    wit = lambda **kw: _cluster_witness(pre, 'time_match', kwargs, **kw)
    after = [c.signal_by_index(i).values for i in range(nsig)]
    for i in range(nsig):
        ctx.check(isinstance(after[i], np.ndarray), 'time_match.values-are-arrays',
                  lambda: wit(signal=i, type_after=type(after[i]).__name__),
                  'after time_match(steps=%d) the values of signal %d (master %d) are a %s, not an ndarray'
                  % (steps, i, m, type(after[i]).__name__))
        ctx.check(len(after[i]) == n and c.signal_by_index(i).npts == n, 'time_match.length-unchanged',
                  lambda: wit(signal=i, len_after=len(after[i])),
                  'time_match changed the length of signal %d: %d -> %d (npts %r)'
                  % (i, n, len(after[i]), c.signal_by_index(i).npts))
    aft = [np.asarray(v, dtype=float) for v in after]
    ctx.check(np.array_equal(aft[m], vals[m]), 'time_match.master-unchanged', lambda: wit(signal=m),
              'time_match changed the master signal (index %d)' % m)
    lagged_before = False
    for i in range(nsig):
        if i == m:
            continue
        L, exact = O.identify_lag(vals[m].tolist(), vals[i].tolist(), steps)
        if L is None:
            ctx.observe('time_match.' + exact)
            continue
        if len(aft[i]) != n:
            continue
        lo, hi = O.overlap_after_removal(n, L)
        kind = 'L>0' if L > 0 else ('L<0' if L < 0 else 'L=0')
        ok_shift = np.array_equal(aft[i][lo:hi], vals[i][lo + L:hi + L])
        ctx.check(ok_shift, 'time_match.lag-removed(%s)' % kind, lambda: wit(signal=i, lag=L, exact=exact),
                  'time_match(steps=%d), master %d: signal %d lags the master by %d samples; afterwards it is not its own '
                  'samples shifted by that lag on [%d, %d)' % (steps, m, i, L, lo, hi))
        if L == 0 and lagged_before:
            ctx.check(np.array_equal(aft[i], vals[i]), 'time_match.lag0-after-lagged-unchanged',
                      lambda: wit(signal=i, lag=L),
                      'time_match(steps=%d), master %d: signal %d was already aligned (lag 0) and comes after a lagged '
                      'signal; it was changed' % (steps, m, i))
        if exact:
            ctx.check(np.array_equal(aft[i][lo:hi], aft[m][lo:hi]), 'time_match.overlap==master',
                      lambda: wit(signal=i, lag=L),
                      'time_match(steps=%d), master %d: signal %d (lag %d) does not coincide with the master on the '
                      'overlap [%d, %d) afterwards' % (steps, m, i, L, lo, hi))
        if L != 0 and ok_shift:
            ok_pad = bool(np.all(aft[i][:lo] == vals[i][0])) and bool(np.all(aft[i][hi:] == vals[i][-1]))
            ctx.check(ok_pad, 'time_match.pad=edge-sample', lambda: wit(signal=i, lag=L),
                      'time_match(steps=%d): signal %d (lag %d): the %d padded samples are not the %s sample of the signal'
                      % (steps, i, L, abs(L), 'first' if L < 0 else 'last'))
        if L != 0:
            lagged_before = True


def _post_same_start(args, kwargs, result, pre):
    ctx = CTX
    c = args[0]
    start = kwargs.get('start', 0)
    end = kwargs.get('end', 1)
    vals = pre['values']
    m = pre['master']
    dt = pre['dt']
    nsig = len(vals)
    try:
        in_dom = nsig >= 2 and 0 <= start <= end and all(end <= (len(v) - 1) * dt and len(v) > 0 for v in vals) \
            and all(np.all(np.isfinite(v)) for v in vals)
    except Exception:
        in_dom = False
    if not in_dom:
        ctx.observe('same_start.out-of-domain-call')
        return
    wit = lambda **kw: _cluster_witness(pre, 'same_start', kwargs, **kw)
    sigs = [c.signal_by_index(i) for i in range(nsig)]
    after = [s.values for s in sigs]
    ctx.check(all(isinstance(v, np.ndarray) for v in after), 'same_start.values-are-arrays',
              lambda: wit(types_after=[type(v).__name__ for v in after]), 'same_start left non-array values')
    aft = [np.asarray(v, dtype=float) for v in after]
    ctx.check(np.array_equal(aft[m], vals[m]), 'same_start.master-unchanged', lambda: wit(signal=m),
              'same_start(start=%r, end=%r) changed the master signal (index %d of %d)' % (start, end, m, nsig))
    with attach.paused():
        try:
            avs = [float(s.get_section_average(start=start, end=end)) for s in sigs]
        except Exception as e:
            ctx.exception('same_start.section-average==master', wit(), e)
            return
    mmax = float(np.max(np.abs(vals[m])))
    for i in range(nsig):
        if i == m:
            continue
        bmax = float(np.max(np.abs(vals[i])))
        scale = bmax + mmax
        okk = math.isfinite(avs[i]) and abs(avs[i] - avs[m]) <= RTOL_AVG * scale
        ctx.check(okk, 'same_start.section-average==master',
                  lambda: wit(signal=i, average=avs[i], master_average=avs[m], allowed=RTOL_AVG * scale),
                  'same_start(start=%r, end=%r), %d signals, master %d: section average of signal %d is %r, the master\'s '
                  'is %r (|diff| %.3g > %.3g)' % (start, end, nsig, m, i, avs[i], avs[m], abs(avs[i] - avs[m]),
                                                   RTOL_AVG * scale))
        defined, shift, spread = O.constant_shift(vals[i].tolist(), aft[i].tolist())
        allowed = RTOL_AVG * (bmax + abs(shift))
        ctx.check(defined and spread <= allowed, 'same_start.shift-is-constant',
                  lambda: wit(signal=i, shift=shift, spread=spread, allowed=allowed),
                  'same_start changed signal %d by something other than a constant (spread of after-before %.3g > %.3g, '
                  'length %d -> %d)' % (i, spread, allowed, len(vals[i]), len(aft[i])))


def install(ctx):
    """Attach the C18 monitors to the imported eqsig (idempotent per process)."""
    global CTX, MEASURES
    CTX = ctx
    import eqsig
    if MEASURES is None:
        MEASURES = build_measures(eqsig)
    if getattr(install, '_done', False):
        return
    mm = eqsig.multiple
    attach.wrap(mm, 'combine_at_angle', _post_combine)
    attach.wrap(mm, 'compute_rotated', _post_scan)
    attach.wrap_method(mm.Cluster, 'time_match', _post_time_match, pre=_pre_cluster)
    attach.wrap_method(mm.Cluster, 'same_start', _post_same_start, pre=_pre_cluster)
    install._done = True


# ------------------------------------------------------------------------------------------------ rotation workload
def _mk_sig(eqsig, v, dt, kind):
    return eqsig.AccSignal(v, dt) if kind == 'acc' else eqsig.Signal(v, dt)


def make_rotation_case(rng, k):
    n = int(rng.choice([2, 3, 5, 17, 64, 150, 300], p=[.05, .05, .1, .2, .25, .2, .15]))
    ns, c1 = gen.record(rng, n)
    we, c2 = gen.record(rng, n)
    dt = gen.dt(rng)
    r1 = float(np.round(rng.uniform(-360, 360), 3))
    r2 = float(rng.uniform(-3400, 3400))
    base_angles = [float(a) for a in SPECIAL_ANGLES] + [37.5, r1, r2]
    angles = []
    for a in base_angles:
        for x in (a, a + 180.0):
            if x not in angles:
                angles.append(x)
    # scans: the (offset kind, measure, points) triple is enumerated by the case index
    mkeys = sorted(MEASURES)
    okind = OFFSET_KINDS[k % len(OFFSET_KINDS)]
    mkey = mkeys[(k // len(OFFSET_KINDS)) % len(mkeys)]
    points = POINTS[(k // (len(OFFSET_KINDS) * len(mkeys))) % len(POINTS)]
    off = float(rng.uniform(-400, 400)) if okind == 'random' else float(okind)
    if n > 64 and points == 100 and rng.random() < 0.5:
        n_keep = 64
        ns, we = ns[:n_keep], we[:n_keep]
    scans = [{'offset': off, 'offset_kind': str(okind), 'points': points, 'measure': mkey, 'pair180': bool(k % 2 == 0),
              'positional': bool(k % 3 == 0)}]
    # a second, cheap scan with a sign-sensitive callable so that every case carries one
    sens = ['f:signed-max', 'f:cumsum-series-last', 'f:signed-sample', 'f:velocity-series-last', 'f:signed-min',
            'f:cumsum-list-last', 'f:displacement-series-last', 'f:cube-mean']
    okind2 = OFFSET_KINDS[(k // 3) % len(OFFSET_KINDS)]
    off2 = float(rng.uniform(-400, 400)) if okind2 == 'random' else float(okind2)
    scans.append({'offset': off2, 'offset_kind': str(okind2), 'points': [5, 2, 3, 7][(k // 21) % 4],
                  'measure': sens[(k // 5) % len(sens)], 'pair180': bool(k % 2 == 1), 'positional': False})
    types = [['acc', 'acc'], ['sig', 'acc'], ['acc', 'sig'], ['sig', 'sig']][int(rng.integers(4))]
    # integer-valued records are sometimes handed over as int64 arrays
    as_int = [bool(np.all(v == np.round(v)) and np.max(np.abs(v)) < 2 ** 40 and rng.random() < 0.5) for v in (ns, we)]
    return {'kind': 'rotation', 'ns': ns, 'we': we, 'dt': dt, 'types': types, 'as_int': as_int, 'angles': angles,
            'scans': scans, 'classes': [c1, c2]}


def _scan_call(eqsig, ns, we, sc, offset):
    m = MEASURES[sc['measure']]
    if 'parameter' in m:
        if sc.get('positional'):
            return eqsig.compute_rotated(ns, we, offset, m['parameter'], None, sc['points'])
        return eqsig.compute_rotated(ns, we, angle_off_ns=offset, parameter=m['parameter'], points=sc['points'])
    return eqsig.compute_rotated(ns, we, angle_off_ns=offset, func=m['func'], points=sc['points'])


def run_rotation_case(eqsig, ctx, case):
    """Execute one rotation case through the public API (monitors attached) and check the relations between calls."""
    global CURRENT
    ns_v = np.asarray(case['ns'], dtype=float)
    we_v = np.asarray(case['we'], dtype=float)
    dt = case['dt']
    CURRENT = case
    try:
        as_int = case.get('as_int', [False, False])
        ns_in = np.round(ns_v).astype(np.int64) if as_int[0] else ns_v
        we_in = np.round(we_v).astype(np.int64) if as_int[1] else we_v
        ns = _mk_sig(eqsig, ns_in, dt, case['types'][0])
        we = _mk_sig(eqsig, we_in, dt, case['types'][1])
        sc = np.abs(ns_v) + np.abs(we_v)
        res = {}
        for th in case['angles']:
            try:
                res[th] = np.array(eqsig.combine_at_angle(ns, we, th).values, dtype=float, copy=True)
            except Exception as e:
                ctx.exception('rotation==ns*cos+we*sin', dict(case, failing={'call': 'combine_at_angle', 'angle': th}), e)
        # relations between executions
        comp = {'ns': ns_v, 'we': we_v}
        for th, (sign, which) in QUADRANT.items():
            if float(th) in res:
                exp = sign * comp[which]
                ctx.check(tol.close(res[float(th)], exp, scale=sc, rtol=RTOL_ROT), 'rotation.quadrant-identities',
                          lambda: dict(case, failing={'relation': 'theta=%d gives %s%s' % (th, '-' if sign < 0 else '', which)}),
                          'combine_at_angle(theta=%d) != %s%s: %s'
                          % (th, '-' if sign < 0 else '', which, tol.describe(res[float(th)], exp, scale=sc, rtol=RTOL_ROT)))
        for th in case['angles']:
            if th in res and (th + 180.0) in res and th + 180.0 != th:
                ctx.check(tol.close(res[th + 180.0], -res[th], scale=sc, rtol=RTOL_ROT), 'rotation.theta+180-negates',
                          lambda: dict(case, failing={'relation': 'theta+180 negates', 'angle': th}),
                          'combine_at_angle(theta=%r+180) != -combine_at_angle(theta=%r): %s'
                          % (th, th, tol.describe(res[th + 180.0], -res[th], scale=sc, rtol=RTOL_ROT)))
        # scans (compute_rotated asserts AccSignal components)
        ns_a = eqsig.AccSignal(ns_in, dt)
        we_a = eqsig.AccSignal(we_in, dt)
        for scn in case['scans']:
            m = MEASURES[scn['measure']]
            scale = m['scale'](sc, dt)
            try:
                d0, p0 = _scan_call(eqsig, ns_a, we_a, scn, scn['offset'])
            except Exception as e:
                ctx.exception('scan.values==measure(combination)', dict(case, failing={'call': 'compute_rotated', 'scan': scn}), e)
                continue
            p0 = np.asarray(p0, dtype=float)
            if m['parity'] is not None and p0.ndim == 1 and len(p0) >= 2:
                sgn = -1.0 if m['parity'] == 'odd' else 1.0
                ctx.check(abs(p0[-1] - sgn * p0[0]) <= RTOL_MEASURE * scale, 'scan.half-circle-endpoints',
                          lambda: dict(case, failing={'relation': 'last value == %+d * first value' % sgn, 'scan': scn,
                                                      'values': p0}),
                          'compute_rotated(%s, offset=%r): value at the last angle (%r) is not %+d x the value at the first '
                          '(%r); the angles are half a circle apart' % (scn['measure'], scn['offset'], p0[-1], sgn, p0[0]))
            if scn.get('pair180') and m['parity'] is not None:
                try:
                    d1, p1 = _scan_call(eqsig, ns_a, we_a, scn, scn['offset'] + 180.0)
                except Exception as e:
                    ctx.exception('scan.values==measure(combination)',
                                  dict(case, failing={'call': 'compute_rotated', 'scan': scn, 'offset+180': True}), e)
                    continue
                sgn = -1.0 if m['parity'] == 'odd' else 1.0
                p1 = np.asarray(p1, dtype=float)
                ctx.check(p1.shape == p0.shape and tol.close(p1, sgn * p0, scale=scale, rtol=RTOL_MEASURE),
                          'scan.offset+180-relation',
                          lambda: dict(case, failing={'relation': 'scan(offset+180) == %+d * scan(offset)' % sgn, 'scan': scn}),
                          'compute_rotated(%s): scan with offset %r+180 is not %+d x the scan with offset %r'
                          % (scn['measure'], scn['offset'], sgn, scn['offset']))
    finally:
        CURRENT = None


# ------------------------------------------------------------------------------------------------ cluster workload
PATTERNS = [(nsig, master, signs) for nsig in (2, 3, 4) for master in range(nsig)
            for signs in itertools.product((0, 1, -1), repeat=nsig - 1)]
MODES = ['exact', 'samestart', 'workflow', 'exact', 'noisy']
BASE_CLASSES = ['noise', 'walk', 'quake', 'intnoise', 'chirp', 'beat', 'zeropad']


def _window(rng, n, dt):
    """same_start keyword arguments: the default window (0, 1) when it fits, else a window inside the record."""
    T = (n - 1) * dt
    r = rng.random()
    if T >= 1.0 and r < 0.4:
        return {}
    if r < 0.55:
        return {'start': 0, 'end': float(rng.uniform(0, T))}
    if r < 0.65:                      # window given in whole samples (exactly representable multiples when dt is dyadic)
        i0 = int(rng.integers(0, n))
        i1 = int(rng.integers(i0, n))
        return {'start': i0 * dt, 'end': min(i1 * dt, T)}
    s = float(rng.uniform(0, T))
    return {'start': s, 'end': float(rng.uniform(s, T))}


def make_cluster_case(rng, k):
    nsig, master, signs = PATTERNS[k % len(PATTERNS)]
    mode = MODES[(k // len(PATTERNS)) % len(MODES)]
    default_steps = rng.random() < 0.15
    steps = 10 if default_steps else int(rng.integers(3, 16))
    nmin = 2 * steps + 3 if rng.random() < 0.25 else 4 * steps + 5
    n = int(rng.integers(nmin, 401)) if rng.random() < 0.7 else int(rng.integers(nmin, nmin + 40))
    dt = gen.dt(rng)
    bcls = BASE_CLASSES[int(rng.integers(len(BASE_CLASSES)))] if rng.random() < 0.75 else None
    base, bcls = gen.record(rng, n + 2 * steps, cls=bcls, allow_const=False)
    lags = []
    it = iter(signs)
    for i in range(nsig):
        if i == master:
            lags.append(0)
            continue
        s = next(it)
        if s == 0 or (mode == 'samestart' and rng.random() < 0.5):
            lags.append(0 if s == 0 else None)
            continue
        r = rng.random()
        mag = 1 if r < 0.2 else (steps - 1 if r < 0.5 else int(rng.integers(1, steps)))
        lags.append(s * mag)
    amp = float(np.max(np.abs(base))) or 1.0
    values = []
    for i, l in enumerate(lags):
        if l is None:     # an unrelated record (same_start mode only)
            v, _ = gen.record(rng, n, allow_const=True)
        else:             # sig_i[t] = base[steps + t - l] = master[t - l]
            v = base[steps - l: steps + n - l].copy()
        values.append(v)
    ops = []
    tm_kw = {} if default_steps else {'steps': steps}
    if mode == 'exact':
        ops.append(['time_match', tm_kw])
        if rng.random() < 0.5:
            ops.append(['same_start', _window(rng, n, dt)])
    elif mode == 'noisy':
        for i in range(nsig):
            values[i] = values[i] + 1e-7 * amp * rng.normal(size=n)
        ops.append(['time_match', tm_kw])
    else:
        for i in range(nsig):
            if rng.random() < 0.85:
                values[i] = values[i] + float(rng.normal()) * amp * float(rng.choice([0.01, 1.0, 30.0]))
        ops.append(['same_start', _window(rng, n, dt)])
        if mode == 'workflow':
            ops.append(['time_match', tm_kw])
        elif rng.random() < 0.3:
            ops.append(['same_start', _window(rng, n, dt)])
    container = ['array2d', 'list-of-arrays', 'list-of-lists', 'tuple-of-arrays'][int(rng.integers(4))]
    st = rng.random()
    stypes = 'custom' if st < 0.35 else ('acc' if st < 0.7 else [str(rng.choice(['acc', 'custom'])) for _ in range(nsig)])
    names = None if rng.random() < 0.6 else ['rec%d' % i for i in range(nsig)]
    return {'kind': 'cluster', 'values': values, 'dt': dt, 'master_index': master, 'stypes': stypes, 'names': names,
            'container': container, 'ops': ops, 'lags': [l if l is not None else 'unrelated' for l in lags],
            'steps': steps, 'mode': mode, 'base_class': bcls}


def run_cluster_case(eqsig, ctx, case):
    global CURRENT
    vals = [np.asarray(v, dtype=float) for v in case['values']]
    cont = case.get('container', 'list-of-arrays')
    if cont == 'array2d':
        data = np.array(vals)
    elif cont == 'list-of-lists':
        data = [v.tolist() for v in vals]
    elif cont == 'tuple-of-arrays':
        data = tuple(v.copy() for v in vals)
    else:
        data = [v.copy() for v in vals]
    kw = {'master_index': int(case['master_index'])}
    if case.get('stypes') is not None:
        kw['stypes'] = case['stypes']
    if case.get('names') is not None:
        kw['names'] = list(case['names'])
    CURRENT = case
    try:
        try:
            c = eqsig.Cluster(data, case['dt'], **kw)
        except Exception as e:
            ctx.exception('cluster.constructs', dict(case), e)
            return
        for op, okw in case['ops']:
            okw = dict(okw)
            try:
                getattr(c, op)(**okw)
                ctx.ok('%s.returns(no-exception)' % op)
            except Exception as e:
                ctx.exception('%s.returns(no-exception)' % op, dict(case, failing={'op': op, 'kwargs': okw}), e)
                break
    finally:
        CURRENT = None


# ------------------------------------------------------------------------------------------------ shard driver
def run_shard(ctx):
    eqsig = core.import_eqsig()
    install(ctx)
    rng = ctx.rng
    n_rot = 1500 if ctx.tier == 'quick' else 30000
    n_clu = 1500 if ctx.tier == 'quick' else 30000
    for k in core.split_range(n_clu, ctx.shard, ctx.nshards):
        case = make_cluster_case(rng, k)
        nontriv = any(l not in (0,) for i, l in enumerate(case['lags']) if i != case['master_index']) \
            or case['mode'] in ('samestart', 'workflow')
        ctx.case(core.digest(case['values'], case['dt'], case['master_index'], repr(case['stypes']), repr(case['ops'])),
                 nontrivial=nontriv,
                 cls='cluster-%s-n%d-m%d' % (case['mode'], len(case['values']), case['master_index']),
                 sample={'kind': 'cluster', 'mode': case['mode'], 'n_signals': len(case['values']),
                         'master_index': case['master_index'], 'lags': case['lags'], 'steps': case['steps'],
                         'npts': len(case['values'][0]), 'dt': case['dt'], 'ops': case['ops'],
                         'base_class': case['base_class']})
        ctx.observe('cluster.base-class.%s' % case['base_class'])
        run_cluster_case(eqsig, ctx, case)
        if ctx.out_of_time():
            break
    for k in core.split_range(n_rot, ctx.shard, ctx.nshards):
        case = make_rotation_case(rng, k)
        nontriv = len(set(case['ns'].tolist())) > 1 or len(set(case['we'].tolist())) > 1
        ctx.case(core.digest(case['ns'], case['we'], case['dt'], case['angles'], repr(case['scans'])), nontrivial=nontriv,
                 cls='rotation-%s' % case['scans'][0]['measure'],
                 sample={'kind': 'rotation', 'npts': len(case['ns']), 'dt': case['dt'], 'classes': case['classes'],
                         'angles': case['angles'][:6], 'scans': case['scans'], 'ns_head': case['ns'][:5],
                         'we_head': case['we'][:5]})
        for scn in case['scans']:
            ctx.observe('scan.offset-kind.%s' % scn['offset_kind'])
        run_rotation_case(eqsig, ctx, case)
        if ctx.out_of_time():
            break
    ctx.note('monitored_calls', dict(attach.CALLS))
    ctx.exhaustive['cluster_patterns(size,master,lag-signs)'] = len(PATTERNS)


# ------------------------------------------------------------------------------------------------ replay
def replay(w):
    """Re-execute one witness against the current tree; return the list of violation messages."""
    eqsig = core.import_eqsig()
    ctx = core.Ctx(PROP_ID, 'quick', 0, 0, 1)
    install(ctx)
    w = dict(w)
    w.pop('failing', None)
    kind = w.get('kind')
    if kind == 'rotation':
        run_rotation_case(eqsig, ctx, w)
    elif kind == 'cluster':
        run_cluster_case(eqsig, ctx, w)
    elif kind == 'cluster-state':
        case = {'kind': 'cluster', 'values': w['values'], 'dt': w['dt'], 'master_index': w['master_index'],
                'stypes': w.get('stypes'), 'names': None, 'container': 'list-of-arrays',
                'ops': [[w['op'], w.get('kwargs', {})]]}
        run_cluster_case(eqsig, ctx, case)
    elif kind == 'rotation-call':
        ns = eqsig.AccSignal(np.asarray(w['ns'], dtype=float), w['dt'])
        we = eqsig.AccSignal(np.asarray(w['we'], dtype=float), w['dt'])
        try:
            if w.get('call') == 'compute_rotated':
                if w.get('parameter') is None:
                    return ['cannot replay a scan with a foreign callable (%r)' % w.get('func')]
                eqsig.compute_rotated(ns, we, angle_off_ns=w['offset'], parameter=w['parameter'], points=w['points'])
            else:
                eqsig.combine_at_angle(ns, we, w['angle'])
        except Exception as e:
            ctx.exception('rotation==ns*cos+we*sin', w, e)
    else:
        return ['unknown witness kind %r' % kind]
    return ['%s: %s' % (v['clause'], v['msg']) for v in ctx.violations]
