"""C01 - SDOF response series is the exact solution of the oscillator equation.

Monitor: post-condition on every call of eqsig.sdof.nigam_and_jennings_response (through which response_series, the
spectra, the energy functions and AccSignal.response_series all pass) and a second one on the AccSignal.response_series
method (its result must be the exact response of the object's CURRENT values), against the exact propagator of
vf/oracles/sdof_exact.py under the tolerance written in the statement.
"""
import numpy as np

from vf import attach, core, gen
from vf.oracles import sdof_exact as X

PROP_ID = 'C01'
TECHNIQUE = 'runtime post-condition monitor vs exact propagator (60-digit mpmath coefficients, 80-bit recurrence)'
RULE = ('cases = calls of response_series / nigam_and_jennings_response / AccSignal.response_series on generated records '
        '(14 shape classes incl. impulses, hats, steps, zero-padded, alternating, integer-valued, windows of the shipped '
        'ground motion; lengths 2..400 quick / up to 20000 thorough; amplitudes 1e-12..1e12 and (4 %) extreme scales 1e+-165..1e+-220 where squares of samples under/overflow; float64/float32/int64/narrow and unsigned int/list containers, '
        'strided, negative-stride and read-only views; integer-valued period containers; xi=0 as Python int; positional and keyword calls) x dt log-uniform [1e-3,1], nice decimals and extreme time bases 1e-9..1e3 x 1..8 periods per call (4 %: 31..256 periods at and around powers of two, first/last/block-boundary rows always judged) with T/dt log-uniform over [0.2,2e4] '
        'plus pinned {0.2,0.5,1,2,5.9,6,6.1,20,2e4}, optional leading 0 x xi in {0,.02,.05,.2,.5,.9,.99,1-1e-6,1-1e-9,'
        '1-1e-12,U(0,1)}; object-level histories call, mutate values, call again. distinct = digest(record, dt, periods, '
        'xi, entry point); non-trivial = record not identically zero and at least one period > 0.')
ASSUMPTIONS = ['x87 80-bit long double available (checked at start, inconclusive otherwise)',
               'mpmath 60-digit arithmetic and the 15-line textbook step solution in vf/oracles/sdof_exact.py are correct',
               'periods with T/dt outside [0.2, 2e4] and xi outside [0,1) are not judged',
               'NaN-free records']
MIN_EVALS = {'quick': {'u,v==exact(row)': 4000, 'third-series identity(row)': 4000, 'T=0 row exact': 150,
                       'object.response_series==exact of current values': 150, 'object.response_times==periods given': 150, 'shape+finite': 700, 'arguments-unchanged': 900,
                       'earlier-result-unchanged-by-later-call': 300},
             'thorough': {'u,v==exact(row)': 60000, 'third-series identity(row)': 60000, 'T=0 row exact': 2000,
                          'object.response_series==exact of current values': 2000, 'object.response_times==periods given': 2000, 'shape+finite': 10000, 'arguments-unchanged': 20000,
                          'earlier-result-unchanged-by-later-call': 6000}}
CTX = None
K1 = 'C01/illcond-rounding'
EPS = float(np.finfo(float).eps)
MAX_ROWS = 8          # rows judged per monitored call when a call has many periods
MAX_N = 30000         # longer records are not judged by the (O(n) python loop) oracle


def n_shards(tier):
    return 16


def _wit(acc, dt, periods, xi, entry, **kw):
    d = {'acc': np.asarray(acc), 'acc_container': type(acc).__name__, 'dt': float(dt), 'periods': np.asarray(periods, dtype=float),
         'xi': float(xi), 'entry': entry}
    d.update(kw)
    return d


def stated_tolerance(T, dt, n):
    w = 2 * np.pi / T
    return 1e-6 + 5e-8 * (n - 1) * dt / T + EPS / (w * dt) ** 3


def k1_envelope(T, dt, n, xi, amax):
    """First-principles rounding envelope of the forced-term cancellation (DESIGN.md C01 (g)), K = 16."""
    w = 2 * np.pi / T
    Mu = 2 * xi / (w ** 3 * dt) + 1 / w ** 2
    Mv = (1 + 2 * xi * xi) / (w * w * dt) + xi / w
    s = n - 1
    K = 16.0
    return (K * EPS * amax * (s * Mu + s * s * dt * Mv), K * EPS * amax * (s * Mv + s * s * dt * w * w * Mu))


def judge(ctx, acc, dt, periods, xi, result, entry, rows=None):
    """Evaluate all C01 clauses on one call's arguments and result."""
    try:
        rec = np.array(acc, dtype=float)
        per = np.array(periods, dtype=float)
        dt = float(dt)
        xi = float(xi)
    except Exception:
        ctx.observe('unparseable-arguments')
        return
    n = len(rec)
    if rec.ndim != 1 or per.ndim != 1 or n < 2 or len(per) < 1 or not (0 <= xi < 1) or not dt > 0 or not np.all(np.isfinite(rec)):
        ctx.observe('out-of-domain-call')
        return
    if n > MAX_N:
        ctx.observe('record-too-long-for-oracle')
        return
    lead0 = per[0] == 0
    if np.any(per[1 if lead0 else 0:] <= 0):
        ctx.observe('out-of-domain-call')
        return
    wit = lambda **kw: _wit(acc, dt, periods, xi, entry, **kw)
    try:
        u, v, a3 = [np.asarray(r) for r in result]
    except Exception as e:
        ctx.violation('shape+finite', wit(), 'result is not a triple of arrays: %r' % (e,))
        return
    shp = (len(per), n)
    okshape = u.shape == shp and v.shape == shp and a3.shape == shp
    if not ctx.check(okshape and bool(np.all(np.isfinite(u)) and np.all(np.isfinite(v)) and np.all(np.isfinite(a3))),
                     'shape+finite', wit, 'shapes %s %s %s expected %s or non-finite output' % (u.shape, v.shape, a3.shape, shp)):
        return
    if lead0:
        ok0 = not u[0].any() and not v[0].any() and np.array_equal(a3[0], -rec)
        ctx.check(ok0, 'T=0 row exact', wit, 'leading T=0 row is not (0, 0, -record)')
    idx = [j for j in range(1 if lead0 else 0, len(per)) if 0.2 * (1 - 1e-12) <= per[j] / dt <= 2e4 * (1 + 1e-12)]
    skipped = len(per) - (1 if lead0 else 0) - len(idx)
    if skipped:
        ctx.observe('period-rows-outside-[0.2,2e4]dt', skipped)
    if not idx:
        return
    if rows is not None:
        idx = [j for j in idx if j in rows]
    elif len(idx) > MAX_ROWS:
        # first and last row, the rows on either side of power-of-two block boundaries, and a random fill
        must = {idx[0], idx[-1]} | {j for j in idx if j in (31, 32, 63, 64, 65, 127, 128, 129)}
        must = set(sorted(must)[:MAX_ROWS])
        rest = [j for j in idx if j not in must]
        sel = ctx.rng.choice(len(rest), size=min(len(rest), MAX_ROWS + 4 - len(must)), replace=False) if rest else []
        ctx.observe('period-rows-not-sampled', len(idx) - len(must) - len(sel))
        idx = sorted(must | {rest[k] for k in sel})
    ru, rv = X.response(rec, dt, per[idx], xi)
    amax = float(np.max(np.abs(rec)))
    for k, j in enumerate(idx):
        T = per[j]
        w = 2 * np.pi / T
        # third series identity against the library's own u, v
        t1 = 2 * xi * w * v[j]
        t2 = w * w * u[j]
        sc = float(np.max(np.abs(t1) + np.abs(t2)))
        e3 = float(np.max(np.abs(a3[j] + t1 + t2)))
        ctx.check(e3 <= 1e-7 * sc + 1e-300, 'third-series identity(row)', lambda: wit(row=j),
                  'row %d (T=%g): |a3 + 2 xi w v + w^2 u| = %.3g > 1e-7*%.3g' % (j, T, e3, sc))
        tol = stated_tolerance(T, dt, n)
        pu = float(np.max(np.abs(ru[k])))
        pv = float(np.max(np.abs(rv[k])))
        eu = float(np.max(np.abs(u[j] - ru[k])))
        ev = float(np.max(np.abs(v[j] - rv[k])))
        okk = eu <= tol * pu and ev <= tol * pv
        fin = None
        if not okk:
            # mechanism classifier of the known finding (DESIGN.md C01 (g)): ill-conditioned regimes in which the exact
            # SAMPLED series has a peak far below the natural response scale, so that an absolute error of rounding size
            # exceeds the stated relative-to-peak allowance.
            Eu, Ev = k1_envelope(T, dt, n, xi, amax)
            # peak oscillation amplitude of the exact state (u, v/w): a phase error d_phi (truncated 6.2831853: 1.1e-9 per
            # radian) leaks d_phi*(v/w) into u and d_phi*w*u into v, and rounding acts on the state as a whole
            a_state = float(np.max(np.sqrt(ru[k] * ru[k] + (rv[k] / w) ** 2)))
            if T / dt <= 2 * (1 + 1e-9):
                a_state = max(a_state, amax / w ** 2)
            au = av = -1.0
            if T / dt >= 250:           # regime A: long periods, rounding of the forced-term coefficients (onset ~300 for n=2)
                au, av = Eu, Ev
            # regime B: the judged component is degenerate - at every sample at least 100x smaller than the state amplitude
            # (always possible at or below the Nyquist period T <= 2*dt; elsewhere only for destructive records such as the
            # two-sample record [1, -1]) - so an error that is within the stated allowance relative to the STATE amplitude
            # exceeds the allowance relative to the component's own peak
            if T / dt <= 2 * (1 + 1e-9) or pu * 100 <= a_state:
                au = max(au, tol * a_state + Eu)
            if T / dt <= 2 * (1 + 1e-9) or pv * 100 <= a_state * w:
                av = max(av, tol * a_state * w + Ev)
            if (eu <= tol * pu or eu <= au) and (ev <= tol * pv or ev <= av):
                fin = K1
        ctx.check(okk, 'u,v==exact(row)', lambda: wit(row=j, err_u=eu, err_v=ev, peak_u=pu, peak_v=pv, tol_rel=tol),
                  '%s row %d T=%g (T/dt=%.4g) xi=%g n=%d: err_u/allowed=%.3g err_v/allowed=%.3g'
                  % (entry, j, T, T / dt, xi, n, eu / (tol * pu) if pu else float('inf') if eu else 0,
                     ev / (tol * pv) if pv else float('inf') if ev else 0), finding=fin)


def _post_nj(args, kwargs, result, pre):
    a = list(args) + [None] * 4
    acc = kwargs.get('acc', a[0])
    dt = kwargs.get('dt', a[1])
    periods = kwargs.get('periods', a[2])
    xi = kwargs.get('xi', a[3])
    judge(CTX, acc, dt, periods, xi, result, 'nigam_and_jennings_response')


def _post_obj(args, kwargs, result, pre):
    """AccSignal.response_series: the result must be the exact response of the object's current values for the periods the
    CALLER gave - per call, through the constructor keyword or through the attribute (the driver leaves them in
    `_vf_periods`; calls from elsewhere, e.g. the repository's tests, fall back to the object's own response_times)."""
    self = args[0]
    xi = kwargs.get('xi', args[2] if len(args) > 2 else -1)
    if xi == -1:
        xi = getattr(self, '_cached_xi', 0.05)
    rt = kwargs.get('response_times', args[1] if len(args) > 1 else None)
    if rt is None:
        rt = getattr(self, '_vf_periods', None)
    if rt is None:
        rt = self.response_times
    else:
        try:
            same = np.array_equal(np.asarray(self.response_times, dtype=float), np.asarray(rt, dtype=float))
        except Exception:
            same = False
        CTX.check(same, 'object.response_times==periods given',
                  lambda: _wit(self.values, self.dt, rt, xi, 'AccSignal.response_series', periods_container=type(rt).__name__,
                               stored=np.asarray(self.response_times, dtype=float)),
                  'the object holds %d periods %s..., the caller gave %d (%s) %s...'
                  % (len(self.response_times), np.asarray(self.response_times, dtype=float)[:3], len(rt), type(rt).__name__,
                     np.asarray(rt, dtype=float)[:3]))
        try:
            self._vf_periods = np.array(rt, dtype=float)
        except Exception:
            pass
    before = dict(CTX.viol_counts)
    judge(CTX, self.values, self.dt, rt, xi, result, 'AccSignal.response_series')
    bad = CTX.viol_counts != before
    CTX.check(not bad, 'object.response_series==exact of current values',
              lambda: _wit(self.values, self.dt, rt, xi, 'AccSignal.response_series', periods_container=type(rt).__name__),
              'object-level response differs from the exact response of the object\'s current values')


def install(ctx):
    global CTX
    CTX = ctx
    import eqsig
    attach.wrap(eqsig.sdof, 'nigam_and_jennings_response', _post_nj)
    attach.wrap_method(eqsig.AccSignal, 'response_series', _post_obj)


# ------------------------------------------------------------------------------------------------------ workload
XIS = [0.0, 0.02, 0.05, 0.2, 0.5, 0.9, 0.99, 1 - 1e-6, 1 - 1e-9, 1 - 1e-12]
PINNED = [0.2, 0.5, 1.0, 2.0, 5.9, 6.0, 6.1, 20.0, 2e4]


MANY = [31, 32, 33, 63, 64, 65, 100, 127, 128, 129, 192, 256]


def draw_case(rng, tier):
    if tier == 'quick':
        n = int(rng.choice([2, 3, 4, 5, 8])) if rng.random() < 0.2 else int(rng.integers(9, 401))
    else:
        r = rng.random()
        n = int(rng.choice([2, 3, 4, 5, 8])) if r < 0.15 else (int(rng.integers(9, 401)) if r < 0.8 else
                                                                (int(rng.integers(400, 3000)) if r < 0.97 else int(rng.integers(3000, 20001))))
    x, cls = gen.record(rng, n, wide=True, extreme=True)
    dt = gen.dt(rng, 'log' if rng.random() < 0.6 else 'nice')
    if rng.random() < 0.15 and 'extreme-scale' not in cls:     # extreme time bases (nanoseconds .. kiloseconds): "all dt > 0"
        dt = float(10 ** (rng.uniform(-9, -3) if rng.random() < 0.6 else rng.uniform(0, 3)))
    # the LENGTH of the period list is an input dimension of its own: 1 (a scalar-like call), 2..8, and 4 % of the cases at and
    # around the block sizes a vectorised implementation might use
    r = rng.random()
    P = 1 if r < 0.12 else (int(MANY[int(rng.integers(len(MANY)))]) if r < 0.16 else int(rng.integers(2, 9)))
    if P > 8 and n > 150:
        x, n = x[:150], 150
    ratios = 10 ** rng.uniform(np.log10(0.2), np.log10(2e4), size=P)
    for k in range(P):
        if rng.random() < 0.25:
            ratios[k] = PINNED[int(rng.integers(len(PINNED)))]
    ratios = np.clip(ratios, 0.2, 2e4)
    periods = ratios * dt
    # keep products inside the judged range despite rounding of ratio*dt
    periods = np.where(periods / dt < 0.2, 0.2 * dt * (1 + 1e-12), periods)
    if rng.random() < 0.5:
        periods = np.sort(periods)
    if rng.random() < 0.3:
        periods = np.concatenate([[0.0], periods])
    if rng.random() < 0.03:
        periods = np.array([0.0])        # the rigid oscillator alone: "optionally one leading T=0" with nothing after it
    xi = float(XIS[int(rng.integers(len(XIS)))]) if rng.random() < 0.75 else float(rng.uniform(0, 1))
    return x, cls, dt, periods, xi


def run_shard(ctx):
    eqsig = core.import_eqsig()
    if not X.longdouble_ok():
        raise RuntimeError('long double is not 80-bit on this machine: oracle unavailable')
    install(ctx)
    rng = ctx.rng
    ncase = (1800 if ctx.tier == 'quick' else 40000) // ctx.nshards + 1
    for c in range(ncase):
        x, cls, dt, periods, xi = draw_case(rng, ctx.tier)
        entry = int(rng.integers(3))
        cont, ck = gen.container(rng, x, kinds=('f64', 'f64', 'f64', 'f32', 'i64', 'list'))
        r = rng.random()
        if 'extreme-scale' in cls:
            cont, ck = ([float(t) for t in x], 'list') if r < 0.3 else (np.array(x, dtype=float), 'f64')
        elif r < 0.06:
            cont, ck = gen.narrow_int(rng, len(x))
        elif r < 0.14:
            cont, ck = gen.view_form(rng, np.array(x, dtype=float))
        pk = int(rng.integers(3))
        pcont = [periods, list(periods), tuple(periods)][pk]
        if rng.random() < 0.06:      # integer-valued period container (leading 0 kept), step chosen to keep T/dt in range
            dt = float(rng.choice([0.01, 0.02, 0.05, 0.1, 0.25]))
            ip = sorted(set(int(t) for t in rng.integers(1, 8, size=4)))
            periods = np.array(([0] if rng.random() < 0.6 else []) + ip, dtype=float)
            pcont = [[int(t) for t in periods], tuple(int(t) for t in periods), periods.astype(np.int64)][pk]
        xi_arg = xi
        if xi == 0.0 and rng.random() < 0.5:
            xi_arg = 0                   # the lower end of the damping range passed as a Python int
        elif rng.random() < 0.1:
            xi_arg = [np.float64(xi), np.array(xi)][int(rng.integers(2))]
        # scalar forms of the step: numpy scalars and (mutable) 0-d arrays; the 0-d array must come back unchanged
        dt_float = dt
        r_dt = rng.random()
        if r_dt < 0.05:
            dt = np.float64(dt)
        elif r_dt < 0.12:
            dt = np.array(float(dt))
        elif r_dt < 0.15:
            dt = np.float32(dt)
            dt_float = float(dt)
        before = (core.digest(np.asarray(cont)), core.digest(np.asarray(pcont)))
        nontriv = bool(np.any(np.asarray(cont, dtype=float) != 0)) and bool(np.any(periods > 0))
        ctx.case(core.digest(np.asarray(cont, dtype=float), dt, periods, xi, entry), nontrivial=nontriv,
                 cls='%s/%s' % (cls, ck),
                 sample={'entry': ['response_series', 'nigam_and_jennings_response', 'AccSignal.response_series'][entry],
                         'class': cls, 'container': ck, 'n': len(x), 'dt': dt, 'T/dt': periods / dt, 'xi': xi})
        try:
            if entry == 0:
                if rng.random() < 0.5:
                    res = eqsig.sdof.response_series(cont, dt, pcont, xi_arg)
                else:
                    res = eqsig.sdof.response_series(motion=cont, dt=dt, periods=pcont, xi=xi_arg)
                recheck_previous(ctx, res, cont, dt, periods, xi)
            elif entry == 1:
                res = eqsig.sdof.nigam_and_jennings_response(cont, dt, pcont, xi_arg)
                recheck_previous(ctx, res, cont, dt, periods, xi)
            else:
                # the periods reach the object per call, through the constructor keyword, or through the public attribute -
                # in every container form (a 2-tuple must not be taken for a (min, max) range)
                how = int(rng.integers(4))
                if how == 0:
                    asig = eqsig.AccSignal(cont, dt)
                    asig.response_series(response_times=pcont, xi=xi_arg)
                elif how == 1:
                    asig = eqsig.AccSignal(cont, dt)
                    asig.response_series(pcont, xi_arg)
                elif how == 2:
                    asig = eqsig.AccSignal(cont, dt, response_times=pcont)
                    asig._vf_periods = np.array(periods, dtype=float)
                    asig.response_series(xi=xi_arg)
                else:
                    asig = eqsig.AccSignal(cont, dt)
                    asig.response_times = pcont
                    asig._vf_periods = np.array(periods, dtype=float)
                    asig.response_series(xi=xi_arg)
                ctx.keyset('object periods (how given, container, count<=3)').add(
                    (['call-kw', 'call-pos', 'ctor-kw', 'attribute'][how], type(pcont).__name__, min(len(periods), 3)))
                # history: change the values through the public API, call again (with and without passing periods)
                k = int(rng.integers(5))
                if k == 0:
                    y, _ = gen.record(rng, len(x))
                    asig.reset_values(y)
                elif k == 1:
                    asig.add_constant(float(rng.normal()))
                elif k == 2:
                    asig.add_series(rng.normal(size=len(x)))
                elif k == 3:
                    asig.remove_average()
                else:
                    asig.reset_values(np.asarray(asig.values, dtype=float) * 2.0)
                if rng.random() < 0.6:
                    asig.response_series(xi=xi)
                else:
                    asig.response_series(response_times=pcont, xi=xi)
                if rng.random() < 0.3:
                    asig.response_series()       # default xi
        except Exception as e:
            ctx.exception('shape+finite', _wit(cont, dt, periods, xi, ['response_series', 'nj', 'object'][entry]), e)
        ctx.check((core.digest(np.asarray(cont)), core.digest(np.asarray(pcont))) == before and float(dt) == dt_float
                  and float(xi_arg) == xi, 'arguments-unchanged',
                  lambda: _wit(cont, dt, periods, xi, 'purity', dt_given=dt_float, dt_form=type(dt).__name__),
                  'record, period container, or a step / damping given as a 0-d array modified by the call (dt %r -> %r)' % (dt_float, float(dt)))
    ctx.note('monitored_calls', dict(attach.CALLS))


_PREV = {}


def recheck_previous(ctx, res, cont, dt, periods, xi):
    """Process-wide state: the result of the PREVIOUS call must still be what it was when it was returned (a result that is a
    view of a module-level scratch buffer changes when the next record of the same shape is processed)."""
    prev = _PREV.get('last')
    if prev is not None:
        arrays, dig, wit = prev
        ctx.check(core.digest(*arrays) == dig, 'earlier-result-unchanged-by-later-call', lambda: wit,
                  'the arrays returned by an earlier call changed after a later call')
    arrays = [np.asarray(r) for r in res]
    _PREV['last'] = (arrays, core.digest(*arrays), _wit(cont, dt, periods, xi, 'previous-result'))


def replay(w):
    eqsig = core.import_eqsig()
    ctx = core.Ctx(PROP_ID, 'quick', 0, 0, 1)
    install(ctx)
    acc = w['acc']
    if w.get('acc_container') == 'list':
        acc = [float(t) for t in np.asarray(acc).tolist()]
    if w.get('entry', '').startswith('AccSignal') or w.get('entry') == 'object':
        per = w['periods']
        if w.get('periods_container') in ('tuple', 'list'):
            per = [float(t) for t in np.asarray(per)]
            per = tuple(per) if w['periods_container'] == 'tuple' else per
        for how in range(3):      # per call, constructor keyword, attribute
            if how == 0:
                asig = eqsig.AccSignal(acc, w['dt'])
                asig.response_series(response_times=per, xi=w['xi'])
            elif how == 1:
                asig = eqsig.AccSignal(acc, w['dt'], response_times=per)
                asig._vf_periods = np.array(w['periods'], dtype=float)
                asig.response_series(xi=w['xi'])
            else:
                asig = eqsig.AccSignal(acc, w['dt'])
                asig.response_times = per
                asig._vf_periods = np.array(w['periods'], dtype=float)
                asig.response_series(xi=w['xi'])
    else:
        eqsig.sdof.response_series(acc, w['dt'], w['periods'], w['xi'])
    return ['%s: %s' % (v['clause'], v['msg']) for v in ctx.violations if not v.get('finding')]
